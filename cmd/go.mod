module verif/cmd

go 1.22.0
