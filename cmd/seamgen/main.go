// seamgen rewrites the current source files of selected conjure packages so
// that their network calls, lock operations, go statements and math/rand calls
// go through the simulator's hook package, and writes a `go build -overlay`
// file that maps the rewritten copies (and the harness files of /verif/harness)
// over the originals. /repo itself is never modified.
//
// Rules (purely syntactic, applied to every occurrence in non-test files):
//
//	net   net.Dial / net.DialTimeout / net.ResolveIPAddr / net.LookupIP / net.LookupHost / http.Post -> verifhook.<same>
//	lock  X.Lock() / X.Unlock() / X.RLock() / X.RUnlock()            -> verifhook.Lock(site, &(X)) ...
//	go    go f(a, b)                                                 -> { vf, va, vb := f, a, b; verifhook.Go(site, func(){ vf(va, vb) }) }
//	rand  math/rand top-level calls                                  -> func() T { verifhook.Yield(site); return rand.F(args) }()
//	select  select { case <-a: A; case b <- v: B }                   -> switch verifhook.SelectPick(site, R(a), S(b)) { case 0: select { case <-a: A }; case 1: select { case b <- v: B }; default: <original> }
//	tcpconn       c, ok := X.(*net.TCPConn)                          -> c, ok := verifhook.AsTCPConn(X)   (interface with SetLinger; simulated connections implement it)
//	entry=F+G     func (..) F(..) {                                  -> func (..) F(..) { verifhook.Yield(site); (a scheduling point at function entry)
//	wrap=p.F+.M   p.F(args) / X.M(args)                              -> verifWrap_p_F(p.F)(args) / verifWrap_M(X.M, X)(args)   (the package's harness files define the wrappers;
//	        used to stand in for the sockets, tun devices and signals of a main() so that the real main() can run inside the simulation)
//	maprange=M+N  for k, v := range M {                              -> for _, k := range verifhook.MapKeys(site, M) { v, ok := M[k]; if !ok { continue }; ...
//	        (only selects with >= 2 communication clauses whose channel expressions are identifiers, selectors or x.Done(); not labelled; no labels in the bodies)
//
// The go/ast tree is used only to locate the byte ranges to edit; the edits are
// applied to the original text, so comments, cgo preambles, build constraints
// and formatting survive untouched.
package main

import (
	"encoding/json"
	"flag"
	"fmt"
	"go/ast"
	"go/parser"
	"go/token"
	"os"
	"path/filepath"
	"sort"
	"strconv"
	"strings"
)

type pkgFlag []string

func (p *pkgFlag) String() string     { return strings.Join(*p, ",") }
func (p *pkgFlag) Set(s string) error { *p = append(*p, s); return nil }

const hookPath = "verif/sim/hook"
const hookName = "verifhook"

var randResults = map[string]string{
	"Seed": "", "Shuffle": "", "Int": "int", "Intn": "int", "Int31": "int32", "Int31n": "int32",
	"Int63": "int64", "Int63n": "int64", "Uint32": "uint32", "Uint64": "uint64", "Float32": "float32",
	"Float64": "float64", "Perm": "[]int", "ExpFloat64": "float64", "NormFloat64": "float64", "Read": "(int, error)",
}

type edit struct {
	lo, hi int
	gen    func() string
}

type rewriter struct {
	fset    *token.FileSet
	file    *ast.File
	src     []byte
	base    string
	rules   map[string]bool
	netName string
	httpNm  string
	randNm  string
	edits   []*edit
	counts  map[string]int
	maps    map[string]bool // map expressions whose range loops are rewritten (rule maprange=expr+expr)
	entries map[string]bool // functions that get a scheduling point at entry (rule entry=F+G)
	removed map[string]int  // package name -> selector uses replaced
	wraps   map[string]bool // "pkg.Func" / ".Method" calls that go through verifWrap_* (rule wrap=a+b)
}

func importName(f *ast.File, path string) string {
	for _, im := range f.Imports {
		p, _ := strconv.Unquote(im.Path.Value)
		if p == path {
			if im.Name != nil {
				if im.Name.Name == "_" || im.Name.Name == "." {
					return ""
				}
				return im.Name.Name
			}
			return filepath.Base(path)
		}
	}
	return ""
}

func importedAs(f *ast.File, name string) bool {
	for _, im := range f.Imports {
		p, _ := strconv.Unquote(im.Path.Value)
		n := filepath.Base(p)
		if im.Name != nil {
			n = im.Name.Name
		}
		if n == name {
			return true
		}
	}
	return false
}

func (rw *rewriter) off(p token.Pos) int { return rw.fset.Position(p).Offset }

func (rw *rewriter) site(pos token.Pos) string {
	return strconv.Quote(fmt.Sprintf("%s:%d", rw.base, rw.fset.Position(pos).Line))
}

// render returns the text of [lo,hi) with every edit strictly inside applied
// (self is the edit being generated; it is skipped).
func (rw *rewriter) render(lo, hi int, self *edit) string {
	var inside []*edit
	for _, e := range rw.edits {
		if e == self || e.lo < lo || e.hi > hi {
			continue
		}
		if self != nil && e.lo == self.lo && e.hi == self.hi {
			continue
		}
		inside = append(inside, e)
	}
	// keep only outermost
	var top []*edit
	for _, e := range inside {
		contained := false
		for _, o := range inside {
			if o != e && o.lo <= e.lo && e.hi <= o.hi && (o.hi-o.lo) > (e.hi-e.lo) {
				contained = true
				break
			}
		}
		if !contained {
			top = append(top, e)
		}
	}
	sort.Slice(top, func(i, j int) bool { return top[i].lo < top[j].lo })
	var b strings.Builder
	pos := lo
	for _, e := range top {
		if e.lo < pos {
			continue // overlapping (should not happen)
		}
		b.Write(rw.src[pos:e.lo])
		b.WriteString(e.gen())
		pos = e.hi
	}
	b.Write(rw.src[pos:hi])
	return b.String()
}

func isPkgSel(e ast.Expr, pkg string, names ...string) (string, bool) {
	if pkg == "" {
		return "", false
	}
	se, ok := e.(*ast.SelectorExpr)
	if !ok {
		return "", false
	}
	id, ok := se.X.(*ast.Ident)
	if !ok || id.Name != pkg || id.Obj != nil {
		return "", false
	}
	if len(names) == 0 {
		return se.Sel.Name, true
	}
	for _, n := range names {
		if se.Sel.Name == n {
			return n, true
		}
	}
	return "", false
}

func (rw *rewriter) call(c *ast.CallExpr) {
	if len(rw.wraps) > 0 {
		if se, ok := c.Fun.(*ast.SelectorExpr); ok {
			name, method := "", false
			if id, ok := se.X.(*ast.Ident); ok && id.Obj == nil && rw.wraps[id.Name+"."+se.Sel.Name] {
				name = id.Name + "_" + se.Sel.Name
			} else if rw.wraps["."+se.Sel.Name] {
				name, method = se.Sel.Name, true
			}
			if name != "" {
				e := &edit{lo: rw.off(c.Fun.Pos()), hi: rw.off(c.Fun.End())}
				xlo, xhi := rw.off(se.X.Pos()), rw.off(se.X.End())
				e.gen = func() string {
					fun := rw.render(e.lo, e.hi, e)
					if method {
						return "verifWrap_" + name + "(" + fun + ", " + rw.render(xlo, xhi, e) + ")"
					}
					return "verifWrap_" + name + "(" + fun + ")"
				}
				rw.edits = append(rw.edits, e)
				rw.counts["wrap"]++
				return
			}
		}
	}
	if rw.rules["redisnew"] {
		// redis.NewClient(opts) -> the package-level variable verifRedisNewClient (declared in the
		// package's harness export file, initially redis.NewClient): the world can give the client
		// the station builds for itself a dialer into the simulated network
		if _, ok := isPkgSel(c.Fun, "redis", "NewClient"); ok {
			rw.edits = append(rw.edits, &edit{rw.off(c.Fun.Pos()), rw.off(c.Fun.End()), func() string {
				return "(func() func(*redis.Options) *redis.Client { " + hookName + ".Touch(); return verifRedisNewClient })()"
			}})
			rw.counts["redisnew"]++
			return
		}
	}
	if rw.rules["net"] {
		if n, ok := isPkgSel(c.Fun, rw.netName, "Dial", "DialTimeout", "ResolveIPAddr", "LookupIP", "LookupHost"); ok {
			rw.edits = append(rw.edits, &edit{rw.off(c.Fun.Pos()), rw.off(c.Fun.End()), func() string { return hookName + "." + n }})
			rw.counts["net"]++
			rw.removed[rw.netName]++
			return
		}
		if _, ok := isPkgSel(c.Fun, rw.httpNm, "Post"); ok {
			rw.edits = append(rw.edits, &edit{rw.off(c.Fun.Pos()), rw.off(c.Fun.End()), func() string { return hookName + ".HTTPPost" }})
			rw.counts["net"]++
			rw.removed[rw.httpNm]++
			return
		}
	}
	if rw.rules["lock"] {
		if se, ok := c.Fun.(*ast.SelectorExpr); ok && len(c.Args) == 0 {
			switch se.Sel.Name {
			case "Lock", "Unlock", "RLock", "RUnlock", "TryLock", "TryRLock":
				if id, ok := se.X.(*ast.Ident); ok && id.Obj == nil && importedAs(rw.file, id.Name) {
					break
				}
				e := &edit{lo: rw.off(c.Pos()), hi: rw.off(c.End())}
				site := rw.site(c.Pos())
				name := se.Sel.Name
				xlo, xhi := rw.off(se.X.Pos()), rw.off(se.X.End())
				e.gen = func() string {
					return hookName + "." + name + "(" + site + ", &(" + rw.render(xlo, xhi, e) + "))"
				}
				rw.edits = append(rw.edits, e)
				rw.counts["lock"]++
				return
			}
		}
	}
	if rw.rules["rand"] {
		if n, ok := isPkgSel(c.Fun, rw.randNm); ok {
			if res, known := randResults[n]; known {
				e := &edit{lo: rw.off(c.Pos()), hi: rw.off(c.End())}
				site := rw.site(c.Pos())
				flo, fhi := rw.off(c.Fun.Pos()), rw.off(c.Fun.End())
				e.gen = func() string {
					orig := rw.render(flo, fhi, e) + rw.render(fhi, e.hi, e)
					if res == "" {
						return "func() { " + hookName + ".Yield(" + site + "); " + orig + " }()"
					}
					return "func() " + res + " { " + hookName + ".Yield(" + site + "); return " + orig + " }()"
				}
				rw.edits = append(rw.edits, e)
				rw.counts["rand"]++
				return
			}
		}
	}
}

func inlineArg(e ast.Expr) bool {
	switch v := e.(type) {
	case *ast.BasicLit:
		return true
	case *ast.Ident:
		return v.Name == "nil" || v.Name == "true" || v.Name == "false"
	case *ast.UnaryExpr:
		return inlineArg(v.X)
	case *ast.ParenExpr:
		return inlineArg(v.X)
	case *ast.BinaryExpr:
		return inlineArg(v.X) && inlineArg(v.Y)
	}
	return false
}

func (rw *rewriter) goStmt(g *ast.GoStmt) {
	c := g.Call
	e := &edit{lo: rw.off(g.Pos()), hi: rw.off(g.End())}
	site := rw.site(g.Pos())
	e.gen = func() string {
		lhs := []string{"verifF"}
		rhs := []string{rw.render(rw.off(c.Fun.Pos()), rw.off(c.Fun.End()), e)}
		var args []string
		for i, a := range c.Args {
			txt := rw.render(rw.off(a.Pos()), rw.off(a.End()), e)
			if inlineArg(a) {
				args = append(args, txt)
				continue
			}
			id := fmt.Sprintf("verifA%d", i)
			lhs = append(lhs, id)
			rhs = append(rhs, txt)
			args = append(args, id)
		}
		call := "verifF(" + strings.Join(args, ", ")
		if c.Ellipsis != token.NoPos {
			call += "..."
		}
		call += ")"
		return "{ " + strings.Join(lhs, ", ") + " := " + strings.Join(rhs, ", ") + "; " +
			hookName + ".Go(" + site + ", func() { " + call + " }) }"
	}
	rw.edits = append(rw.edits, e)
	rw.counts["go"]++
}

// simpleChanExpr: evaluating the expression twice is harmless.
func simpleChanExpr(e ast.Expr) bool {
	switch v := e.(type) {
	case *ast.Ident:
		return true
	case *ast.ParenExpr:
		return simpleChanExpr(v.X)
	case *ast.SelectorExpr:
		return simpleChanExpr(v.X)
	case *ast.CallExpr:
		if se, ok := v.Fun.(*ast.SelectorExpr); ok && se.Sel.Name == "Done" && len(v.Args) == 0 {
			return simpleChanExpr(se.X)
		}
	}
	return false
}

func (rw *rewriter) selectStmt(sel *ast.SelectStmt, labelled bool) {
	type cl struct {
		cc   *ast.CommClause
		ch   ast.Expr
		send bool
	}
	var cls []cl
	ok := !labelled
	for _, st := range sel.Body.List {
		cc := st.(*ast.CommClause)
		if cc.Comm == nil {
			continue // default
		}
		var c cl
		c.cc = cc
		switch v := cc.Comm.(type) {
		case *ast.SendStmt:
			c.ch, c.send = v.Chan, true
		case *ast.ExprStmt:
			if u, isU := v.X.(*ast.UnaryExpr); isU && u.Op == token.ARROW {
				c.ch = u.X
			}
		case *ast.AssignStmt:
			if len(v.Rhs) == 1 {
				if u, isU := v.Rhs[0].(*ast.UnaryExpr); isU && u.Op == token.ARROW {
					c.ch = u.X
				}
			}
		}
		if c.ch == nil || !simpleChanExpr(c.ch) {
			ok = false
		}
		cls = append(cls, c)
	}
	// labels declared in a body would be declared twice
	ast.Inspect(sel.Body, func(n ast.Node) bool {
		if _, isL := n.(*ast.LabeledStmt); isL {
			ok = false
		}
		return true
	})
	if !ok || len(cls) < 2 {
		rw.counts["select-left"]++
		return
	}
	e := &edit{lo: rw.off(sel.Pos()), hi: rw.off(sel.End())}
	site := rw.site(sel.Pos())
	e.gen = func() string {
		var b strings.Builder
		b.WriteString("switch " + hookName + ".SelectPick(" + site)
		for _, c := range cls {
			fn := ".R("
			if c.send {
				fn = ".S("
			}
			b.WriteString(", " + hookName + fn + rw.render(rw.off(c.ch.Pos()), rw.off(c.ch.End()), e) + ")")
		}
		b.WriteString(") {\n")
		// The chosen case is attempted without blocking; should it no longer be ready (SelectPick peeks,
		// it does not commit: a receiver that was waiting can have been woken by another case of its own
		// select in the meantime) the original statement runs, exactly as it would have without the seam.
		orig := rw.render(e.lo, e.hi, e)
		for i, c := range cls {
			fmt.Fprintf(&b, "case %d:\nselect {\n%s\ndefault:\n%s\n}\n", i, rw.render(rw.off(c.cc.Pos()), rw.off(c.cc.End()), e), orig)
		}
		b.WriteString("default:\n" + orig + "\n}")
		return b.String()
	}
	rw.edits = append(rw.edits, e)
	rw.counts["select"]++
}

// rangeStmt rewrites `for k, v := range M {` for the listed map expressions M into an iteration over
// verifhook.MapKeys(site, M) (sorted, tape-rotated) that skips keys deleted meanwhile, as a native
// map iteration does.
func (rw *rewriter) rangeStmt(rs *ast.RangeStmt) {
	if rs.Tok != token.DEFINE || rs.Key == nil {
		return
	}
	x := strings.Join(strings.Fields(string(rw.src[rw.off(rs.X.Pos()):rw.off(rs.X.End())])), "")
	if !rw.maps[x] {
		return
	}
	key := string(rw.src[rw.off(rs.Key.Pos()):rw.off(rs.Key.End())])
	val := ""
	if rs.Value != nil {
		val = string(rw.src[rw.off(rs.Value.Pos()):rw.off(rs.Value.End())])
	}
	e := &edit{lo: rw.off(rs.Pos()), hi: rw.off(rs.Body.Lbrace) + 1}
	site := rw.site(rs.Pos())
	if _, isCall := rs.X.(*ast.CallExpr); isCall {
		// the operand is evaluated once: iterate a snapshot of its entries
		e.gen = func() string {
			hdr := "for _, verifP := range " + hookName + ".MapPairs(" + site + ", " + x + ") { "
			if key != "_" {
				hdr += key + " := verifP.K; _ = " + key + "; "
			}
			if val != "" && val != "_" {
				hdr += val + " := verifP.V; _ = " + val + "; "
			}
			return hdr
		}
		rw.edits = append(rw.edits, e)
		rw.counts["maprange"]++
		return
	}
	e.gen = func() string {
		k := key
		if k == "_" {
			k = "verifK"
		}
		hdr := "for _, " + k + " := range " + hookName + ".MapKeys(" + site + ", " + x + ") { "
		if val == "" || val == "_" {
			return hdr + "if _, verifOK := " + x + "[" + k + "]; !verifOK { continue }; "
		}
		return hdr + val + ", verifOK := " + x + "[" + k + "]; if !verifOK { continue }; _ = " + val + "; "
	}
	rw.edits = append(rw.edits, e)
	rw.counts["maprange"]++
}

func (rw *rewriter) collect() {
	labelled := map[ast.Stmt]bool{}
	twoValue := map[*ast.TypeAssertExpr]bool{}
	inParams := map[*ast.Field]bool{}
	ast.Inspect(rw.file, func(n ast.Node) bool {
		switch v := n.(type) {
		case *ast.LabeledStmt:
			labelled[v.Stmt] = true
		case *ast.TypeAssertExpr:
			// rule tcpconn: X.(*net.TCPConn) -> verifhook.AsTCPConn(X) (two-value form only: the
			// result is an interface with the TCP-specific methods the code uses, which simulated
			// connections implement too)
			if rw.rules["tcpconn"] && rw.netName != "" && twoValue[v] {
				if st, ok := v.Type.(*ast.StarExpr); ok {
					if _, ok := isPkgSel(st.X, rw.netName, "TCPConn"); ok {
						e := &edit{lo: rw.off(v.Pos()), hi: rw.off(v.End())}
						x := v.X
						e.gen = func() string {
							return hookName + ".AsTCPConn(" + rw.render(rw.off(x.Pos()), rw.off(x.End()), e) + ")"
						}
						rw.edits = append(rw.edits, e)
						rw.counts["tcpconn"]++
					}
				}
			}
		case *ast.AssignStmt:
			if len(v.Lhs) == 2 && len(v.Rhs) == 1 {
				if ta, ok := v.Rhs[0].(*ast.TypeAssertExpr); ok {
					twoValue[ta] = true
				}
			}
		case *ast.Field:
			// rule tcpconn, second half: a parameter of type *net.TCPConn becomes verifhook.TCPLike, so
			// that the accept path can be driven with a simulated connection
			if rw.rules["tcpconn"] && rw.netName != "" && inParams[v] {
				if st, ok := v.Type.(*ast.StarExpr); ok {
					if _, ok := isPkgSel(st.X, rw.netName, "TCPConn"); ok {
						e := &edit{lo: rw.off(v.Type.Pos()), hi: rw.off(v.Type.End())}
						e.gen = func() string { return hookName + ".TCPLike" }
						rw.edits = append(rw.edits, e)
						rw.counts["tcpconn-param"]++
					}
				}
			}
		case *ast.FuncDecl:
			if v.Type != nil && v.Type.Params != nil {
				for _, f := range v.Type.Params.List {
					inParams[f] = true
				}
			}
			if v.Body != nil && rw.entries[v.Name.Name] {
				// rule entry=F+G: a scheduling point at the entry of the listed functions / methods
				e := &edit{lo: rw.off(v.Body.Lbrace) + 1, hi: rw.off(v.Body.Lbrace) + 1}
				site := rw.site(v.Pos())
				name := v.Name.Name
				e.gen = func() string { return " " + hookName + ".Yield(" + site[:len(site)-1] + ":" + name + "\");" }
				rw.edits = append(rw.edits, e)
				rw.counts["entry"]++
			}
		case *ast.RangeStmt:
			if len(rw.maps) > 0 {
				rw.rangeStmt(v)
			}
		case *ast.SelectStmt:
			if rw.rules["select"] {
				rw.selectStmt(v, labelled[v])
			}
		case *ast.CallExpr:
			rw.call(v)
		case *ast.GoStmt:
			if rw.rules["go"] {
				rw.goStmt(v)
			}
		}
		return true
	})
}

func countUses(f *ast.File, name string) int {
	n := 0
	ast.Inspect(f, func(nd ast.Node) bool {
		if se, ok := nd.(*ast.SelectorExpr); ok {
			if id, ok := se.X.(*ast.Ident); ok && id.Name == name && id.Obj == nil {
				n++
			}
		}
		return true
	})
	return n
}

func (rw *rewriter) output() string {
	body := rw.render(0, len(rw.src), nil)
	// insert the hook import after the last import declaration
	lastImportEnd := -1
	for _, d := range rw.file.Decls {
		if gd, ok := d.(*ast.GenDecl); ok && gd.Tok == token.IMPORT {
			lastImportEnd = rw.off(gd.End())
		}
	}
	imp := "\nimport " + hookName + " " + strconv.Quote(hookPath) + "\n"
	if lastImportEnd < 0 {
		// after the package clause
		pe := rw.off(rw.file.Name.End())
		lastImportEnd = pe
	}
	// offsets in body differ from offsets in src once edits were applied; the
	// import block precedes every edit (edits are inside declarations that
	// follow the imports), so the prefix is unchanged.
	for _, e := range rw.edits {
		if e.lo < lastImportEnd {
			panic("seamgen: edit before the end of the import block in " + rw.base)
		}
	}
	out := body[:lastImportEnd] + imp + body[lastImportEnd:]
	// keep imports alive that lost their last use
	keep := map[string]string{rw.netName: "Dial", rw.httpNm: "Post", rw.randNm: "Int"}
	for name, n := range rw.removed {
		if name == "" || n == 0 {
			continue
		}
		if countUses(rw.file, name) == n {
			out += "\nvar _ = " + name + "." + keep[name] + "\n"
		}
	}
	return out
}

func main() {
	var pkgs pkgFlag
	repo := flag.String("repo", "/repo", "repository root")
	out := flag.String("out", "", "directory for generated files")
	harness := flag.String("harness", "", "harness root: <harness>/<rel pkg>/<file> is overlaid onto <repo>/<rel pkg>/<file>")
	overlayPath := flag.String("overlay", "", "overlay json to write")
	flag.Var(&pkgs, "pkg", "relpath:rule,rule (rules: net lock go rand select); repeatable")
	flag.Parse()
	if *out == "" || *overlayPath == "" {
		fmt.Fprintln(os.Stderr, "seamgen: -out and -overlay required")
		os.Exit(2)
	}
	overlay := map[string]string{}
	report := map[string]map[string]int{}
	for _, spec := range pkgs {
		parts := strings.SplitN(spec, ":", 2)
		rel := parts[0]
		rules := map[string]bool{}
		maps := map[string]bool{}
		entries := map[string]bool{}
		wraps := map[string]bool{}
		if len(parts) == 2 {
			for _, r := range strings.Split(parts[1], ",") {
				if strings.HasPrefix(r, "entry=") {
					for _, m := range strings.Split(strings.TrimPrefix(r, "entry="), "+") {
						entries[m] = true
					}
					continue
				}
				if strings.HasPrefix(r, "wrap=") {
					for _, m := range strings.Split(strings.TrimPrefix(r, "wrap="), "+") {
						wraps[m] = true
					}
					continue
				}
				if strings.HasPrefix(r, "maprange=") {
					for _, m := range strings.Split(strings.TrimPrefix(r, "maprange="), "+") {
						maps[m] = true
					}
					continue
				}
				rules[r] = true
			}
		}
		dir := filepath.Join(*repo, rel)
		ents, err := os.ReadDir(dir)
		if err != nil {
			fmt.Fprintf(os.Stderr, "seamgen: %v\n", err)
			os.Exit(2)
		}
		for _, e := range ents {
			name := e.Name()
			if e.IsDir() || !strings.HasSuffix(name, ".go") || strings.HasSuffix(name, "_test.go") {
				continue
			}
			srcPath := filepath.Join(dir, name)
			src, err := os.ReadFile(srcPath)
			if err != nil {
				fmt.Fprintf(os.Stderr, "seamgen: %v\n", err)
				os.Exit(2)
			}
			fset := token.NewFileSet()
			f, err := parser.ParseFile(fset, srcPath, src, parser.ParseComments)
			if err != nil {
				fmt.Fprintf(os.Stderr, "seamgen: parse %s: %v\n", srcPath, err)
				os.Exit(2)
			}
			rw := &rewriter{fset: fset, file: f, src: src, base: name, rules: rules, maps: maps, entries: entries, wraps: wraps, counts: map[string]int{}, removed: map[string]int{},
				netName: importName(f, "net"), httpNm: importName(f, "net/http"), randNm: importName(f, "math/rand")}
			rw.collect()
			if len(rw.edits) == 0 {
				continue
			}
			text := rw.output()
			// the result must parse
			if _, err := parser.ParseFile(token.NewFileSet(), srcPath, text, 0); err != nil {
				fmt.Fprintf(os.Stderr, "seamgen: rewritten %s does not parse: %v\n", srcPath, err)
				os.Exit(2)
			}
			dst := filepath.Join(*out, rel, name)
			os.MkdirAll(filepath.Dir(dst), 0o755)
			if err := os.WriteFile(dst, []byte(text), 0o644); err != nil {
				fmt.Fprintf(os.Stderr, "seamgen: %v\n", err)
				os.Exit(2)
			}
			overlay[srcPath] = dst
			report[filepath.Join(rel, name)] = rw.counts
		}
	}
	if *harness != "" {
		filepath.Walk(*harness, func(p string, info os.FileInfo, err error) error {
			if err != nil || info.IsDir() || !strings.HasSuffix(p, ".go") {
				return nil
			}
			rel, _ := filepath.Rel(*harness, p)
			overlay[filepath.Join(*repo, rel)] = p
			return nil
		})
	}
	b, _ := json.MarshalIndent(map[string]any{"Replace": overlay}, "", " ")
	if err := os.WriteFile(*overlayPath, b, 0o644); err != nil {
		fmt.Fprintf(os.Stderr, "seamgen: %v\n", err)
		os.Exit(2)
	}
	keys := make([]string, 0, len(report))
	for k := range report {
		keys = append(keys, k)
	}
	sort.Strings(keys)
	for _, k := range keys {
		fmt.Printf("seamgen: %s %v\n", k, report[k])
	}
}
