// seamgen rewrites the current source files of selected conjure packages so
// that their network calls, lock operations, go statements and math/rand calls
// go through the simulator's hook package, and writes a `go build -overlay`
// file that maps the rewritten copies (and the harness files of /verif/harness)
// over the originals. /repo itself is never modified.
//
// Rules (purely syntactic, applied to every occurrence in non-test files):
//
//	net   net.Dial / net.DialTimeout / net.ResolveIPAddr / http.Post -> verifhook.<same>
//	lock  X.Lock() / X.Unlock() / X.RLock() / X.RUnlock()            -> verifhook.Lock(site, &X) ...
//	go    go f(a, b)                                                 -> { vf, va, vb := f, a, b; verifhook.Go(site, func(){ vf(va, vb) }) }
//	rand  math/rand top-level calls                                  -> func() T { verifhook.Yield(site); return rand.F(args) }()
package main

import (
	"bytes"
	"encoding/json"
	"flag"
	"fmt"
	"go/ast"
	"go/parser"
	"go/printer"
	"go/token"
	"os"
	"path/filepath"
	"sort"
	"strconv"
	"strings"
)

type pkgFlag []string

func (p *pkgFlag) String() string     { return strings.Join(*p, ",") }
func (p *pkgFlag) Set(s string) error { *p = append(*p, s); return nil }

const hookPath = "verif/sim/hook"
const hookName = "verifhook"

var randResults = map[string]string{
	"Seed": "", "Shuffle": "", "Int": "int", "Intn": "int", "Int31": "int32", "Int31n": "int32",
	"Int63": "int64", "Int63n": "int64", "Uint32": "uint32", "Uint64": "uint64", "Float32": "float32",
	"Float64": "float64", "Perm": "[]int", "ExpFloat64": "float64", "NormFloat64": "float64", "Read": "(int, error)",
}

type rewriter struct {
	fset    *token.FileSet
	file    *ast.File
	base    string
	rules   map[string]bool
	netName string // local name of "net"
	httpNm  string
	randNm  string
	changed bool
	counts  map[string]int
	skip    map[*ast.CallExpr]bool
}

func importName(f *ast.File, path string) string {
	for _, im := range f.Imports {
		p, _ := strconv.Unquote(im.Path.Value)
		if p == path {
			if im.Name != nil {
				if im.Name.Name == "_" || im.Name.Name == "." {
					return ""
				}
				return im.Name.Name
			}
			return filepath.Base(path)
		}
	}
	return ""
}

func (rw *rewriter) site(pos token.Pos) *ast.BasicLit {
	p := rw.fset.Position(pos)
	return &ast.BasicLit{Kind: token.STRING, Value: strconv.Quote(fmt.Sprintf("%s:%d", rw.base, p.Line))}
}

func hookSel(name string) *ast.SelectorExpr {
	return &ast.SelectorExpr{X: ast.NewIdent(hookName), Sel: ast.NewIdent(name)}
}

func isPkgSel(e ast.Expr, pkg string, names ...string) (string, bool) {
	if pkg == "" {
		return "", false
	}
	se, ok := e.(*ast.SelectorExpr)
	if !ok {
		return "", false
	}
	id, ok := se.X.(*ast.Ident)
	if !ok || id.Name != pkg || id.Obj != nil {
		return "", false
	}
	if len(names) == 0 {
		return se.Sel.Name, true
	}
	for _, n := range names {
		if se.Sel.Name == n {
			return n, true
		}
	}
	return "", false
}

func (rw *rewriter) call(c *ast.CallExpr) {
	if rw.skip[c] {
		return
	}
	if rw.rules["net"] {
		if n, ok := isPkgSel(c.Fun, rw.netName, "Dial", "DialTimeout", "ResolveIPAddr"); ok {
			c.Fun = hookSel(n)
			rw.changed = true
			rw.counts["net"]++
			return
		}
		if _, ok := isPkgSel(c.Fun, rw.httpNm, "Post"); ok {
			c.Fun = hookSel("HTTPPost")
			rw.changed = true
			rw.counts["net"]++
			return
		}
	}
	if rw.rules["lock"] {
		if se, ok := c.Fun.(*ast.SelectorExpr); ok && len(c.Args) == 0 {
			switch se.Sel.Name {
			case "Lock", "Unlock", "RLock", "RUnlock":
				// skip package-qualified calls (pkg.Lock())
				if id, ok := se.X.(*ast.Ident); ok && id.Obj == nil && importedAs(rw.file, id.Name) {
					break
				}
				site := rw.site(c.Pos())
				c.Args = []ast.Expr{site, &ast.UnaryExpr{Op: token.AND, X: &ast.ParenExpr{X: se.X}}}
				c.Fun = hookSel(se.Sel.Name)
				rw.changed = true
				rw.counts["lock"]++
				return
			}
		}
	}
	if rw.rules["rand"] {
		if n, ok := isPkgSel(c.Fun, rw.randNm); ok {
			if res, known := randResults[n]; known {
				inner := &ast.CallExpr{Fun: c.Fun, Args: c.Args, Ellipsis: c.Ellipsis}
				rw.skip[inner] = true
				yield := &ast.ExprStmt{X: &ast.CallExpr{Fun: hookSel("Yield"), Args: []ast.Expr{rw.site(c.Pos())}}}
				var body []ast.Stmt
				ft := &ast.FuncType{Params: &ast.FieldList{}}
				if res == "" {
					body = []ast.Stmt{yield, &ast.ExprStmt{X: inner}}
				} else {
					rt, err := parser.ParseExpr("func() " + res + "{}")
					if err != nil {
						panic(err)
					}
					ft = rt.(*ast.FuncLit).Type
					body = []ast.Stmt{yield, &ast.ReturnStmt{Results: []ast.Expr{inner}}}
				}
				c.Fun = &ast.FuncLit{Type: ft, Body: &ast.BlockStmt{List: body}}
				c.Args = nil
				c.Ellipsis = token.NoPos
				rw.changed = true
				rw.counts["rand"]++
				return
			}
		}
	}
}

func importedAs(f *ast.File, name string) bool {
	for _, im := range f.Imports {
		p, _ := strconv.Unquote(im.Path.Value)
		n := filepath.Base(p)
		if im.Name != nil {
			n = im.Name.Name
		}
		if n == name {
			return true
		}
	}
	return false
}

func inlineArg(e ast.Expr) bool {
	switch v := e.(type) {
	case *ast.BasicLit:
		return true
	case *ast.Ident:
		return v.Name == "nil" || v.Name == "true" || v.Name == "false"
	case *ast.UnaryExpr:
		return inlineArg(v.X)
	case *ast.ParenExpr:
		return inlineArg(v.X)
	case *ast.BinaryExpr:
		return inlineArg(v.X) && inlineArg(v.Y)
	}
	return false
}

func (rw *rewriter) goStmt(g *ast.GoStmt) ast.Stmt {
	c := g.Call
	var lhs, rhs []ast.Expr
	fn := ast.NewIdent("verifF")
	lhs = append(lhs, fn)
	rhs = append(rhs, c.Fun)
	var args []ast.Expr
	for i, a := range c.Args {
		if inlineArg(a) {
			args = append(args, a)
			continue
		}
		id := ast.NewIdent(fmt.Sprintf("verifA%d", i))
		lhs = append(lhs, id)
		rhs = append(rhs, a)
		args = append(args, id)
	}
	inner := &ast.CallExpr{Fun: fn, Args: args, Ellipsis: c.Ellipsis}
	if c.Ellipsis != token.NoPos {
		inner.Ellipsis = 1
	}
	lit := &ast.FuncLit{Type: &ast.FuncType{Params: &ast.FieldList{}}, Body: &ast.BlockStmt{List: []ast.Stmt{&ast.ExprStmt{X: inner}}}}
	call := &ast.ExprStmt{X: &ast.CallExpr{Fun: hookSel("Go"), Args: []ast.Expr{rw.site(g.Pos()), lit}}}
	rw.changed = true
	rw.counts["go"]++
	return &ast.BlockStmt{List: []ast.Stmt{&ast.AssignStmt{Lhs: lhs, Tok: token.DEFINE, Rhs: rhs}, call}}
}

func (rw *rewriter) stmts(list []ast.Stmt) {
	for i, s := range list {
		if g, ok := s.(*ast.GoStmt); ok && rw.rules["go"] {
			list[i] = rw.goStmt(g)
		}
		if l, ok := s.(*ast.LabeledStmt); ok {
			if g, ok := l.Stmt.(*ast.GoStmt); ok && rw.rules["go"] {
				l.Stmt = rw.goStmt(g)
			}
		}
	}
}

func (rw *rewriter) run() {
	ast.Inspect(rw.file, func(n ast.Node) bool {
		switch v := n.(type) {
		case *ast.CallExpr:
			rw.call(v)
		}
		return true
	})
	// go statements: second pass so that calls inside them were already rewritten
	ast.Inspect(rw.file, func(n ast.Node) bool {
		switch v := n.(type) {
		case *ast.BlockStmt:
			rw.stmts(v.List)
		case *ast.CaseClause:
			rw.stmts(v.Body)
		case *ast.CommClause:
			rw.stmts(v.Body)
		}
		return true
	})
}

// usesImport reports whether the file still refers to the package name.
func usesImport(f *ast.File, name string) bool {
	used := false
	ast.Inspect(f, func(n ast.Node) bool {
		if se, ok := n.(*ast.SelectorExpr); ok {
			if id, ok := se.X.(*ast.Ident); ok && id.Name == name && id.Obj == nil {
				used = true
			}
		}
		return !used
	})
	return used
}

func fixImports(f *ast.File) {
	// blank imports that became unused
	for _, im := range f.Imports {
		p, _ := strconv.Unquote(im.Path.Value)
		n := filepath.Base(p)
		if im.Name != nil {
			n = im.Name.Name
		}
		if n == "_" || n == "." {
			continue
		}
		if (p == "net" || p == "net/http" || p == "math/rand") && !usesImport(f, n) {
			im.Name = ast.NewIdent("_")
		}
	}
	// add the hook import
	spec := &ast.ImportSpec{Name: ast.NewIdent(hookName), Path: &ast.BasicLit{Kind: token.STRING, Value: strconv.Quote(hookPath)}}
	decl := &ast.GenDecl{Tok: token.IMPORT, Specs: []ast.Spec{spec}}
	f.Decls = append([]ast.Decl{decl}, f.Decls...)
	f.Imports = append(f.Imports, spec)
}

func main() {
	var pkgs pkgFlag
	repo := flag.String("repo", "/repo", "repository root")
	out := flag.String("out", "", "directory for generated files")
	harness := flag.String("harness", "", "harness root: <harness>/<rel pkg>/<file> is overlaid onto <repo>/<rel pkg>/<file>")
	overlayPath := flag.String("overlay", "", "overlay json to write")
	flag.Var(&pkgs, "pkg", "relpath:rule,rule (rules: net lock go rand); repeatable")
	flag.Parse()
	if *out == "" || *overlayPath == "" {
		fmt.Fprintln(os.Stderr, "seamgen: -out and -overlay required")
		os.Exit(2)
	}
	overlay := map[string]string{}
	report := map[string]map[string]int{}
	for _, spec := range pkgs {
		parts := strings.SplitN(spec, ":", 2)
		rel := parts[0]
		rules := map[string]bool{}
		if len(parts) == 2 {
			for _, r := range strings.Split(parts[1], ",") {
				rules[r] = true
			}
		}
		dir := filepath.Join(*repo, rel)
		ents, err := os.ReadDir(dir)
		if err != nil {
			fmt.Fprintf(os.Stderr, "seamgen: %v\n", err)
			os.Exit(2)
		}
		for _, e := range ents {
			name := e.Name()
			if e.IsDir() || !strings.HasSuffix(name, ".go") || strings.HasSuffix(name, "_test.go") {
				continue
			}
			src := filepath.Join(dir, name)
			fset := token.NewFileSet()
			f, err := parser.ParseFile(fset, src, nil, parser.ParseComments)
			if err != nil {
				fmt.Fprintf(os.Stderr, "seamgen: parse %s: %v\n", src, err)
				os.Exit(2)
			}
			rw := &rewriter{fset: fset, file: f, base: name, rules: rules, counts: map[string]int{}, skip: map[*ast.CallExpr]bool{},
				netName: importName(f, "net"), httpNm: importName(f, "net/http"), randNm: importName(f, "math/rand")}
			rw.run()
			if !rw.changed {
				continue
			}
			fixImports(f)
			var buf bytes.Buffer
			if err := printer.Fprint(&buf, fset, f); err != nil {
				fmt.Fprintf(os.Stderr, "seamgen: print %s: %v\n", src, err)
				os.Exit(2)
			}
			dst := filepath.Join(*out, rel, name)
			os.MkdirAll(filepath.Dir(dst), 0o755)
			if err := os.WriteFile(dst, buf.Bytes(), 0o644); err != nil {
				fmt.Fprintf(os.Stderr, "seamgen: %v\n", err)
				os.Exit(2)
			}
			overlay[src] = dst
			report[filepath.Join(rel, name)] = rw.counts
		}
	}
	if *harness != "" {
		filepath.Walk(*harness, func(p string, info os.FileInfo, err error) error {
			if err != nil || info.IsDir() || !strings.HasSuffix(p, ".go") {
				return nil
			}
			rel, _ := filepath.Rel(*harness, p)
			overlay[filepath.Join(*repo, rel)] = p
			return nil
		})
	}
	b, _ := json.MarshalIndent(map[string]any{"Replace": overlay}, "", " ")
	if err := os.WriteFile(*overlayPath, b, 0o644); err != nil {
		fmt.Fprintf(os.Stderr, "seamgen: %v\n", err)
		os.Exit(2)
	}
	keys := make([]string, 0, len(report))
	for k := range report {
		keys = append(keys, k)
	}
	sort.Strings(keys)
	for _, k := range keys {
		fmt.Printf("seamgen: %s %v\n", k, report[k])
	}
}
