// ptracefi — syscall-level crash / fault injector for property C20
// ("the client's stored ClientConf is replaced atomically").
//
// The tracer runs a child (the test binary of pkg/client/assets built from the
// current tree plus the overlaid harness file zz_verif_c20_test.go) under
// ptrace. The child performs a seeded, strictly sequential series of stores
// through the library's public setters. Every file-system syscall of the child
// that refers to the asset directory is a numbered "stop point". For one case
// the tracer, at one stop point, kills the child (before or after the
// syscall), tears a write and kills, makes the syscall fail with an errno, or
// makes a write return short; then it inspects the directory, restarts the
// library on it in a second child, and compares with the byte-exact
// configurations of a fault-free reference run of the same sequence.
//
// usage: ptracefi -child <test binary> -tier quick|thorough -seed <uint64> -budget <seconds> -workers <n>
//
//	-scratch <dir> -known <known_findings.txt> -out <result.json> [-replay <replay.json>] [-seqs <n>]
//
// A case is (sequence seed, stop index, action, parameter); it is written as a
// five-draw tape (seq_seed_hi, seq_seed_lo, stop, action, param) so that the
// orchestrator's replay files work unchanged. Actions: 0 kill at syscall entry,
// 1 kill at syscall exit, 2 torn write + kill (param: 0,1,len/2,len-1),
// 3 errno (param: ENOSPC EACCES ENOENT EIO EDQUOT EROFS), 4 short write, child
// continues (param as for 2). The quick tier enumerates every case of a fixed
// set of six sequences plus one sequence derived from -seed; the thorough tier
// adds seeded sequences until the budget ends. Exit status 0 = result file
// written (violations, known findings and harness errors are in it), 2 = trouble.
//
// Linux x86-64 only. Standard library only.
package main

import (
	"bufio"
	"bytes"
	"crypto/sha256"
	"encoding/binary"
	"encoding/hex"
	"encoding/json"
	"errors"
	"flag"
	"fmt"
	"os"
	"os/exec"
	"path/filepath"
	"regexp"
	"runtime"
	"sort"
	"strings"
	"sync"
	"sync/atomic"
	"syscall"
	"time"
)

const prop = "C20"

// ---------------------------------------------------------------------------
// result file (field names of sim.Result)

type Draw struct {
	L string `json:"l"`
	N int    `json:"n"`
	V int    `json:"v"`
}

type ViolationReport struct {
	Sig        string   `json:"sig"`
	Msg        string   `json:"msg"`
	RunSeed    uint64   `json:"run_seed"`
	RunIndex   int      `json:"run_index"`
	Enum       bool     `json:"enum"`
	Tape       []Draw   `json:"tape"`
	Trace      []string `json:"trace"`
	LogHash    string   `json:"log_hash"`
	OrigDraws  int      `json:"orig_draws"`
	MinDraws   int      `json:"min_draws"`
	Candidates int      `json:"minimise_candidates"`
	Confirmed  bool     `json:"replay_confirmed"`
}

type Sample struct {
	RunSeed uint64   `json:"run_seed"`
	Enum    bool     `json:"enum"`
	Draws   int      `json:"draws"`
	Trace   []string `json:"trace"`
}

type ReplayResult struct {
	WantSig    string `json:"want_sig"`
	GotSig     string `json:"got_sig"`
	WantHash   string `json:"want_log_hash"`
	GotHash    string `json:"got_log_hash"`
	Reproduced bool   `json:"reproduced"`
	Msg        string `json:"msg"`
}

type ReplayFile struct {
	Prop    string   `json:"property"`
	Sig     string   `json:"signature"`
	Msg     string   `json:"message"`
	RunSeed uint64   `json:"run_seed"`
	Tape    []Draw   `json:"tape"`
	LogHash string   `json:"log_hash"`
	Trace   []string `json:"trace"`
}

type Result struct {
	Prop         string            `json:"property"`
	Tier         string            `json:"tier"`
	BaseSeed     uint64            `json:"base_seed"`
	Shard        int               `json:"shard"`
	NShards      int               `json:"nshards"`
	Runs         int               `json:"runs"`
	EnumRuns     int               `json:"enum_runs"`
	EnumTotal    int               `json:"enum_total"`
	EnumComplete bool              `json:"enum_complete"`
	RandomRuns   int               `json:"random_runs"`
	Nontrivial   int               `json:"nontrivial_runs"`
	DistinctFile string            `json:"distinct_file"`
	Distinct     int               `json:"distinct_in_shard"`
	Faults       map[string]int    `json:"faults"`
	Probes       map[string]int    `json:"probes"`
	SimTimeS     float64           `json:"sim_time_s"`
	WallS        float64           `json:"wall_s"`
	Steps        int64             `json:"steps"`
	Known        map[string]int    `json:"known"`
	Violations   []ViolationReport `json:"violations"`
	Samples      []Sample          `json:"samples"`
	Errors       []string          `json:"harness_errors"`
	Real         []string          `json:"real"`
	Stub         []string          `json:"stub"`
	Rule         string            `json:"rule"`
	Assume       []string          `json:"assumptions"`
	FirstSeed    uint64            `json:"first_run_seed"`
	LastSeed     uint64            `json:"last_run_seed"`
	Replay       *ReplayResult     `json:"replay,omitempty"`
	Budgeted     bool              `json:"stopped_by_budget"`
	MoreSigs     []string          `json:"further_violation_sigs"`
	Sequences    int               `json:"sequences"`
	RefStops     int               `json:"reference_stop_points"`
	ChildRuns    int64             `json:"child_processes"`
}

// ---------------------------------------------------------------------------
// seeds

func splitmix(x *uint64) uint64 {
	*x += 0x9e3779b97f4a7c15
	z := *x
	z = (z ^ (z >> 30)) * 0xbf58476d1ce4e5b9
	z = (z ^ (z >> 27)) * 0x94d049bb133111eb
	return z ^ (z >> 31)
}

// mix is sim.Mix.
func mix(base uint64, tag string, idx uint64) uint64 {
	x := base
	for i := 0; i < len(tag); i++ {
		x = (x ^ uint64(tag[i])) * 1099511628211
	}
	x ^= idx * 0x9e3779b97f4a7c15
	splitmix(&x)
	return splitmix(&x)
}

const seedMask = (uint64(1) << 60) - 1

// encSeq builds a sequence seed with an explicit shape (see the layout in the
// harness file): present mask, initial directory kind, four 3-bit op codes,
// parameter seed.
func encSeq(init int, ops []int, pseed uint64) uint64 {
	s := uint64(init&3) << 4
	for p, op := range ops {
		s |= 1 << uint(p)
		s |= uint64(op&7) << uint(6+3*p)
	}
	s |= (pseed & ((1 << 42) - 1)) << 18
	return s
}

const (
	opSCCSmall = iota
	opSCCBig
	opDecoys
	opPubkey
	opGeneration
	opPhantoms
)

const (
	initNone = iota
	initDefault
	initSmall
	initBig
)

// the fixed sequence set of the quick tier
func fixedSeqs() []uint64 {
	return []uint64{
		encSeq(initDefault, []int{opSCCSmall, opDecoys, opPubkey, opGeneration}, 1),
		encSeq(initNone, []int{opSCCSmall, opPhantoms}, 2),
		encSeq(initSmall, []int{opSCCBig, opGeneration}, 3),
		encSeq(initBig, []int{opSCCSmall, opSCCBig, opDecoys}, 4),
		encSeq(initDefault, []int{opGeneration, opSCCSmall, opPhantoms, opSCCSmall}, 5),
		encSeq(initNone, []int{opDecoys}, 6),
	}
}

// ---------------------------------------------------------------------------
// syscall table (x86-64)

type sysDesc struct {
	name   string
	fd     int // index of the fd operand, -1 none
	p1, d1 int // index of the path operand and of its dirfd (-1: relative to cwd)
	p2, d2 int
	mod    bool // a step the store's success depends on (write side)
	wlen   bool // write-like, byte count in argument 2
	flags  int  // index of open flags, -1 none
	ret    bool // executes even when an error is injected (close): only the return value is replaced
}

func fdOp(name string, mod bool) sysDesc {
	return sysDesc{name: name, fd: 0, p1: -1, d1: -1, p2: -1, d2: -1, mod: mod, flags: -1}
}
func pathOp(name string, p, d int, mod bool) sysDesc {
	return sysDesc{name: name, fd: -1, p1: p, d1: d, p2: -1, d2: -1, mod: mod, flags: -1}
}
func path2Op(name string, p1, d1, p2, d2 int) sysDesc {
	return sysDesc{name: name, fd: -1, p1: p1, d1: d1, p2: p2, d2: d2, mod: true, flags: -1}
}

var sysTable = func() map[int]sysDesc {
	m := map[int]sysDesc{
		0:   fdOp("read", false),
		1:   fdOp("write", true),
		3:   fdOp("close", false), // mod iff the fd was opened for writing
		4:   pathOp("stat", 0, -1, false),
		5:   fdOp("fstat", false),
		6:   pathOp("lstat", 0, -1, false),
		8:   fdOp("lseek", false),
		17:  fdOp("pread64", false),
		18:  fdOp("pwrite64", true),
		19:  fdOp("readv", false),
		20:  fdOp("writev", true),
		21:  pathOp("access", 0, -1, false),
		40:  fdOp("sendfile", true),
		74:  fdOp("fsync", true),
		75:  fdOp("fdatasync", true),
		76:  pathOp("truncate", 0, -1, true),
		77:  fdOp("ftruncate", true),
		78:  fdOp("getdents", false),
		82:  path2Op("rename", 0, -1, 1, -1),
		83:  pathOp("mkdir", 0, -1, true),
		84:  pathOp("rmdir", 0, -1, false),
		85:  pathOp("creat", 0, -1, true),
		86:  path2Op("link", 0, -1, 1, -1),
		87:  pathOp("unlink", 0, -1, false),
		88:  pathOp("symlink", 1, -1, true),
		89:  pathOp("readlink", 0, -1, false),
		90:  pathOp("chmod", 0, -1, false),
		91:  fdOp("fchmod", false),
		92:  pathOp("chown", 0, -1, false),
		93:  fdOp("fchown", false),
		94:  pathOp("lchown", 0, -1, false),
		217: fdOp("getdents64", false),
		258: pathOp("mkdirat", 1, 0, true),
		260: pathOp("fchownat", 1, 0, false),
		262: pathOp("newfstatat", 1, 0, false),
		263: pathOp("unlinkat", 1, 0, false),
		264: path2Op("renameat", 1, 0, 3, 2),
		265: path2Op("linkat", 1, 0, 3, 2),
		266: pathOp("symlinkat", 2, 1, true),
		267: pathOp("readlinkat", 1, 0, false),
		268: pathOp("fchmodat", 1, 0, false),
		269: pathOp("faccessat", 1, 0, false),
		277: fdOp("sync_file_range", true),
		280: pathOp("utimensat", 1, 0, false),
		285: fdOp("fallocate", true),
		295: fdOp("preadv", false),
		296: fdOp("pwritev", true),
		306: fdOp("syncfs", true),
		316: path2Op("renameat2", 1, 0, 3, 2),
		327: fdOp("preadv2", false),
		328: fdOp("pwritev2", true),
		332: pathOp("statx", 1, 0, false),
		439: pathOp("faccessat2", 1, 0, false),
		452: pathOp("fchmodat2", 1, 0, false),
	}
	o := pathOp("open", 0, -1, false)
	o.flags = 1
	m[2] = o
	o = pathOp("openat", 1, 0, false)
	o.flags = 2
	m[257] = o
	o = pathOp("openat2", 1, 0, false)
	o.flags = -2 // in struct open_how
	m[437] = o
	w := m[1]
	w.wlen = true
	m[1] = w
	w = m[18]
	w.wlen = true
	m[18] = w
	c := m[3]
	c.ret = true
	m[3] = c
	return m
}()

const (
	sysDup    = 32
	sysDup2   = 33
	sysFcntl  = 72
	sysDup3   = 292
	sysMmap   = 9
	sysSync   = 162
	sysUring  = 426
	atFdCwd   = -100
	oWrFlags  = syscall.O_WRONLY | syscall.O_RDWR | syscall.O_CREAT | syscall.O_TRUNC | syscall.O_APPEND
	enosys    = -38
	wAll      = 0x40000000
	wNoThread = 0x20000000
	oExitKill = 0x100000
)

var errnos = []struct {
	name string
	no   syscall.Errno
}{
	{"ENOSPC", syscall.ENOSPC}, {"EACCES", syscall.EACCES}, {"ENOENT", syscall.ENOENT},
	{"EIO", syscall.EIO}, {"EDQUOT", syscall.EDQUOT}, {"EROFS", syscall.EROFS},
}

const (
	actKillEntry = iota
	actKillExit
	actTornKill
	actError
	actShort
	nActions
)

var actNames = []string{"kill", "kill", "torn-write", "error", "short-write"}
var actLong = []string{"kill-at-entry", "kill-at-exit", "torn-write+kill", "error", "short-write-continue"}

func tornLen(param int, n int) int {
	switch param {
	case 0:
		return 0
	case 1:
		return 1
	case 2:
		return n / 2
	default:
		return n - 1
	}
}

// ---------------------------------------------------------------------------
// snapshots of the file ClientConf

type snap struct {
	ok   bool
	data []byte
	sum  string
}

// ageConf makes the stored configuration look two days old (the usual state on a real client:
// the file was written long before the next store). Code that treats old files in the asset
// directory differently from fresh ones only shows with this.
func ageConf(path string) {
	old := time.Now().Add(-48 * time.Hour)
	os.Chtimes(path, old, old)
}

func readSnap(path string) snap {
	b, err := os.ReadFile(path)
	if err != nil {
		return snap{}
	}
	return snap{ok: true, data: b}
}

func (s *snap) hash() string {
	if !s.ok {
		return "absent"
	}
	if s.sum == "" {
		h := sha256.Sum256(s.data)
		s.sum = hex.EncodeToString(h[:])
	}
	return s.sum
}

func (s snap) eq(o snap) bool {
	if s.ok != o.ok {
		return false
	}
	return !s.ok || bytes.Equal(s.data, o.data)
}

func (s *snap) desc() string {
	if !s.ok {
		return "absent"
	}
	return fmt.Sprintf("len=%d sha256=%s", len(s.data), s.hash()[:12])
}

// ---------------------------------------------------------------------------
// one traced run

type stopPoint struct {
	Idx   int
	Sys   string
	File  string
	Store int // index of the store in progress, -1 outside any store
	After int // number of stores completed before this point
	Ord   int // ordinal among the stop points of the same store
	Len   int // write-like: byte count asked for
	WLen  bool
	Mod   bool
	Ret   int64
	Post  string // reference run only: hash of ClientConf after the syscall
}

func (s stopPoint) key() string {
	return fmt.Sprintf("%s|%s|%d|%d|%d|%v", s.Sys, s.File, s.Store, s.After, s.Len, s.Mod)
}

type childLine struct {
	Ev     string `json:"ev"`
	I      int    `json:"i"`
	Pos    int    `json:"pos"`
	Op     string `json:"op"`
	Err    string `json:"err"`
	Failed bool   `json:"failed"`
	Mem    string `json:"mem"`
	MemLen int    `json:"mem_len"`
	Raw    string `json:"raw"`
	RawLen int    `json:"raw_len"`
	Gen    uint32 `json:"gen"`
	Decoys int    `json:"decoys"`
	Init   int    `json:"init"`
	Seed   uint64 `json:"seed"`
	Shape  string `json:"shape"`
}

type injection struct {
	stop   int // -1: none
	action int
	param  int
	expect string // key of the reference stop point, "" = do not check
}

type runOut struct {
	stops    []stopPoint
	marks    int
	snaps    []snap // ClientConf at the end marker of each store
	// post: ClientConf right after every relevant system call of a store that ran after an
	// injected error / short write (what a crash at that instant would leave behind)
	post map[int]snap
	report   []childLine
	exited   bool
	exitCode int
	signaled bool
	signal   syscall.Signal
	killed   bool
	injected bool
	injNote  string
	timedOut bool
	herr     string
	stderr   string
	nsys     int
}

type worker struct {
	id     int
	root   string // scratch/w<id>
	dir    string // the asset directory
	report string
	errlog string
	child  string
	runs   *atomic.Int64
}

type fdInfo struct {
	name   string
	wr     bool
	report bool
}

type tstate struct {
	inSys bool
	cur   *pending
}

type pending struct {
	idx       int // stop index, -1 for bookkeeping-only syscalls
	nr        int
	desc      sysDesc
	fd        int
	openName  string
	openWr    bool
	openRep   bool
	setRet    int64
	hasSetRet bool
	skipped   bool
	killExit  bool
	dupOf     *fdInfo
}

var tmpRe = regexp.MustCompile(`\.?ClientConf\.?[0-9A-Za-z_-]{3,16}(\.tmp)?`)

func normName(n string) string {
	if n == "ClientConf" {
		return n
	}
	return tmpRe.ReplaceAllStringFunc(n, func(m string) string {
		if m == "ClientConf" {
			return m
		}
		pre := ""
		if strings.HasPrefix(m, ".") {
			pre = "."
		}
		suf := ""
		if strings.HasSuffix(m, ".tmp") {
			suf = ".tmp"
		}
		return pre + "ClientConf.XXXXX" + suf
	})
}

func (w *worker) normText(s string) string {
	s = strings.ReplaceAll(s, w.dir, "<dir>")
	s = strings.ReplaceAll(s, w.root, "<scratch>")
	return normName(s)
}

func readCString(mem *os.File, addr uint64) (string, bool) {
	if addr == 0 {
		return "", false
	}
	var out []byte
	for len(out) < 8192 {
		n := 4096 - int(addr&4095)
		buf := make([]byte, n)
		m, err := mem.ReadAt(buf, int64(addr))
		if m <= 0 {
			_ = err
			return "", false
		}
		if i := bytes.IndexByte(buf[:m], 0); i >= 0 {
			return string(append(out, buf[:i]...)), true
		}
		out = append(out, buf[:m]...)
		addr += uint64(m)
	}
	return "", false
}

func sysArg(r *syscall.PtraceRegs, i int) uint64 {
	switch i {
	case 0:
		return r.Rdi
	case 1:
		return r.Rsi
	case 2:
		return r.Rdx
	case 3:
		return r.R10
	case 4:
		return r.R8
	default:
		return r.R9
	}
}

// rel returns the name relative to the asset directory if p lies in it.
func (w *worker) rel(p string, dirfd int64, fds map[int]*fdInfo, cwd string) (string, bool) {
	if p == "" {
		if fi, ok := fds[int(dirfd)]; ok && !fi.report {
			return fi.name, true
		}
		return "", false
	}
	if !filepath.IsAbs(p) {
		if int32(dirfd) == atFdCwd || dirfd == -1 {
			p = filepath.Join(cwd, p)
		} else if fi, ok := fds[int(dirfd)]; ok && !fi.report {
			return normName(filepath.Join(fi.name, p)), true
		} else {
			return "", false
		}
	}
	p = filepath.Clean(p)
	if p == w.dir {
		return ".", true
	}
	if strings.HasPrefix(p, w.dir+"/") {
		return normName(p[len(w.dir)+1:]), true
	}
	return "", false
}

// trace runs the store child of a sequence under ptrace with at most one injection.
// The calling goroutine must be locked to its OS thread.
func (w *worker) trace(seed uint64, inj injection, postHashes bool) *runOut {
	out := &runOut{}
	os.Remove(w.report)
	errf, err := os.Create(w.errlog)
	if err != nil {
		out.herr = "cannot create child stderr file: " + err.Error()
		return out
	}
	defer errf.Close()
	devnull, err := os.Open(os.DevNull)
	if err != nil {
		out.herr = err.Error()
		return out
	}
	defer devnull.Close()
	env := []string{
		"PATH=/usr/bin:/bin", "HOME=" + w.root, "GOMAXPROCS=1", "GODEBUG=asyncpreemptoff=1", "GOTRACEBACK=single",
		"VERIF_C20_CHILD=store", "VERIF_C20_DIR=" + w.dir, fmt.Sprintf("VERIF_C20_SEQ=%d", seed), "VERIF_C20_REPORT=" + w.report,
	}
	w.runs.Add(1)
	pid, err := syscall.ForkExec(w.child, []string{w.child}, &syscall.ProcAttr{
		Dir: w.root, Env: env, Files: []uintptr{devnull.Fd(), errf.Fd(), errf.Fd()},
		Sys: &syscall.SysProcAttr{Ptrace: true},
	})
	if err != nil {
		out.herr = "fork/exec of the child failed: " + err.Error()
		return out
	}
	var timedOut atomic.Bool
	wd := time.AfterFunc(20*time.Second, func() {
		timedOut.Store(true)
		syscall.Kill(pid, syscall.SIGKILL)
	})
	reaped := false
	defer func() {
		wd.Stop()
		if !reaped {
			syscall.Kill(pid, syscall.SIGKILL)
			var ws syscall.WaitStatus
			for i := 0; i < 1000; i++ {
				wp, err := syscall.Wait4(-1, &ws, wAll|wNoThread, nil)
				if err != nil && err != syscall.EINTR {
					break
				}
				if wp == pid && (ws.Exited() || ws.Signaled()) {
					break
				}
			}
		}
		out.timedOut = timedOut.Load()
		if b, err := os.ReadFile(w.errlog); err == nil {
			if len(b) > 3000 {
				b = b[len(b)-3000:]
			}
			out.stderr = string(b)
		}
		if f, err := os.Open(w.report); err == nil {
			sc := bufio.NewScanner(f)
			sc.Buffer(make([]byte, 1<<20), 1<<20)
			for sc.Scan() {
				var l childLine
				if json.Unmarshal(sc.Bytes(), &l) == nil {
					out.report = append(out.report, l)
				}
			}
			f.Close()
		}
	}()

	var ws syscall.WaitStatus
	if _, err := syscall.Wait4(pid, &ws, wAll, nil); err != nil || !ws.Stopped() {
		out.herr = fmt.Sprintf("child did not stop after exec: %v status %#x", err, uint32(ws))
		if err == nil && (ws.Exited() || ws.Signaled()) {
			reaped = true
		}
		return out
	}
	if err := syscall.PtraceSetOptions(pid, syscall.PTRACE_O_TRACECLONE|syscall.PTRACE_O_TRACEFORK|syscall.PTRACE_O_TRACEVFORK|syscall.PTRACE_O_TRACESYSGOOD|oExitKill); err != nil {
		out.herr = "PTRACE_SETOPTIONS: " + err.Error()
		return out
	}
	mem, err := os.Open(fmt.Sprintf("/proc/%d/mem", pid))
	if err != nil {
		out.herr = "open /proc/pid/mem: " + err.Error()
		return out
	}
	defer mem.Close()
	if err := syscall.PtraceSyscall(pid, 0); err != nil {
		out.herr = "PTRACE_SYSCALL: " + err.Error()
		return out
	}

	threads := map[int]*tstate{pid: {}}
	fds := map[int]*fdInfo{}
	confPath := filepath.Join(w.dir, "ClientConf")
	curStore, after, ordInStore := -1, 0, 0
	kill := func(note string) {
		out.killed = true
		out.injNote = note
		syscall.Kill(pid, syscall.SIGKILL)
	}

	for {
		wpid, err := syscall.Wait4(-1, &ws, wAll|wNoThread, nil)
		if err == syscall.EINTR {
			continue
		}
		if err != nil {
			out.herr = "wait4: " + err.Error()
			reaped = true
			return out
		}
		if ws.Exited() || ws.Signaled() {
			delete(threads, wpid)
			if wpid == pid {
				reaped = true
				out.exited = ws.Exited()
				if ws.Exited() {
					out.exitCode = ws.ExitStatus()
				} else {
					out.signaled = true
					out.signal = ws.Signal()
				}
				return out
			}
			continue
		}
		if !ws.Stopped() {
			continue
		}
		t := threads[wpid]
		sig := ws.StopSignal()
		if int(sig) != int(syscall.SIGTRAP)|0x80 {
			deliver := int(sig)
			if sig == syscall.SIGTRAP {
				deliver = 0 // ptrace event stop (clone, ...) or exec trap
			} else if sig == syscall.SIGSTOP && t == nil {
				deliver = 0 // first stop of a new thread
			}
			if t == nil {
				threads[wpid] = &tstate{}
			}
			syscall.PtraceSyscall(wpid, deliver)
			continue
		}
		if t == nil {
			t = &tstate{}
			threads[wpid] = t
		}
		if out.killed {
			syscall.PtraceSyscall(wpid, 0)
			continue
		}
		var regs syscall.PtraceRegs
		if err := syscall.PtraceGetRegs(wpid, &regs); err != nil {
			// the thread may have been killed between the stop and now
			syscall.PtraceSyscall(wpid, 0)
			continue
		}
		out.nsys++
		if !t.inSys {
			// ---- syscall entry
			t.inSys = true
			t.cur = nil
			if int64(regs.Rax) != enosys {
				out.herr = fmt.Sprintf("lost syscall entry/exit parity on tid %d (syscall %d, rax %d at presumed entry)", wpid-pid, int64(regs.Orig_rax), int64(regs.Rax))
				return out
			}
			nr := int(int64(regs.Orig_rax))
			switch nr {
			case sysDup, sysDup2, sysDup3:
				if fi, ok := fds[int(int64(regs.Rdi))]; ok {
					t.cur = &pending{idx: -1, nr: nr, dupOf: fi}
				}
			case sysFcntl:
				if fi, ok := fds[int(int64(regs.Rdi))]; ok && (regs.Rsi == 0 || regs.Rsi == 1030) { // F_DUPFD, F_DUPFD_CLOEXEC
					t.cur = &pending{idx: -1, nr: nr, dupOf: fi}
				}
			case sysUring:
				if curStore >= 0 {
					out.herr = "the child uses io_uring inside a store; this tracer cannot intercept that"
					return out
				}
			case sysMmap:
				if fi, ok := fds[int(int32(regs.R8))]; ok && !fi.report && regs.R10&1 != 0 && regs.Rdx&2 != 0 && int32(regs.R8) >= 0 {
					out.herr = "the child maps a file of the asset directory shared and writable; stores through memory cannot be intercepted"
					return out
				}
			}
			d, known := sysTable[nr]
			if nr == sysSync && curStore >= 0 {
				d, known = sysDesc{name: "sync", fd: -1, p1: -1, d1: -1, p2: -1, d2: -1, mod: true, flags: -1}, true
			}
			if known && t.cur == nil {
				p := &pending{idx: -1, nr: nr, desc: d, fd: -1}
				relevant := nr == sysSync
				file := ""
				isReport := false
				if d.fd >= 0 {
					p.fd = int(int64(sysArg(&regs, d.fd)))
					if fi, ok := fds[p.fd]; ok {
						if fi.report {
							isReport = true
						} else {
							relevant = true
							file = fi.name
							if d.name == "close" && fi.wr {
								p.desc.mod = true
							}
						}
					}
				}
				if d.p1 >= 0 {
					ps, ok := readCString(mem, sysArg(&regs, d.p1))
					dfd := int64(-1)
					if d.d1 >= 0 {
						dfd = int64(sysArg(&regs, d.d1))
					}
					if ok || d.name == "utimensat" {
						if d.flags != -1 && filepath.Clean(ps) == w.report {
							p.openRep = true
						}
						if n, ok := w.rel(ps, dfd, fds, w.root); ok {
							relevant = true
							file = n
							p.openName = n
						}
					}
				}
				if d.p2 >= 0 {
					ps, ok := readCString(mem, sysArg(&regs, d.p2))
					dfd := int64(-1)
					if d.d2 >= 0 {
						dfd = int64(sysArg(&regs, d.d2))
					}
					if ok {
						if n, ok := w.rel(ps, dfd, fds, w.root); ok {
							relevant = true
							if file == "" {
								file = "(outside)"
							}
							file = file + " -> " + n
						} else if file != "" {
							file = file + " -> (outside)"
						}
					}
				}
				if d.flags >= 0 {
					fl := int(sysArg(&regs, d.flags))
					p.openWr = fl&oWrFlags != 0
				} else if d.flags == -2 {
					var how [8]byte
					if n, _ := mem.ReadAt(how[:], int64(sysArg(&regs, 2))); n == 8 {
						p.openWr = int(binary.LittleEndian.Uint64(how[:]))&oWrFlags != 0
					} else {
						p.openWr = true
					}
				}
				if d.flags != -1 && p.openWr {
					p.desc.mod = true
				}
				if d.name == "creat" {
					p.openWr = true
				}
				switch {
				case isReport && (d.name == "write"):
					// marker: one line of the child's report. Evaluated at entry, while the child is stopped.
					m := out.marks
					out.marks++
					if m >= 1 {
						if m%2 == 1 {
							curStore, ordInStore = (m-1)/2, 0
						} else {
							s := readSnap(confPath)
							out.snaps = append(out.snaps, s)
							ageConf(confPath)
							curStore = -1
							after = m / 2
						}
					}
				case isReport:
					if d.name == "close" {
						t.cur = p // bookkeeping at exit
					}
				case relevant:
					idx := len(out.stops)
					sp := stopPoint{Idx: idx, Sys: d.name, File: file, Store: curStore, After: after, Ord: ordInStore, Mod: p.desc.mod}
					ordInStore++
					if d.wlen {
						sp.WLen = true
						sp.Len = int(regs.Rdx)
					}
					if d.flags != -1 {
						if p.openWr {
							sp.File += " (wr)"
						} else {
							sp.File += " (ro)"
						}
					}
					out.stops = append(out.stops, sp)
					p.idx = idx
					t.cur = p
					if inj.stop == idx {
						if inj.expect != "" && inj.expect != sp.key() {
							out.herr = fmt.Sprintf("stop point %d of the faulted run is %q but the reference run had %q: the child is not deterministic", idx, sp.key(), inj.expect)
							return out
						}
						switch inj.action {
						case actKillEntry:
							out.injected = true
							kill(fmt.Sprintf("SIGKILL at entry of %s %s (not executed)", sp.Sys, sp.File))
							syscall.PtraceSyscall(wpid, 0)
							continue
						case actKillExit:
							p.killExit = true
						case actTornKill, actShort:
							if !d.wlen || sp.Len <= 0 {
								out.herr = fmt.Sprintf("case asks for a shortened write at stop %d which is %s", idx, sp.Sys)
								return out
							}
							nl := tornLen(inj.param, sp.Len)
							regs.Rdx = uint64(nl)
							if err := syscall.PtraceSetRegs(wpid, &regs); err != nil {
								out.herr = "PTRACE_SETREGS: " + err.Error()
								return out
							}
							out.injected = true
							if inj.action == actTornKill {
								p.killExit = true
								out.injNote = fmt.Sprintf("%s %s shortened from %d to %d bytes, SIGKILL after it", sp.Sys, sp.File, sp.Len, nl)
							} else {
								out.injNote = fmt.Sprintf("%s %s shortened from %d to %d bytes (returns short), child continues", sp.Sys, sp.File, sp.Len, nl)
							}
						case actError:
							e := errnos[inj.param]
							p.setRet, p.hasSetRet = -int64(e.no), true
							if !d.ret {
								p.skipped = true
								regs.Orig_rax = ^uint64(0)
								if err := syscall.PtraceSetRegs(wpid, &regs); err != nil {
									out.herr = "PTRACE_SETREGS: " + err.Error()
									return out
								}
								out.injNote = fmt.Sprintf("%s %s not executed, returns %s, child continues", sp.Sys, sp.File, e.name)
							} else {
								out.injNote = fmt.Sprintf("%s %s executed, returns %s, child continues", sp.Sys, sp.File, e.name)
							}
							out.injected = true
						}
					}
				case p.openRep:
					t.cur = p
				}
			}
		} else {
			// ---- syscall exit
			t.inSys = false
			p := t.cur
			t.cur = nil
			if p != nil {
				ret := int64(regs.Rax)
				if p.hasSetRet {
					regs.Rax = uint64(p.setRet)
					if err := syscall.PtraceSetRegs(wpid, &regs); err != nil {
						out.herr = "PTRACE_SETREGS: " + err.Error()
						return out
					}
					ret = p.setRet
				}
				switch {
				case p.dupOf != nil:
					if ret >= 0 {
						c := *p.dupOf
						fds[int(ret)] = &c
					}
				case p.desc.flags != -1 || p.desc.name == "creat":
					if ret >= 0 && !p.skipped {
						if p.openRep {
							fds[int(ret)] = &fdInfo{name: "(report)", report: true}
						} else if p.idx >= 0 {
							fds[int(ret)] = &fdInfo{name: p.openName, wr: p.openWr}
						}
					}
				case p.desc.name == "close":
					if !p.skipped {
						delete(fds, p.fd)
					}
				}
				if p.idx >= 0 {
					out.stops[p.idx].Ret = ret
					if postHashes && out.stops[p.idx].Store >= 0 {
						s := readSnap(confPath)
						out.stops[p.idx].Post = s.hash()
					}
					if out.injected && (inj.action == actError || inj.action == actShort) && out.stops[p.idx].Store >= 0 {
						if out.post == nil {
							out.post = map[int]snap{}
						}
						out.post[p.idx] = readSnap(confPath)
					}
					if p.killExit {
						if inj.action == actKillExit {
							out.injected = true
							kill(fmt.Sprintf("SIGKILL at exit of %s %s (returned %d)", out.stops[p.idx].Sys, out.stops[p.idx].File, ret))
						} else {
							note := out.injNote
							kill(note + fmt.Sprintf(" (returned %d)", ret))
						}
					}
				}
			}
		}
		syscall.PtraceSyscall(wpid, 0)
	}
}

// untraced runs the child in mode init or load and returns its single report line.
func (w *worker) untraced(mode string, seed uint64) (childLine, error) {
	os.Remove(w.report)
	w.runs.Add(1)
	cmd := exec.Command(w.child)
	cmd.Dir = w.root
	cmd.Env = []string{"PATH=/usr/bin:/bin", "HOME=" + w.root, "GOMAXPROCS=1", "GOTRACEBACK=single",
		"VERIF_C20_CHILD=" + mode, "VERIF_C20_DIR=" + w.dir, fmt.Sprintf("VERIF_C20_SEQ=%d", seed), "VERIF_C20_REPORT=" + w.report}
	var eb bytes.Buffer
	cmd.Stderr = &eb
	done := make(chan error, 1)
	if err := cmd.Start(); err != nil {
		return childLine{}, err
	}
	go func() { done <- cmd.Wait() }()
	select {
	case err := <-done:
		if err != nil {
			return childLine{}, fmt.Errorf("child mode %s: %v: %s", mode, err, tail(eb.String(), 1500))
		}
	case <-time.After(20 * time.Second):
		cmd.Process.Kill()
		<-done
		return childLine{}, fmt.Errorf("child mode %s did not finish within 20 s", mode)
	}
	b, err := os.ReadFile(w.report)
	if err != nil {
		return childLine{}, fmt.Errorf("child mode %s wrote no report: %v", mode, err)
	}
	var l childLine
	if err := json.Unmarshal(bytes.TrimSpace(b), &l); err != nil {
		return childLine{}, fmt.Errorf("child mode %s: unreadable report %q", mode, tail(string(b), 300))
	}
	return l, nil
}

func tail(s string, n int) string {
	if len(s) > n {
		return s[len(s)-n:]
	}
	return s
}

func (w *worker) resetDir(cfg0 snap) error {
	ents, err := os.ReadDir(w.dir)
	if err != nil {
		if err := os.MkdirAll(w.dir, 0o755); err != nil {
			return err
		}
	}
	for _, e := range ents {
		if err := os.RemoveAll(filepath.Join(w.dir, e.Name())); err != nil {
			return err
		}
	}
	if cfg0.ok {
		defer ageConf(filepath.Join(w.dir, "ClientConf"))
		if err := os.WriteFile(filepath.Join(w.dir, "ClientConf"), cfg0.data, 0o644); err != nil {
			return err
		}
	}
	return nil
}

func (w *worker) listDir() string {
	ents, _ := os.ReadDir(w.dir)
	var l []string
	for _, e := range ents {
		sz := int64(-1)
		if fi, err := e.Info(); err == nil {
			sz = fi.Size()
		}
		l = append(l, fmt.Sprintf("%s(%d)", normName(e.Name()), sz))
	}
	sort.Strings(l)
	return strings.Join(l, " ")
}

// ---------------------------------------------------------------------------
// a prepared sequence: reference run

type seqInfo struct {
	seed   uint64
	fixed  bool
	index  int
	shape  string
	ops    []string
	poss   []int
	cfg0   snap
	cfgs   []snap // after each store, fault-free
	mem0   string
	memRef []string
	stops  []stopPoint
	commit []int // per store: first stop index after which ClientConf holds the new configuration
	herr   string
}

func (s *seqInfo) cfgAt(n int) *snap { // configuration on disk after n completed stores
	if n == 0 {
		return &s.cfg0
	}
	return &s.cfgs[n-1]
}

func (w *worker) prepare(seed uint64) *seqInfo {
	si := &seqInfo{seed: seed}
	fail := func(f string, a ...any) *seqInfo {
		si.herr = fmt.Sprintf("sequence %d: ", seed) + fmt.Sprintf(f, a...)
		return si
	}
	if err := w.resetDir(snap{}); err != nil {
		return fail("cannot reset scratch directory: %v", err)
	}
	il, err := w.untraced("init", seed)
	if err != nil {
		return fail("init: %v", err)
	}
	if il.Failed {
		return fail("init store failed: %s", il.Err)
	}
	si.cfg0 = readSnap(filepath.Join(w.dir, "ClientConf"))
	if si.cfg0.ok != (il.Init != initNone) {
		return fail("init kind %d but ClientConf present=%v", il.Init, si.cfg0.ok)
	}
	var first *runOut
	for rep := 0; rep < 3; rep++ {
		if err := w.resetDir(si.cfg0); err != nil {
			return fail("cannot reset scratch directory: %v", err)
		}
		o := w.trace(seed, injection{stop: -1}, rep == 0)
		if o.timedOut {
			return fail("reference run %d: child did not finish within 20 s", rep)
		}
		if o.herr != "" {
			return fail("reference run %d: %s", rep, o.herr)
		}
		if !o.exited || o.exitCode != 0 {
			return fail("reference run %d: child ended abnormally (exited=%v code=%d signal=%v): %s", rep, o.exited, o.exitCode, o.signal, tail(o.stderr, 1500))
		}
		n := len(o.report)
		if n < 3 || o.report[0].Ev != "start" || o.report[n-1].Ev != "done" || n != 2*o.report[n-1].I+2 || o.marks != n || len(o.snaps) != o.report[n-1].I {
			return fail("reference run %d: incomplete report (%d lines, %d markers, %d snapshots)", rep, n, o.marks, len(o.snaps))
		}
		if rep == 0 {
			first = o
			continue
		}
		if len(o.stops) != len(first.stops) {
			return fail("nondeterministic child: reference runs have %d and %d stop points", len(first.stops), len(o.stops))
		}
		for i := range o.stops {
			if o.stops[i].key() != first.stops[i].key() {
				return fail("nondeterministic child: stop point %d is %q in one reference run and %q in another", i, first.stops[i].key(), o.stops[i].key())
			}
		}
		for i := range o.snaps {
			if !o.snaps[i].eq(first.snaps[i]) {
				return fail("nondeterministic child: ClientConf after store %d differs between reference runs", i)
			}
		}
		for i := range o.report {
			if o.report[i] != first.report[i] {
				return fail("nondeterministic child: report line %d differs between reference runs", i)
			}
		}
	}
	st := first.report[0]
	si.shape = st.Shape
	si.mem0 = st.Mem
	if si.cfg0.ok {
		if st.Failed {
			return fail("reference run: the library could not load the initial ClientConf: %s", st.Err)
		}
		if st.Mem != si.cfg0.hash() {
			return fail("reference run: marshalling the loaded initial configuration does not reproduce the file bytes (marshal not deterministic?)")
		}
	}
	k := len(first.snaps)
	si.cfgs = first.snaps
	si.stops = first.stops
	for i := 0; i < k; i++ {
		e := first.report[2+2*i]
		if e.Ev != "end" || e.I != i {
			return fail("reference run: unexpected report line %d: %+v", 2+2*i, e)
		}
		if e.Failed {
			return fail("reference run: fault-free store %d (%s) failed: %s", i, e.Op, e.Err)
		}
		if !si.cfgs[i].ok {
			return fail("reference run: no ClientConf after fault-free store %d (%s)", i, e.Op)
		}
		if e.Mem != si.cfgs[i].hash() {
			return fail("reference run: file after store %d (%s) is not the marshalling of the in-memory configuration", i, e.Op)
		}
		si.ops = append(si.ops, e.Op)
		si.poss = append(si.poss, e.Pos)
		si.memRef = append(si.memRef, e.Mem)
		c := -1
		for _, sp := range si.stops {
			if sp.Store == i && sp.Post == si.cfgs[i].hash() {
				c = sp.Idx
				break
			}
		}
		si.commit = append(si.commit, c)
	}
	// the final state must load through the library
	ll, err := w.untraced("load", seed)
	if err != nil {
		return fail("load after reference run: %v", err)
	}
	if ll.Failed || ll.Raw != si.cfgs[k-1].hash() || ll.Mem != si.memRef[k-1] {
		return fail("load after reference run does not see the final configuration: %+v", ll)
	}
	return si
}

type caseID struct {
	seed   uint64
	stop   int
	action int
	param  int
}

func (c caseID) tape(nstops int) []Draw {
	pn := 1
	switch c.action {
	case actTornKill, actShort:
		pn = 4
	case actError:
		pn = len(errnos)
	}
	return []Draw{
		{"seq_seed_hi", 1 << 30, int(c.seed >> 30)},
		{"seq_seed_lo", 1 << 30, int(c.seed & (1<<30 - 1))},
		{"stop", nstops, c.stop},
		{"action", nActions, c.action},
		{"param", pn, c.param},
	}
}

func caseFromTape(t []Draw) (caseID, error) {
	if len(t) != 5 || t[0].L != "seq_seed_hi" || t[1].L != "seq_seed_lo" || t[2].L != "stop" || t[3].L != "action" || t[4].L != "param" {
		return caseID{}, errors.New("tape is not a C20 case (seq_seed_hi, seq_seed_lo, stop, action, param)")
	}
	c := caseID{seed: uint64(t[0].V)<<30 | uint64(t[1].V), stop: t[2].V, action: t[3].V, param: t[4].V}
	if c.action < 0 || c.action >= nActions || c.param < 0 || (c.action == actError && c.param >= len(errnos)) || ((c.action == actTornKill || c.action == actShort) && c.param > 3) {
		return caseID{}, errors.New("tape has an action or parameter out of range")
	}
	return c, nil
}

func (s *seqInfo) cases() []caseID {
	var cs []caseID
	for _, sp := range s.stops {
		cs = append(cs, caseID{s.seed, sp.Idx, actKillEntry, 0}, caseID{s.seed, sp.Idx, actKillExit, 0})
		if sp.Store < 0 {
			continue
		}
		if sp.WLen && sp.Len > 0 {
			seen := map[int]bool{}
			for p := 0; p < 4; p++ {
				l := tornLen(p, sp.Len)
				if l < 0 || l >= sp.Len || seen[l] {
					continue
				}
				seen[l] = true
				cs = append(cs, caseID{s.seed, sp.Idx, actTornKill, p}, caseID{s.seed, sp.Idx, actShort, p})
			}
		}
		for e := range errnos {
			cs = append(cs, caseID{s.seed, sp.Idx, actError, e})
		}
	}
	return cs
}

// ---------------------------------------------------------------------------
// one case and its oracle

type caseOut struct {
	id      caseID
	nstops  int
	sig     string
	msg     string
	herr    string
	nontriv bool
	cover   string
	fault   string
	probes  []string
	trace   []string
	steps   int
}

func fnvLines(lines []string) string {
	h := uint64(14695981039346656037)
	for _, l := range lines {
		for i := 0; i < len(l); i++ {
			h ^= uint64(l[i])
			h *= 1099511628211
		}
		h ^= '\n'
		h *= 1099511628211
	}
	return fmt.Sprintf("%016x", h)
}

func (w *worker) runCase(si *seqInfo, id caseID) *caseOut {
	co := &caseOut{id: id, nstops: len(si.stops)}
	tr := func(f string, a ...any) { co.trace = append(co.trace, fmt.Sprintf(f, a...)) }
	if id.stop < 0 || id.stop >= len(si.stops) {
		co.herr = fmt.Sprintf("case %v: stop index out of range (sequence has %d stop points)", id, len(si.stops))
		return co
	}
	sp := si.stops[id.stop]
	k := len(si.ops)
	tr("C20 case: sequence seed %d, %s", si.seed, si.shape)
	tr("cfg_0 (before the sequence): %s", si.cfg0.desc())
	for i := range si.ops {
		tr("store %d: %-20s -> cfg_%d %s", i, si.ops[i], i+1, si.cfgs[i].desc())
	}
	tr("stop points of the fault-free reference run (%d):", len(si.stops))
	for _, s := range si.stops {
		where := "outside "
		if s.Store >= 0 {
			where = fmt.Sprintf("store %d ", s.Store)
		}
		extra := ""
		if s.WLen {
			extra = fmt.Sprintf(" len=%d", s.Len)
		}
		mark := "  "
		if s.Idx == id.stop {
			mark = "=>"
		}
		tr(" %s[%2d] %s %-10s %s%s", mark, s.Idx, where, s.Sys, s.File, extra)
	}
	pdesc := ""
	switch id.action {
	case actTornKill, actShort:
		pdesc = fmt.Sprintf(" length %d of %d", tornLen(id.param, sp.Len), sp.Len)
	case actError:
		pdesc = " " + errnos[id.param].name
	}
	tr("inject: %s%s at stop %d (%s %s)", actLong[id.action], pdesc, id.stop, sp.Sys, sp.File)

	if err := w.resetDir(si.cfg0); err != nil {
		co.herr = "cannot reset scratch directory: " + err.Error()
		return co
	}
	o := w.trace(si.seed, injection{stop: id.stop, action: id.action, param: id.param, expect: sp.key()}, false)
	co.steps = len(o.stops)
	if o.timedOut {
		co.herr = fmt.Sprintf("case %v: child did not finish within 20 s (watchdog)", id)
		return co
	}
	if o.herr != "" {
		co.herr = fmt.Sprintf("case %v: %s", id, o.herr)
		return co
	}
	if !o.injected {
		co.herr = fmt.Sprintf("case %v: the injection did not fire (child ran %d stop points)", id, len(o.stops))
		return co
	}
	tr("injected: %s", o.injNote)
	if len(o.stops) > id.stop+1 {
		var l []string
		for _, s := range o.stops[id.stop+1:] {
			l = append(l, fmt.Sprintf("%s %s=%d", s.Sys, s.File, s.Ret))
		}
		tr("child after the injection: %s", strings.Join(l, "; "))
	}
	co.nontriv = sp.Store >= 0
	final := readSnap(filepath.Join(w.dir, "ClientConf"))
	tr("on disk afterwards: ClientConf %s; directory: %s", final.desc(), w.listDir())

	act := actNames[id.action]
	which := func(s *snap, i int) string { // names a snapshot relative to store i
		switch {
		case s.eq(*si.cfgAt(i)) && i < k && s.eq(si.cfgs[i]):
			return "old=new"
		case s.eq(*si.cfgAt(i)):
			return "old"
		case i < k && s.eq(si.cfgs[i]):
			return "new"
		}
		return "other"
	}
	describeOther := func(s *snap, i int) string {
		if !s.ok {
			return "the file does not exist"
		}
		d := fmt.Sprintf("the file has %d bytes", len(s.data))
		old := si.cfgAt(i)
		if old.ok {
			d += fmt.Sprintf(", previous configuration has %d", len(old.data))
			if len(s.data) < len(old.data) && bytes.HasPrefix(old.data, s.data) {
				d += " (file is a proper prefix of it)"
			}
		} else {
			d += ", there was no previous file"
		}
		if i < k {
			nw := si.cfgs[i]
			d += fmt.Sprintf(", new configuration has %d", len(nw.data))
			if len(s.data) < len(nw.data) && bytes.HasPrefix(nw.data, s.data) {
				d += " (file is a proper prefix of it)"
			} else if len(s.data) > len(nw.data) && bytes.HasPrefix(s.data, nw.data) {
				d += " (file is the new configuration followed by old bytes)"
			} else if len(s.data) >= len(nw.data) && old.ok && len(old.data) == len(s.data) {
				n := 0
				for n < len(nw.data) && n < len(s.data) && s.data[n] == nw.data[n] {
					n++
				}
				d += fmt.Sprintf(" (first %d bytes are from the new configuration)", n)
			}
		}
		return d
	}
	stName := "between stores"
	if sp.Store >= 0 {
		stName = fmt.Sprintf("store %d (%s)", sp.Store, si.ops[sp.Store])
	}

	switch id.action {
	case actKillEntry, actKillExit, actTornKill:
		if !o.signaled || o.signal != syscall.SIGKILL {
			co.herr = fmt.Sprintf("case %v: child was to be killed but ended with exited=%v code=%d signal=%v", id, o.exited, o.exitCode, o.signal)
			return co
		}
		switch id.action {
		case actKillEntry:
			co.fault = "kill_at_entry"
		case actKillExit:
			co.fault = "kill_at_exit"
		default:
			co.fault = "torn_write_kill"
			co.probes = append(co.probes, "torn_write")
		}
		i := sp.After
		wh := which(&final, i)
		if sp.Store < 0 && wh == "new" {
			wh = "other" // between stores only the configuration of the last completed store is acceptable
		}
		co.probes = append(co.probes, killProbes(si, sp, id.action)...)
		if wh == "other" {
			kind := "torn-file"
			if !final.ok {
				kind = "file-missing"
			}
			co.sig = fmt.Sprintf("C20/%s/%s/%s", kind, act, sp.Sys)
			loadNote := ""
			if final.ok {
				if ll, err := w.untraced("load", si.seed); err == nil {
					if ll.Failed {
						loadNote = "; a restarted client cannot load it: " + w.normText(ll.Err)
					} else {
						loadNote = fmt.Sprintf("; a restarted client parses it as generation %d with %d decoys", ll.Gen, ll.Decoys)
					}
				}
			}
			co.msg = fmt.Sprintf("after %s during %s the file ClientConf is neither the previous nor the new configuration: %s%s", o.injNote, stName, describeOther(&final, i), loadNote)
			tr("verdict: %s: %s", co.sig, co.msg)
			break
		}
		tr("file equals the %s configuration (cfg_%d / cfg_%d acceptable)", wh, i, min(i+1, k))
		if final.ok {
			ll, err := w.untraced("load", si.seed)
			if err != nil {
				co.herr = fmt.Sprintf("case %v: restart child: %v", id, err)
				return co
			}
			if ll.Failed {
				co.sig = fmt.Sprintf("C20/unloadable/%s/%s", act, sp.Sys)
				co.msg = fmt.Sprintf("after %s during %s a restarted client cannot load ClientConf: %s", o.injNote, stName, w.normText(ll.Err))
				tr("verdict: %s: %s", co.sig, co.msg)
				break
			}
			if ll.Raw != final.hash() {
				// the restarted client did not load what the crash left: its start-up changed the file
				// (recovery logic). What it left must again be the previous or the new configuration.
				after := readSnap(filepath.Join(w.dir, "ClientConf"))
				if after.ok && after.hash() == ll.Raw && which(&after, i) != "other" {
					tr("restart: start-up replaced the file by the %s configuration", which(&after, i))
				} else if after.ok && after.hash() == ll.Raw {
					co.sig = fmt.Sprintf("C20/restart-published-other-file/%s/%s", act, sp.Sys)
					co.msg = fmt.Sprintf("after %s during %s the file ClientConf was the %s configuration, but the start-up of the restarted client replaced it: %s", o.injNote, stName, wh, describeOther(&after, i))
					tr("verdict: %s: %s", co.sig, co.msg)
					break
				} else {
					co.herr = fmt.Sprintf("case %v: the restart child read other bytes (%s) than the tracer (%s)", id, ll.Raw, final.hash())
					return co
				}
			}
			tr("restart: loaded, generation %d, %d decoys, marshalled length %d", ll.Gen, ll.Decoys, ll.MemLen)
		} else {
			tr("restart: no ClientConf, as before the first store")
		}
		co.cover = fmt.Sprintf("%s|%d|%s|%s|%s|%s|%d|file=%s", si.shape, sp.Store, sp.Sys, sp.File, actLong[id.action], opAt(si, sp), id.param, wh)
		tr("verdict: ok")

	case actError, actShort:
		en := "short-write"
		if id.action == actError {
			en = errnos[id.param].name
			co.fault = "error_" + en
			co.probes = append(co.probes, "error_on_"+sp.Sys)
		} else {
			co.fault = "short_write_continue"
			co.probes = append(co.probes, "short_write_continue")
		}
		if sp.Store < 0 {
			co.herr = fmt.Sprintf("case %v: error injection outside a store is not part of the case space", id)
			return co
		}
		n := len(o.report)
		if !o.exited || o.exitCode != 0 || n != 2*k+2 || o.report[n-1].Ev != "done" || len(o.snaps) != k {
			co.herr = fmt.Sprintf("case %v: after the injection the child did not finish its sequence (exited=%v code=%d signal=%v, %d report lines): %s", id, o.exited, o.exitCode, o.signal, n, tail(w.normText(o.stderr), 1500))
			return co
		}
		i := sp.Store
		op := strings.Split(si.ops[i], "/")[0] // signatures name the setter, not the size of its argument
		end := o.report[2+2*i]
		memBefore := o.report[0].Mem
		if i > 0 {
			memBefore = o.report[2*i].Mem
		}
		for j := 0; j < k; j++ {
			e := o.report[2+2*j]
			res := "ok"
			if e.Failed {
				res = "error: " + w.normText(e.Err)
			}
			tr("store %d %-20s returned %s; memory sha256=%s gen=%d decoys=%d; file %s", j, e.Op, res, short(e.Mem), e.Gen, e.Decoys, o.snaps[j].desc())
		}
		if end.Failed {
			co.probes = append(co.probes, "store_failed_"+op)
		}
		snapI := o.snaps[i]
		wh := which(&snapI, i)
		retried := false
		for _, s := range o.stops[id.stop+1:] {
			if s.Store == i && s.Sys == sp.Sys {
				retried = true
			}
		}
		memState := "n/a"
		if strings.HasPrefix(op, "SetClientConf") {
			memState = "rolled-back"
			if end.Mem != memBefore {
				memState = "new"
			}
		}
		co.cover = fmt.Sprintf("%s|%d|%s|%s|%s|%s|failed=%v|file=%s|mem=%s", si.shape, i, sp.Sys, sp.File, actLong[id.action], en, end.Failed, wh, memState)
		fail := func(sig, f string, a ...any) {
			co.sig = sig
			co.msg = fmt.Sprintf(f, a...)
			tr("verdict: %s: %s", co.sig, co.msg)
		}
		// After the injected failure the store goes on (clean-up, retry, fallback). A crash in that
		// stretch is as possible as anywhere else: after every system call of the rest of this store
		// the file must still be the previous or the new configuration.
		for idx := id.stop; idx < len(o.stops) && co.sig == ""; idx++ {
			ps, ok := o.post[idx]
			if !ok || o.stops[idx].Store != i {
				continue
			}
			if which(&ps, i) == "other" {
				kind := "torn-window"
				if !ps.ok {
					kind = "missing-window"
				}
				fail(fmt.Sprintf("C20/%s/%s/%s", kind, act, sp.Sys), "after %s during %s the store went on, and right after its %s %s a crash would leave ClientConf neither the previous nor the new configuration: %s", o.injNote, stName, o.stops[idx].Sys, o.stops[idx].File, describeOther(&ps, i))
			}
		}
		switch {
		case co.sig != "":
		case wh == "other":
			kind := "torn-file"
			if !snapI.ok {
				kind = "file-missing"
			}
			fail(fmt.Sprintf("C20/%s/%s/%s", kind, act, sp.Sys), "after %s during %s the file ClientConf is neither the previous nor the new configuration: %s", o.injNote, stName, describeOther(&snapI, i))
		case !end.Failed && wh == "old":
			fail(fmt.Sprintf("C20/error-swallowed/%s/%s", op, en), "%s during %s: the store returned nil but the file still holds the previous configuration", o.injNote, stName)
		case !end.Failed && id.action == actError && sp.Mod && !retried:
			fail(fmt.Sprintf("C20/error-swallowed/%s/%s", op, en), "%s during %s: the failure of a write-side step was not reported, the store returned nil", o.injNote, stName)
		case end.Failed && wh == "new" && !(si.commit[i] >= 0 && (id.stop > si.commit[i] || (id.stop == si.commit[i] && sp.Sys == "close"))):
			fail(fmt.Sprintf("C20/file-changed-after-failed-store/%s/%s", op, sp.Sys), "%s during %s: the store returned %q but the file now holds the new configuration", o.injNote, stName, w.normText(end.Err))
		case end.Failed && memState == "new":
			fail(fmt.Sprintf("C20/memory-not-rolled-back/%s", sp.Sys), "%s during %s: SetClientConf returned %q but the configuration in memory is no longer the previous one (sha256 %s before, %s after; generation now %d)", o.injNote, stName, w.normText(end.Err), short(memBefore), short(end.Mem), end.Gen)
		}
		if co.sig != "" {
			break
		}
		// later, fault-free stores must succeed and be on disk
		for j := i + 1; j < k && co.sig == ""; j++ {
			e := o.report[2+2*j]
			if e.Failed {
				fail(fmt.Sprintf("C20/later-store-failed/%s", strings.Split(e.Op, "/")[0]), "after %s during %s the later fault-free store %d (%s) failed: %s", o.injNote, stName, j, e.Op, w.normText(e.Err))
				break
			}
			sj := o.snaps[j]
			okFile := false
			if e.Mem == si.memRef[j] {
				okFile = sj.eq(si.cfgs[j])
			} else {
				okFile = sj.ok && sj.hash() == e.Mem
			}
			if !okFile {
				fail(fmt.Sprintf("C20/later-store-failed/%s/file-differs", strings.Split(e.Op, "/")[0]), "after %s during %s the later fault-free store %d (%s) returned nil but the file (%s) is not the marshalling of the configuration in memory (sha256 %s)", o.injNote, stName, j, e.Op, sj.desc(), short(e.Mem))
			}
		}
		if co.sig == "" && i < k-1 {
			if !final.eq(o.snaps[k-1]) {
				fail("C20/later-store-failed/final-file", "the file changed after the last store returned")
			}
			co.probes = append(co.probes, "later_store_after_failure")
		}
		if co.sig == "" {
			tr("verdict: ok")
		}
	}
	return co
}

func short(h string) string {
	if len(h) > 12 {
		return h[:12]
	}
	return h
}

func opAt(si *seqInfo, sp stopPoint) string {
	if sp.Store >= 0 {
		return si.ops[sp.Store]
	}
	return "-"
}

func killProbes(si *seqInfo, sp stopPoint, action int) []string {
	if sp.Store < 0 {
		return []string{"kill_outside_store"}
	}
	var p []string
	i := sp.Store
	// position relative to the first write and to the commit point of the reference run
	firstWrite, commit := -1, si.commit[i]
	for _, s := range si.stops {
		if s.Store == i && s.WLen && firstWrite < 0 {
			firstWrite = s.Idx
		}
	}
	executed := sp.Idx // stop points fully executed before the kill: < executed
	if action != actKillEntry {
		executed = sp.Idx + 1
	}
	switch {
	case firstWrite >= 0 && executed <= firstWrite:
		p = append(p, "kill_before_first_write")
	case commit >= 0 && executed <= commit && action != actTornKill:
		p = append(p, "kill_between_write_and_rename")
	case commit >= 0 && executed > commit:
		p = append(p, "kill_after_rename")
	}
	if !si.cfgAt(i).ok {
		p = append(p, "kill_during_first_ever_store")
	}
	if len(si.cfgs[i].data) > 1<<20 {
		p = append(p, "kill_during_multi_megabyte_store")
	}
	return p
}

// ---------------------------------------------------------------------------
// driver

type knownSet []string

func loadKnown(path string) knownSet {
	var ks knownSet
	f, err := os.Open(path)
	if err != nil {
		return nil
	}
	defer f.Close()
	sc := bufio.NewScanner(f)
	for sc.Scan() {
		line := strings.TrimSpace(sc.Text())
		if !strings.HasPrefix(line, "known:") {
			continue
		}
		p, sig := "", ""
		for _, fld := range strings.Fields(line) {
			if strings.HasPrefix(fld, "property=") {
				p = strings.TrimPrefix(fld, "property=")
			}
			if strings.HasPrefix(fld, "sig=") && sig == "" {
				sig = strings.TrimPrefix(fld, "sig=")
			}
		}
		if p == prop && sig != "" {
			ks = append(ks, sig)
		}
	}
	return ks
}

func (ks knownSet) match(sig string) (string, bool) {
	for _, p := range ks {
		if sig == p || (strings.HasSuffix(p, "*") && strings.HasPrefix(sig, strings.TrimSuffix(p, "*"))) {
			return p, true
		}
	}
	return "", false
}

type pool struct {
	workers []*worker
	jobs    chan func(*worker)
	wg      sync.WaitGroup
}

func newPool(n int, scratch, child string, runs *atomic.Int64) (*pool, error) {
	p := &pool{jobs: make(chan func(*worker))}
	for i := 0; i < n; i++ {
		root := filepath.Join(scratch, fmt.Sprintf("w%d", i))
		w := &worker{id: i, root: root, dir: filepath.Join(root, "assets"), report: filepath.Join(root, "report.jsonl"),
			errlog: filepath.Join(root, "stderr.txt"), child: child, runs: runs}
		if err := os.MkdirAll(w.dir, 0o755); err != nil {
			return nil, err
		}
		p.workers = append(p.workers, w)
		p.wg.Add(1)
		go func() {
			runtime.LockOSThread() // every ptrace request for a tracee comes from the thread that started it
			defer p.wg.Done()
			for j := range p.jobs {
				j(w)
			}
		}()
	}
	return p, nil
}

// each runs f(i) for i in [0,n) on the pool and waits.
func (p *pool) each(n int, f func(w *worker, i int)) {
	var wg sync.WaitGroup
	for i := 0; i < n; i++ {
		wg.Add(1)
		i := i
		p.jobs <- func(w *worker) {
			defer wg.Done()
			f(w, i)
		}
	}
	wg.Wait()
}

func (p *pool) close() {
	close(p.jobs)
	p.wg.Wait()
}

func fnv64(s string) uint64 {
	h := uint64(14695981039346656037)
	for i := 0; i < len(s); i++ {
		h ^= uint64(s[i])
		h *= 1099511628211
	}
	return h
}

type engine struct {
	p        *pool
	res      *Result
	known    knownSet
	distinct map[uint64]struct{}
	deadline time.Time
	viol     map[string]*caseOut // first violating case per signature
	violSeq  map[string]*seqInfo
	violIdx  map[string]int
	order    []string
	caseNo   int
	mu       sync.Mutex
}

func (e *engine) addErr(s string) {
	e.mu.Lock()
	e.res.Errors = append(e.res.Errors, s)
	e.mu.Unlock()
}

// runBatch prepares the sequences and executes every case of them.
func (e *engine) runBatch(seeds []uint64, fixed bool) {
	seqs := make([]*seqInfo, len(seeds))
	e.p.each(len(seeds), func(w *worker, i int) {
		if time.Now().After(e.deadline) {
			return
		}
		seqs[i] = w.prepare(seeds[i])
		seqs[i].fixed = fixed
	})
	type job struct {
		si *seqInfo
		id caseID
	}
	var jobs []job
	for _, si := range seqs {
		if si == nil {
			e.res.Budgeted = true
			if fixed {
				e.res.EnumComplete = false
			}
			continue
		}
		if si.herr != "" {
			e.res.Errors = append(e.res.Errors, si.herr)
			if fixed {
				e.res.EnumComplete = false
			}
			continue
		}
		e.res.Sequences++
		e.res.RefStops += len(si.stops)
		if e.res.FirstSeed == 0 {
			e.res.FirstSeed = si.seed
		}
		e.res.LastSeed = si.seed
		for _, op := range si.ops {
			e.res.Probes["store_"+op]++
		}
		e.res.Probes["initial_dir_"+strings.TrimPrefix(strings.Split(si.shape, ",")[0], "init=")]++
		cs := si.cases()
		if fixed {
			e.res.EnumTotal += len(cs)
		}
		for _, c := range cs {
			jobs = append(jobs, job{si, c})
		}
	}
	outs := make([]*caseOut, len(jobs))
	e.p.each(len(jobs), func(w *worker, i int) {
		if time.Now().After(e.deadline) {
			return
		}
		outs[i] = w.runCase(jobs[i].si, jobs[i].id)
	})
	for i, co := range outs {
		if co == nil {
			e.res.Budgeted = true
			if fixed {
				e.res.EnumComplete = false
			}
			continue
		}
		e.caseNo++
		if co.herr != "" {
			if len(e.res.Errors) < 50 {
				e.res.Errors = append(e.res.Errors, co.herr)
			}
			if fixed {
				e.res.EnumComplete = false
			}
			continue
		}
		e.res.Runs++
		if fixed {
			e.res.EnumRuns++
		} else {
			e.res.RandomRuns++
		}
		e.res.Steps += int64(co.steps)
		if co.fault != "" {
			e.res.Faults[co.fault]++
		}
		for _, p := range co.probes {
			e.res.Probes[p]++
		}
		if co.nontriv {
			e.res.Nontrivial++
			if co.cover != "" {
				e.distinct[fnv64(co.cover)] = struct{}{}
			}
			if len(e.res.Samples) < 3 && (e.res.Nontrivial == 1 || e.res.Nontrivial == 40 || e.res.Nontrivial == 333) {
				e.res.Samples = append(e.res.Samples, Sample{RunSeed: co.id.seed, Enum: fixed, Draws: 5, Trace: co.trace})
			}
		}
		if co.sig != "" {
			if k, ok := e.known.match(co.sig); ok {
				e.res.Known[k]++
				continue
			}
			if _, seen := e.viol[co.sig]; !seen {
				e.viol[co.sig] = co
				e.violSeq[co.sig] = jobs[i].si
				e.violIdx[co.sig] = e.caseNo - 1
				e.order = append(e.order, co.sig)
			}
		}
	}
}

// minimise drops stores that are not needed for the violation, then confirms by two more runs.
func (e *engine) minimise(w *worker, si *seqInfo, co *caseOut, idx int) ViolationReport {
	rep := ViolationReport{Sig: co.sig, Msg: co.msg, RunSeed: co.id.seed, RunIndex: idx, Enum: si.fixed,
		Tape: co.id.tape(len(si.stops)), Trace: co.trace, LogHash: fnvLines(co.trace), OrigDraws: 5, MinDraws: 5}
	cur, curSi, curOut := co.id, si, co
	sp := si.stops[co.id.stop]
	if sp.Store >= 0 {
		keepPos := si.poss[sp.Store]
		for q := 3; q >= 0; q-- {
			if q == keepPos || cur.seed&(1<<uint(q)) == 0 {
				continue
			}
			cand := cur.seed &^ (1 << uint(q))
			if cand&15 == 0 {
				continue
			}
			rep.Candidates++
			nsi := w.prepare(cand)
			if nsi.herr != "" {
				continue
			}
			// the same stop point of the same store in the shorter sequence
			ni := -1
			for j, p := range nsi.poss {
				if p == keepPos {
					ni = j
				}
			}
			target := -1
			for _, s := range nsi.stops {
				if s.Store == ni && s.Ord == sp.Ord && s.Sys == sp.Sys {
					target = s.Idx
				}
			}
			if ni < 0 || target < 0 {
				continue
			}
			nid := caseID{cand, target, cur.action, cur.param}
			no := w.runCase(nsi, nid)
			if no.herr == "" && no.sig == co.sig {
				cur, curSi, curOut = nid, nsi, no
			}
		}
	}
	// confirm twice
	r1 := w.runCase(curSi, cur)
	r2 := w.runCase(curSi, cur)
	if r1.sig == co.sig && r2.sig == co.sig && r1.herr == "" && r2.herr == "" {
		h1, h2 := fnvLines(r1.trace), fnvLines(r2.trace)
		rep.Confirmed = h1 == h2
		if !rep.Confirmed {
			e.addErr(fmt.Sprintf("sequence %d: two replays of the minimised case give %s but different traces (%s vs %s)", cur.seed, co.sig, h1, h2))
		}
		rep.RunSeed = cur.seed
		rep.Tape = cur.tape(len(curSi.stops))
		rep.Msg = r1.msg
		rep.Trace = r1.trace
		rep.LogHash = h1
		_ = curOut
	} else {
		e.addErr(fmt.Sprintf("sequence %d: violation %s did not reproduce when the case was run again (got %q/%q, %s %s)", cur.seed, co.sig, r1.sig, r2.sig, r1.herr, r2.herr))
	}
	return rep
}

func main() {
	os.Exit(realMain())
}

func realMain() int {
	child := flag.String("child", "", "child test binary (pkg/client/assets + harness)")
	tier := flag.String("tier", "quick", "quick|thorough")
	seed := flag.Uint64("seed", 1, "base seed")
	budget := flag.Int("budget", 0, "wall-clock budget in seconds (0: 120 quick, 1500 thorough)")
	workers := flag.Int("workers", runtime.NumCPU(), "parallel tracers")
	scratch := flag.String("scratch", "", "scratch directory")
	knownPath := flag.String("known", "", "known_findings.txt")
	outPath := flag.String("out", "", "result JSON")
	replay := flag.String("replay", "", "replay file")
	nseq := flag.Int("seqs", 0, "number of seeded sequences (0: 1 quick, 4000 thorough; the budget usually ends the thorough tier earlier)")
	flag.Parse()
	if runtime.GOOS != "linux" || runtime.GOARCH != "amd64" {
		fmt.Fprintln(os.Stderr, "ptracefi: linux/amd64 only")
		return 2
	}
	if *child == "" || *outPath == "" || *scratch == "" {
		fmt.Fprintln(os.Stderr, "ptracefi: -child, -scratch and -out are required")
		return 2
	}
	abs, err := filepath.Abs(*child)
	if err != nil {
		fmt.Fprintln(os.Stderr, "ptracefi:", err)
		return 2
	}
	sc, err := filepath.Abs(*scratch)
	if err == nil {
		err = os.MkdirAll(sc, 0o755)
	}
	if err == nil {
		sc, err = filepath.EvalSymlinks(sc)
	}
	if err != nil {
		fmt.Fprintln(os.Stderr, "ptracefi: scratch:", err)
		return 2
	}
	if *workers < 1 {
		*workers = 1
	}
	if *budget <= 0 {
		*budget = map[string]int{"quick": 120, "thorough": 1500}[*tier]
		if *budget == 0 {
			*budget = 120
		}
	}
	t0 := time.Now()
	var childRuns atomic.Int64
	res := &Result{Prop: prop, Tier: *tier, BaseSeed: *seed, NShards: 1, Faults: map[string]int{}, Probes: map[string]int{}, Known: map[string]int{},
		Violations: []ViolationReport{}, Samples: []Sample{}, Errors: []string{}, MoreSigs: []string{},
		Real: []string{
			"pkg/client/assets of the current tree (AssetsSetDir, SetClientConf, SetDecoys, SetPubkey, SetGeneration, SetPhantomSubnets, saveClientConf, readConfigs), unmodified, in a real process",
			"the Go runtime and package os of the toolchain, the Linux kernel and the file system of the scratch directory",
			"process kill: a real SIGKILL to the whole thread group at a ptrace syscall stop; restart: a second real process loading the directory through AssetsSetDir",
		},
		Stub: []string{
			"write failures are simulated at the syscall boundary: the syscall is not executed and returns -errno (close: executed, return value replaced); the kernel's own partial effects of a genuinely failing syscall are not modelled",
			"torn and short writes are simulated by shortening the byte count of one write(2)",
			"no power loss: data the kernel accepted is visible after the kill (page-cache durability, fsync ordering and directory-entry durability are outside this check)",
		},
		Rule: "non-trivial = the injection fired at a stop point inside a store; distinct = (sequence shape, store index, syscall and file at the stop, action, parameter, outcome: which configuration the file holds / whether the store failed / memory state)",
		Assume: []string{
			"the relevant syscall sequence of the sequential child is deterministic (verified: three reference runs per sequence must give the identical stop-point list, file snapshots and reports, and the faulted run must meet the expected syscall at the chosen stop)",
			"proto.Marshal is deterministic within one build of the child (verified per sequence: the file after every fault-free store equals the marshalling of the configuration in memory)",
			"stores through mmap or io_uring would not be intercepted; the tracer reports a harness error if the child maps an asset file shared+writable or uses io_uring inside a store",
			"fcntl and epoll_ctl on asset files (issued by package os when opening) are not stop points: they do not change the file system",
			"for SetDecoys, SetPubkey, SetGeneration and SetPhantomSubnets no in-memory rollback is demanded; after such a failed store later stores are compared with the child's own in-memory configuration",
			"a store that returns nil although an injected failure hit a write-side syscall (open for writing, write, fsync, close of a written descriptor, rename, ...) which it did not retry is reported as error-swallowed even when the file is intact: after a real failure of that kind the data need not be on disk",
			"a store that returns an error although the replacement already took effect (failure injected after the commit point of the reference run) may leave the new configuration on disk",
		},
	}
	write := func() int {
		res.WallS = time.Since(t0).Seconds()
		res.ChildRuns = childRuns.Load()
		b, _ := json.MarshalIndent(res, "", " ")
		if err := os.WriteFile(*outPath, append(b, '\n'), 0o644); err != nil {
			fmt.Fprintln(os.Stderr, "ptracefi: cannot write result:", err)
			return 2
		}
		return 0
	}
	if _, err := os.Stat(abs); err != nil {
		fmt.Fprintln(os.Stderr, "ptracefi: child binary:", err)
		return 2
	}
	if err := os.MkdirAll(sc, 0o755); err != nil {
		fmt.Fprintln(os.Stderr, "ptracefi:", err)
		return 2
	}
	p, err := newPool(*workers, sc, abs, &childRuns)
	if err != nil {
		fmt.Fprintln(os.Stderr, "ptracefi:", err)
		return 2
	}
	defer p.close()

	if *replay != "" {
		b, err := os.ReadFile(*replay)
		var rf ReplayFile
		if err == nil {
			err = json.Unmarshal(b, &rf)
		}
		if err != nil {
			res.Errors = append(res.Errors, "replay file: "+err.Error())
			return write()
		}
		id, err := caseFromTape(rf.Tape)
		if err != nil {
			res.Errors = append(res.Errors, "replay file: "+err.Error())
			return write()
		}
		var co *caseOut
		var si *seqInfo
		p.each(1, func(w *worker, _ int) {
			si = w.prepare(id.seed)
			if si.herr == "" {
				co = w.runCase(si, id)
			}
		})
		rr := &ReplayResult{WantSig: rf.Sig, WantHash: rf.LogHash}
		if si.herr != "" {
			res.Errors = append(res.Errors, si.herr)
		} else {
			if co.herr != "" {
				res.Errors = append(res.Errors, co.herr)
			}
			for _, l := range co.trace {
				fmt.Println(l)
			}
			rr.GotSig, rr.Msg, rr.GotHash = co.sig, co.msg, fnvLines(co.trace)
			rr.Reproduced = co.herr == "" && rr.GotSig == rr.WantSig && rr.GotSig != "" && (rf.LogHash == "" || rr.GotHash == rr.WantHash)
			res.Runs = 1
			res.Steps = int64(co.steps)
			res.FirstSeed, res.LastSeed = id.seed, id.seed
		}
		res.Replay = rr
		return write()
	}

	e := &engine{p: p, res: res, known: loadKnown(*knownPath), distinct: map[uint64]struct{}{}, deadline: t0.Add(time.Duration(*budget) * time.Second),
		viol: map[string]*caseOut{}, violSeq: map[string]*seqInfo{}, violIdx: map[string]int{}}
	res.EnumComplete = true
	e.runBatch(fixedSeqs(), true)
	n := *nseq
	if n == 0 {
		n = 1
		if *tier == "thorough" {
			n = 4000
		}
	}
	batch := 2 * *workers
	for i := 0; i < n && len(e.viol) == 0; i += batch {
		if time.Now().After(e.deadline) {
			res.Budgeted = true
			break
		}
		var seeds []uint64
		for j := i; j < n && j < i+batch; j++ {
			seeds = append(seeds, mix(*seed, "C20/seq", uint64(j))&seedMask)
		}
		e.runBatch(seeds, false)
	}
	// minimise + confirm the first case of every new signature (in parallel, one worker each)
	const maxReported = 8
	if len(e.order) > maxReported {
		// a broken store fails in many ways at once; minimise and report the first few signatures, list the others
		res.MoreSigs = append(res.MoreSigs, e.order[maxReported:]...)
		e.order = e.order[:maxReported]
	}
	reps := make([]ViolationReport, len(e.order))
	p.each(len(e.order), func(w *worker, i int) {
		sig := e.order[i]
		reps[i] = e.minimise(w, e.violSeq[sig], e.viol[sig], e.violIdx[sig])
	})
	res.Violations = append(res.Violations, reps...)
	res.Distinct = len(e.distinct)
	hs := make([]uint64, 0, len(e.distinct))
	for h := range e.distinct {
		hs = append(hs, h)
	}
	sort.Slice(hs, func(i, j int) bool { return hs[i] < hs[j] })
	buf := make([]byte, 8*len(hs))
	for i, h := range hs {
		binary.LittleEndian.PutUint64(buf[8*i:], h)
	}
	res.DistinctFile = *outPath + ".distinct"
	if err := os.WriteFile(res.DistinctFile, buf, 0o644); err != nil {
		res.DistinctFile = ""
	}
	return write()
}
