#!/usr/bin/env python3
"""usage: mkmeta.py <seeded-id> [<PROP to run the check of>] [note]

Writes /verif/seeded/<id>/meta.json from the sub-agent's description (agent_meta.json), the
independent confirmation (confirm.log, written by confirm_mutant.sh) and a fresh run of the
property's quick check against the patch (try_mutant.sh: apply to /repo, check, revert)."""
import json, os, re, subprocess, sys

VERIF = os.path.dirname(os.path.dirname(os.path.abspath(__file__)))
sid = sys.argv[1]
d = os.path.join(VERIF, "seeded", sid)
am = json.load(open(os.path.join(d, "agent_meta.json")))
prop = am.get("property") or sid.split("-")[0]
checkprop = sys.argv[2] if len(sys.argv) > 2 else prop
note = sys.argv[3] if len(sys.argv) > 3 else ""
confirm = open(os.path.join(d, "confirm.log")).read().strip().splitlines()[-1]
env = dict(os.environ, TAILN="400")
p = subprocess.run([os.path.join(VERIF, "bin", "try_mutant.sh"), os.path.join(d, "patch.diff"), checkprop],
                   capture_output=True, text=True, env=env)
out = p.stdout + p.stderr
caught = re.search(r"^VIOLATION property=%s " % checkprop, out, re.M) is not None
sig = ""
m = re.findall(r"(?:VIOLATION|violation|verdict:) (%s/[^\s:]+):" % checkprop, out)
if m:
    sig = m[-1]
if not caught and "DOES NOT APPLY" in out:
    print("PATCH DOES NOT APPLY", sid)
    sys.exit(3)
meta = {
    "property": prop,
    "title": am.get("title", ""),
    "breaks_clause": am.get("breaks_clause", ""),
    "needs_to_manifest": am.get("needs_to_manifest", ""),
    "files_changed": am.get("files_changed", []),
    "produced_by": "fresh sub-agent given only the property text and a scratch worktree (nothing from /verif)",
    "independent_confirmation": {
        "command": "bin/confirm_mutant.sh (fresh worktree of /repo HEAD: apply, build all modules, full suite, demonstration with and without the patch)",
        "result": confirm,
        "note": "",
    },
    "check": {
        "command": "bin/try_mutant.sh seeded/%s/patch.diff %s   (git -C /repo apply; ./bin/check %s --tier quick; git -C /repo checkout -- .)" % (sid, checkprop, checkprop),
        "caught": caught,
        "signature": sig,
        "note": note,
    },
}
if "unexpected_suite_failures=0" not in confirm:
    meta["independent_confirmation"]["note"] = "see recheck note"
json.dump(meta, open(os.path.join(d, "meta.json"), "w"), indent=1)
print(sid, "caught=%s" % caught, sig)
