"""ext_c20 — orchestration of the external engine of property C20.

C20 ("the client's stored ClientConf is replaced atomically") is not checked
inside the simulator but by /verif/bin/ptracefi, a ptrace-based tracer that
runs the test binary of pkg/client/assets (current tree + overlaid harness file
zz_verif_c20_test.go) as a child process and kills it / tears its writes /
fails its file-system syscalls at every stop point of seeded store sequences.

run() is called by /verif/bin/check (run_external) with the already imported
orchestrator module as first argument; it returns the process exit status:
  0 held, 1 VIOLATION (replay written and confirmed), 2 no verdict.
"""
import hashlib, json, os, subprocess, time


def _tool(check):
    tool = os.path.join(check.VERIF, "bin", "ptracefi")
    src = os.path.join(check.VERIF, "cmd", "ptracefi", "main.go")
    stale = not os.path.exists(tool)
    if not stale and os.path.exists(src) and os.path.getmtime(src) > os.path.getmtime(tool):
        stale = True
    if stale:
        check.build_tools()
    if not os.path.exists(tool):
        check.die2("ptracefi is missing and could not be built")
    return tool


def _ptracefi(check, tool, binary, tier, seed, budget, workers, scratch, tag, extra, timeout):
    """One ptracefi process. Returns (result dict or None, stdout, trouble string)."""
    out = os.path.join(scratch, "c20.%s.json" % tag)
    work = os.path.join(scratch, "c20.%s.d" % tag)
    os.makedirs(work, exist_ok=True)
    cmd = [tool, "-child", binary, "-tier", tier, "-seed", str(seed), "-budget", str(budget), "-workers", str(workers),
           "-scratch", work, "-known", os.path.join(check.VERIF, "known_findings.txt"), "-out", out] + extra
    try:
        p = subprocess.run(cmd, capture_output=True, text=True, errors="replace", timeout=timeout)
    except subprocess.TimeoutExpired:
        return None, "", "ptracefi exceeded the wall-clock limit of %ds" % timeout
    if p.returncode != 0 or not os.path.exists(out):
        return None, p.stdout, "ptracefi exited with status %s\n%s" % (p.returncode, (p.stdout + p.stderr)[-6000:])
    try:
        return json.load(open(out)), p.stdout, ""
    except Exception as e:  # noqa
        return None, p.stdout, "ptracefi result unreadable: %s" % e


def _stable(res):
    """The part of a result that must be identical between processes."""
    r = dict(res)
    for k in ("wall_s", "distinct_file"):
        r.pop(k, None)
    return json.dumps(r, sort_keys=True)


def run(check, a, prop, spec, tier, seed, scratch, t0):
    log = check.log
    sg = check.prepare(scratch)
    binary = check.build_test(scratch, prop)
    tool = _tool(check)
    tbuild = time.time() - t0
    known, _ = check.load_known(prop)
    budget = a.budget if getattr(a, "budget", None) is not None else spec["budget"][tier]
    workers = getattr(a, "shards", None) or check.NCPU
    extra = []
    if getattr(a, "runs", None) is not None:
        extra += ["-seqs", str(a.runs)]

    # ---- replay of a recorded case
    if getattr(a, "replay", None):
        rp = os.path.abspath(a.replay)
        res, out, trouble = _ptracefi(check, tool, binary, tier, seed, budget, 1, scratch, "replay", ["-replay", rp], 600)
        if trouble or not res or not res.get("replay"):
            check.die2("replay run failed", trouble + json.dumps(res)[:3000])
        rr = res["replay"]
        log(out[-8000:])
        log("REPLAY property=%s want=%s got=%s log_hash want=%s got=%s" % (prop, rr["want_sig"], rr["got_sig"], rr["want_log_hash"], rr["got_log_hash"]))
        herrs = res.get("harness_errors") or []
        if rr["reproduced"]:
            log("VIOLATION property=%s replay=%s" % (prop, rp))
            return 1
        for e in herrs[:5]:
            log("CHECK-ERROR:", e[:6000])
        log("replay did not reproduce the recorded violation")
        return 0 if not rr["got_sig"] and not herrs else 2

    # ---- determinism self-test: the same seed in several processes with different parallelism
    if getattr(a, "selftest", False):
        outs = []
        for i, w in enumerate((4, 9, 16)):
            res, _, trouble = _ptracefi(check, tool, binary, tier, seed, budget, w, scratch, "self%d" % i, extra, budget + 600)
            if trouble or not res:
                check.die2("selftest run failed", trouble)
            if res.get("harness_errors"):
                check.die2("selftest run reported harness errors", "\n".join(res["harness_errors"][:5]))
            outs.append(res)
        if len(set(_stable(r) for r in outs)) != 1:
            for k in sorted(outs[0]):
                if k in ("wall_s", "distinct_file"):
                    continue
                if any(json.dumps(r.get(k), sort_keys=True) != json.dumps(outs[0].get(k), sort_keys=True) for r in outs[1:]):
                    log("first differing field: %s" % k)
                    break
            log("SELFTEST property=%s NONDETERMINISTIC across %d processes" % (prop, len(outs)))
            return 2
        log("SELFTEST property=%s deterministic: %d cases x %d processes (4/9/16 tracers) identical" % (prop, outs[0].get("runs", 0), len(outs)))
        return 0

    # ---- the check
    res, _, trouble = _ptracefi(check, tool, binary, tier, seed, budget, workers, scratch, "run", extra, budget + 900)
    wall = time.time() - t0
    troubles = [trouble] if trouble else []
    if not res:
        for e in troubles[:5]:
            log("CHECK-ERROR:", e[:6000])
        return 2
    herrs = list(res.get("harness_errors") or [])
    known_seen = dict(res.get("known") or {})
    bysig = {}
    for v in res.get("violations") or []:
        bysig.setdefault(v["sig"], v)
    if not getattr(a, "no_evidence", False):
        check.write_evidence(prop, tier, seed, [res], wall, list(bysig.values()), known_seen, {
            "build_s": round(tbuild, 1),
            "seamgen": sg.strip().splitlines(),
            "engine": "ptracefi: ptrace syscall-level kill / torn-write / errno injector on a real child process and file system",
            "sequences": res.get("sequences", 0),
            "reference_stop_points": res.get("reference_stop_points", 0),
            "child_processes": res.get("child_processes", 0),
            "shards": workers,
            "seeds": {"base": seed, "first_run_seed": res.get("first_run_seed"),
                      "derivation": "fixed sequence set, then splitmix64(base, 'C20/seq', index) & (2^60-1); a case is (sequence seed, stop index, action, parameter)"},
            "godebug": "child: GOMAXPROCS=1 GODEBUG=asyncpreemptoff=1; no synctest in this world",
        })
    for sig_prefix, text in known:
        if known_seen.get(sig_prefix):
            log("KNOWN-FINDING: property=%s %s (sig %s, seen in %d runs)" % (prop, text, sig_prefix, known_seen[sig_prefix]))
    rc = 0
    if bysig:
        os.makedirs(os.path.join(check.VERIF, "replays"), exist_ok=True)
        for n, (sig, v) in enumerate(sorted(bysig.items())):
            name = "%s-%d-%s.json" % (prop, v["run_seed"], hashlib.sha1(sig.encode()).hexdigest()[:8])
            path = os.path.join(check.VERIF, "replays", name)
            with open(path, "w") as f:
                json.dump({"property": prop, "signature": sig, "message": v["msg"], "run_seed": v["run_seed"], "tape": v["tape"],
                           "log_hash": v.get("log_hash", ""), "trace": v.get("trace", []),
                           "note": "sequence minimised with %d candidate sequences; case = (sequence seed, stop index, action, parameter)" % v.get("minimise_candidates", 0)},
                          f, indent=1)
                f.write("\n")
            # confirm in a fresh tracer process
            rres, _, rtrouble = _ptracefi(check, tool, binary, tier, seed, budget, 1, scratch, "confirm%d" % n, ["-replay", path], 600)
            ok = bool(rres) and (rres.get("replay") or {}).get("reproduced")
            log("violation %s: %s" % (sig, v["msg"][:2000]))
            for line in (v.get("trace") or [])[-25:]:
                log("   | " + line)
            if ok and v.get("replay_confirmed"):
                log("VIOLATION property=%s replay=%s" % (prop, path))
                rc = 1
            else:
                troubles.append("violation %s did not reproduce when replayed in a fresh process (%s %s)" % (
                    sig, json.dumps((rres or {}).get("replay"))[:500], rtrouble[:2000]))
    more = res.get("further_violation_sigs") or []
    if more:
        log("%d further violation signatures were seen and not minimised: %s" % (len(more), " ".join(more[:40])))
    if herrs or troubles:
        for e in herrs[:5] + troubles[:5]:
            log("CHECK-ERROR:", e[:6000])
        if rc == 0:
            return 2
    if rc == 0:
        log("OK property=%s tier=%s runs=%d sequences=%d stop_points=%d enum=%d/%d%s wall=%.1fs" % (
            prop, tier, res.get("runs", 0), res.get("sequences", 0), res.get("reference_stop_points", 0),
            res.get("enum_runs", 0), res.get("enum_total", 0), " (stopped by budget)" if res.get("stopped_by_budget") else "", wall))
    return rc
