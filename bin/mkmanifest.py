#!/usr/bin/env python3
"""Regenerates /verif/MANIFEST.json from the table below (kept next to the checks so the two stay in step)."""
import json, os, sys

VERIF = os.path.dirname(os.path.dirname(os.path.abspath(__file__)))
TECH = "deterministic simulation with fault injection"

CHECKS = {
 "C02": dict(cat="exploration", ref="5 C02",
   text="generated histories (register, duplicate, liveness flips, time, sweep) over 2-5 clients whose phantoms collide, with connects that are genuine flights or near misses (other phantom, other transport / prefix id / obfs4 handshake with the same secret, rejected or swept registration, flipped tag bits, truncation, random; a duplicate that names another prefix id; a genuine flight arriving after the registration expired and was swept while the connection was already open) through the real station; a reference registry decides must-reject / must-match and the dial seam attributes a match to one registration by its unique covert address",
   note="trusted: reference registry model, simnet, synctest clock; expired-not-yet-swept and re-registration after rejection are don't-cares; byte-stream space is sampled",
   tech=TECH + " (history generation through the real station, reference model, dial-seam attribution)"),
 "C03": dict(cat="exploration", ref="5 C03",
   text="generated probe streams (random, constant fills, static prefixes + garbage, look-alikes, bit-flipped genuine flights of registered clients, threshold lengths) under generated segmentation, pacing and prober behaviour against the real connection handler, transports and registry; monitors: no byte written, no return before 5 s / after 10 s, handler keeps reading; every run is repeated as a twin with random content and must react identically",
   note="trusted: simnet, synctest clock, seamgen overlay; the accept loop / original-destination lookup of handleNewConn is re-implemented by the harness; input space is sampled",
   tech=TECH + " (simulated TCP segmentation/pacing/clock, seeded search, differential twin run)"),
 "C04": dict(cat="exploration", ref="5 C04",
   text="for min and every prefix id x flush policy x port mode all single cuts (offsets 1..89) of the real client's first flight + early data are enumerated, all cut pairs for min and a seed-rotated twelfth of the prefix parameter sets (thorough: all); generated runs add 1-3 concurrent clients (incl. obfs4 with the real interactive handshake), k-cut segmentations, pacing, early data up to 64 KiB and co-registrations; oracle: echo host got exactly the application bytes, client got the echo, one dial, registration still matchable after 11 min + sweep; the second connection is, in a third of the runs, a one-way transfer of a minute (upload into a silent covert, download to a silent client); the station holds 0-2 older private keys in front of the one the clients use; a connection to the phantom while the registration is still being validated (worker inside the liveness probe) before the client connects; hand-built obfs4 client handshakes with the minimum / maximum padding length the protocol allows",
   note="trusted: simnet, synctest clock, seamgen overlay, echo actor; obfs4's 2-cut space and the pacing space are sampled; accept-loop glue re-implemented",
   tech=TECH + " (segmentation enumeration + seeded schedule/pacing search through the real station)"),
 "C05": dict(cat="fault_enumeration", ref="5 C05",
   text="every single fault (connection end x operation kind x operation index < 6 x error shape, plus dial failures) over eight relay workloads is enumerated against the real Proxy/halfPipe under simulator-chosen I/O interleavings; pairs of faults and generated workloads are sampled (thorough: pairs enumerated for three workloads); an abortive close (SO_LINGER 0, modelled by the simulated connection through the tcpconn seam) that throws away accepted bytes is a byte-count violation; when the relay directions ran, both connections must be closed at the instant Proxy returns",
   note="trusted: simnet's model of TCP errors (OpError/SyscallError shapes), the synctest fake clock, the seamgen overlay; interleavings are sampled, not enumerated",
   tech=TECH + " (fault enumeration + seeded schedule search over parked I/O operations)"),
 "C06": dict(cat="exploration", ref="5 C06",
   text="generated policies (blocklists, allowlists, domain patterns), replaced by configuration reloads between registrations, x covert strings from a grammar of textual address forms x scripted resolver answers that change between lookups; every registration goes through the real ingest pipeline and is followed by a genuine connection through the real station; refused sessions retry and admitted sessions re-register later with another covert string; an independent net/netip evaluator judges each string that reaches the dial seam (literal, non-empty host, permitted, not a blocked domain, resolved exactly once at admission, dialled = checked, permitted well-formed literal accepted unchanged); registrations of a connecting transport (the station dials the covert by itself once its Connect succeeded); blocklists with nested, overlapping and duplicate entries",
   note="trusted: the independent evaluator; literals and the empty host are resolved by the real net.ResolveIPAddr (no DNS), names by the scripted resolver; the textual address space is sampled, not enumerated; policy as of admission time",
   tech=TECH + " (scripted faulty resolver as third party, admission->dial history through the real station, independent oracle at the dial seam)"),
 "C07": dict(cat="exploration", ref="5 C07",
   text="the admission decision table is driven through the real ingest pipeline: transport x source x each of 22 ways to break exactly one admission condition (or to spell a default out) is enumerated as a single message, combinations / duplicates / share-over-API settings are sampled; an executable admission model written from the property text decides per family; observables: GetRegistrations(phantom), New announcements, liveness probe calls, peer-API posts (count, prescanned marking, only after liveness)",
   note="trusted: the admission model (from the property text), recorder stubs for liveness / peer API / detector; messages whose completeness the property leaves open are not generated; repeats of rejected messages are don't-cares",
   tech=TECH + " (decision table through the simulated environment: liveness verdicts, peer delivery, duplicates; executable model as oracle)"),
 "C08": dict(cat="exploration", ref="5 C08",
   text="all histories up to length 3 (thorough 6, bounded per root) over a 12-operation alphabet are enumerated and long random histories sampled against the real registry under the simulated clock, compared after every step with an expiry reference model; two operations are a sweep raced by a connection handler (lookup, then activation) and a sweep raced by a re-registration, each as two tasks whose interleaving at the registry's lock operations the tape decides (systematic part: at most 2 preemptions per history); additional population (real main() of cmd/application as a task of the simulation, DESIGN 9.2): registrations, connections and idle periods of up to 7 h 15 min against the running station, whose own 3-minute sweeper goroutine is the only thing that expires anything; a registration 65 min past its lifetime must be gone, a younger one must still be there; a flood scenario: 5000-11000 unused registrations within a minute and half as many nine minutes later, one sweep at 11 min 10 s must leave exactly the second flood",
   note="trusted: synctest fake clock; the reference model (30 lines) written from the property text; ages within 1 ms of a threshold are don't-cares; for a registration that is about to expire while a connection arrives either outcome of the race is accepted (removed entirely, or kept as used)",
   tech=TECH + " (simulated clock, history enumeration + seeded search, reference model)"),
 "C14": dict(cat="exploration", ref="5 C14",
   text="purity under schedules: 2-32 concurrent Select / SelectPhantom calls on one shared selector with every math/rand global call and lock as a scheduling point; each concurrent result must equal the same call executed alone before and after, and every returned value is read again after the later selections (a result must not change after it was returned); all schedules of 2 tasks (bounded preemptions for 3-4 tasks) are enumerated for 12 small scenarios, larger ones sampled; containment (family, inside a configured subnet of the generation, port flag) is asserted on every result over generated configurations incl. /32, /128, leading-zero networks, overlaps, zero weights, and an offset sweep of small subnets; a generation replaced / removed through the selector's own API after it has served selections (results must follow the configuration in force and equal those of a selector built from scratch); in half of the random runs the concurrent phase runs on a selector that has never been used",
   note="containment is input sampling and labelled so; the draw inside mroth/weightedrand's Chooser.Pick is not a yield point (third-party module), so a wrong group pick under interleaving is under-approximated; an IPv4 network written ::ffff:a.b.c.d/(96+n) is read as the IPv4 network a.b.c.d/n",
   tech=TECH + " (lock-level / rand-level cooperative scheduler, schedule enumeration + seeded search, serial-result oracle)"),
 "C16": dict(cat="exploration", ref="5 C16",
   text="four populations: (c) byte stream - every script of <= 3 messages (thorough 4) over {0,1,2,max-1,max,heartbeat} x cyclic read sizes x error variant x pace below the real hbConn/hbClient + SCTPConn is enumerated (1.46 M cases quick); (d) flow control (one writer, and 2-6 writers on one connection as scheduler tasks: bounded buffer, no starvation once the network drains) and heartbeat watchdog under scripted drain rates, jitter and loss; (b) routing: 2-8 (thorough 32) dial/accept pairs on one real Listener with real pion DTLS handshakes over simulated datagram links, distinct / equal / unregistered secrets, cancellations at tape-chosen points, the listener's locks as scheduling points; (a) handshake <=> same secret incl. certificate derivation across midnight and datagram faults",
   note="trusted: pion dtls/sctp internals run uninstrumented inside the bubble (their goroutines become tasks only when they enter the listener's locks); the datagram simnet lives in the harness; 'same secret => completes' is only demanded when no datagram fault fired",
   tech=TECH + " (script enumeration below the real stream stack, lock-level scheduling of the listener, simulated datagram network with loss / duplication / delay, simulated clock for the watchdog)"),
 "C17": dict(cat="fault_enumeration", ref="5 C17",
   text="all single faults: outcome class (no registration, no transport, found via min/prefix/obfs4, transport error) plus connecting-transport registrations whose Connect fails with DTLS-shaped errors or is relayed, x client family (IPv4, IPv6, v4-mapped) x PROXY-header flag x 17 operation sites on the client connection, the dial and the covert connection x every error shape of that operation; pairs of faults and registration-path events sampled; LOG_CLIENT_IP unset or spelled out as a false value; everything the process writes to stdout/stderr/std logger is captured and searched for every textual form of the client address; socket-option calls on the accepted connection fail with OpErrors (fault kind sockopt); the connection a connecting transport returns wraps the errors of the connection below (%w), as a layered transport does",
   note="trusted: simnet's error shapes mirror the net package's (OpError text with both endpoints); the capture redirects os.Stdout/os.Stderr before any logger is created; statistics printers are exercised under C19, not here",
   tech=TECH + " (fault enumeration over I/O call sites x error shapes with log capture)"),
 "C18": dict(cat="exploration", ref="5 C18",
   text="all 5-operation histories (thorough: 12) over {query x3 addresses, flip host, advance past either lifetime, ClearExpiredCache} for map and LRU x {both, live only, non-live only} x capacities 0..2 are enumerated and long random histories with independently generated Config fields sampled, under the simulated clock with a scripted probe; concurrent part: every schedule with <= 3 preemptions for 8 small scenarios at the package's lock operations and probes, plus random ones; oracle: measurement-history model (no stale / flipped / unmeasured cached answer), LRU recency model (evicted entries not served), capacity bound at every quiescent point, probe called once; the auxiliary stress run (quick: 6 processes x 120 iterations) has iterations whose verdicts expire while it runs, with clean-up goroutines running beside insertions and evictions",
   note="trusted: measurement-history and recency models; golang-lru is not instrumented (its eviction callback runs after the library releases its own lock at the pinned version - checked at start-up, with a suppress path otherwise); an age of exactly the lifetime is judged (must be measured again), ages strictly between the lifetime and lifetime + 1 ms are don't-cares; cache hits are never demanded; an auxiliary free-running stress run under the race detector (capacity oracle at quiescent ends, statistical) covers switches inside critical sections, which the lock-level scheduler does not produce",
   tech=TECH + " (simulated clock, history enumeration, lock-level scheduler with bounded-preemption enumeration, reference models)"),
 "C19": dict(cat="exploration", ref="5 C19",
   text="generated TOML configurations (every optional key set / unset / zero / malformed, list entries incl. malformed CIDRs and regular expressions, the shipped app_config.toml verbatim) and subnet files through the real ParseConfig / NewRegistrationManager / liveness New; for accepted ones: three epochs of every stats module's PrintAndReset with and without traffic, a sweep, and reload sequences of length <= 4 mixing valid, malformed and unreadable files; oracles: no panic, every list entry enforced (dropped entries detected by probing the intended range), reload differential against a fresh manager (failed part unchanged, successful part replaced); single reloads and one-key alternatives on the shipped config are enumerated; the scenario runs as one scheduler task (leaked locks are deadlock verdicts), station goroutine panics are verdicts, client library versions vary in traffic, the GeoIP database must be usable after every reload; a quarter of the registrations is still in flight in the ingest workers while the statistics printers run (lock operations of both are scheduling points); list pools contain bare IPv4 and IPv6 addresses; additional population (real main() of cmd/application as a task of the simulation, DESIGN 9.2): SIGHUP against the running main() with good configurations, broken TOML, a missing / empty file, an unparseable list entry and a broken phantom-subnet file; the covert policy in force afterwards (judged by admitting probe registrations) must be that of the last configuration that loaded, statistics epochs with the modules main() registered, no panic anywhere; domain patterns with case-sensitive class escapes",
   note="in the main population the SIGHUP glue of cmd/application/main.go is the real one (the large generated-configuration population re-implements it in 7 harness lines); connManager's stats module is exercised only in the main population, and GeoIP databases are not exercised; a panic or exit during the INITIAL load counts as a failed load",
   tech=TECH + " (reload / file-fault sequences under the simulated clock, differential probes, panic monitor)"),
 "C20": dict(cat="fault_enumeration", ref="5 C20", engine="ptracefi",
   text="a real child process built from the current pkg/client/assets performs seeded store sequences under ptrace; for a fixed set of sequences every file-system syscall stop point is enumerated with kill-at-entry, kill-at-exit, torn write + kill, each errno and short write; the directory is then loaded by a fresh process and compared byte-for-byte with the old/new configuration, and the in-memory rollback is checked; store children of sequences with an odd parameter seed initialise the singleton from another directory and then switch to the directory under test",
   note="trusted: the ptrace tracer's syscall classification (x86-64), determinism of the child's file-system syscall sequence (verified per sequence by three reference runs); power loss / page-cache durability is not modelled (the property speaks of process crash, kill or write failure)",
   tech=TECH + " (crash-point and syscall-error enumeration on a real process via ptrace)"),
 "C09": dict(cat="exploration", ref="5 C09",
   text="lock-level scheduler over pkg/station/lib: every lock operation, liveness probe and resolver lookup is a scheduling point; every schedule with <= 2 preemptions is enumerated for three small scenarios (duplicate ingest, same identifier with acceptable + forbidden covert, ingest vs sweep vs lookup) and seven scenarios (plus overload, shutdown with idle / busy input, reload) are sampled; oracles: one New per lifetime, visibility only after the registration's own admission, no lost regCount update, map bijection, no panic, deadlock from the wait-for graph, dropped == offered - accepted with a non-blocking distributor, bounded shutdown, porcupine linearizability of ingest histories; the data-race clause is covered by an auxiliary -race run (400 iterations in the quick tier, 3200 in the thorough tier); scheduling points also right after every release; stop requests during pool start-up and with registrations queued behind a large pool; panics of pipeline goroutines are verdicts; auxiliary race run over roomy and four-address phantom subnets, half of its iterations with microsecond lifetimes so that the sweeper expires registrations beside the workers; an Update published before the New of the same registration is a lost update; reloads that switch between blocklist and allowlist with a covert both policies refuse (must not be admitted under any interleaving); additional population (real main() of cmd/application as a task of the simulation, DESIGN 9.2): SIGINT / SIGTERM with a registration being probed and with registrations that keep arriving; main() must return within 120 simulated seconds, nothing may panic; every delivery carries its own time stamp",
   note="code between two lock operations runs atomically; third-party code is not instrumented; the auxiliary race run is statistical and outside the deterministic core (reported separately in the evidence); no known finding left (the unsynchronised OnReload was repaired in c8c3e7f)",
   tech=TECH + " (lock-level cooperative scheduler with emulated RWMutex, bounded-preemption enumeration + seeded search, porcupine; auxiliary race-detector stress)"),
 "C10": dict(cat="exploration", ref="5 C10",
   text="admitted registrations over every transport, both families, registrant forms (IPv4, 16-byte v4-mapped, IPv6, absent) and registrar overrides are driven through the real station; the real sendToDetector / clearDetector publish through a real go-redis client over a simulated connection into a RESP stub feeding a Go port of the detector's acceptance rules and session table; every payload must be accepted, describe its registration, request 10 min / 6 h; what the station would still match must be live in the model at every checked instant; Cleanup must empty the table; repeats of registrations, a UDP stand-in transport with old client library versions, a stop request while a worker is probing (main()-like stop sequence), a post-sweep clause (what the station still tracks must be live in the detector), a station crash is a verdict; activation with a stale object after expiry and sweep must publish nothing; in half of the runs the station builds its go-redis client itself (real initRedisClient through the redisnew seam), with redis-server refusing the very first dial in half of those; additional population (real main() of cmd/application as a task of the simulation, DESIGN 9.2): the messages the running station publishes are judged by the detector model; when main() has returned after a stop signal the last message must be a Clear and the model's table empty",
   note="trusted: the < 100-line Go port of src/sessions.rs (the Rust detector cannot be built here); no loss on the detector channel; expired-not-yet-swept registrations are don't-cares; message contents are sampled",
   tech=TECH + " (real publisher + redis client over simulated transport, executable detector model, simulated clock for lifetimes and restart)"),
 "C12": dict(cat="exploration", ref="5 C12",
   text="generated bidirectional requests (all transports / params / families / library versions, forged response and signature fields, overrides allowed or disabled) x registrar configurations (authenticated or not, parameter override sets, weighted subnet overrides, exclusions, percentages) x subnet files through the real RegProcessor; the forwarded bytes reach 1-2 real station parsers through a channel that duplicates, delays and reorders; three views (client, forwarded, station) must agree; a statistical sub-scenario checks that every non-zero-weight override subnet is used (miss probability < 1e-12); the unidirectional entry point with forged response fields and claimed sources; the scenario runs as one scheduler task (a leaked lock is a deadlock verdict); a concurrent sub-population (2-4 requests as tasks, every lock operation of the registrar a scheduling point): one forwarded message per answered request, carrying that request's secret and the response that client received",
   note="trusted: the ~40-line restatement of how the client library applies a RegistrationResponse around the real ClientTransports; the request/configuration space is sampled; the station never verifies the response signature itself (reported, not judged: no sentence of the property licenses an oracle for it)",
   tech=TECH + " (three-party agreement registrar -> faulty channel -> stations, seeded search, statistical clause with stated miss probability)"),
 "C13": dict(cat="exploration", ref="5 C13",
   text="all schedules with at most 2 preemptions at lock operations (and at the entry of the selector's Select) for 13 small request/reload scenarios (valid, missing and malformed subnet files; servable and unservable requests) are enumerated, larger ones sampled, on the real RegProcessor with emulated RWMutex semantics (writer preference); deadlock is decided from the wait-for graph, old-or-new-in-full from the returned addresses; afterwards a further request and reload must be served, a generation that only the old file has must be gone, and a panic in a request or reload task is a violation; a generation whose IPv6 subnets exist only in the second file (a dual-stack request of it either fails or is served from the new set in full); additional population (pkg/regserver/apiregserver): bidirectional / unidirectional API requests against ClientConf reloads (NewClientConf, the other half of the registrar's SIGHUP) as tasks over the server's emulated RWMutex, bounded-preemption enumeration of five small scenarios + seeded search; all must complete, a reload must be in force afterwards",
   note="trusted: the lock emulation's fidelity to sync.RWMutex; code between two lock operations runs atomically (unlocked shared accesses are not interleaved)",
   tech=TECH + " (lock-level cooperative scheduler, bounded-preemption schedule enumeration + seeded search)"),
}

NOT_APPLICABLE = {
 "C01": "pure function of its inputs (derivation agreement / pinned algorithm); no schedule, clock, fault or message to simulate",
 "C11": "input-space robustness of parsers; decided by fuzzing, nothing for a simulator to schedule or fault",
 "C15": "codec inversion is a pure function of the value; the loopback exchange is only a carrier",
}

# properties still being built are listed as not (yet) claimed so the manifest stays truthful
PENDING = {}

def main():
    allp = [json.loads(l)["id"] for l in open(os.path.join(VERIF, "properties.jsonl"))]
    checks = []
    for pid in allp:
        if pid not in CHECKS:
            continue
        c = CHECKS[pid]
        checks.append({
            "property_id": pid,
            "quick_cmd": "./bin/check %s --tier quick" % pid,
            "thorough_cmd": "./bin/check %s --tier thorough" % pid,
            "evidence_file": "/verif/evidence/%s.json" % pid,
            "replay_cmd_template": "./bin/check %s --replay {path}" % pid,
            "engine": c.get("engine", "sim"),
            "level_claimed": {"category": c["cat"], "text": c["text"], "design_ref": c["ref"]},
            "level_note": c["note"],
            "technique": c["tech"],
        })
    na = []
    for pid in allp:
        if pid in CHECKS:
            continue
        if pid in NOT_APPLICABLE:
            na.append({"property_id": pid, "reason": NOT_APPLICABLE[pid]})
        else:
            na.append({"property_id": pid, "reason": PENDING.get(pid, "not claimed yet: its simulator world is still being built (see DESIGN.md section 5); no check is registered, so nothing is asserted about it")})
    m = {
        "version": 1,
        "setup_cmd": "./bin/setup",
        "hooks": {
            "guard": "verif",
            "enable": "no source change in /repo: bin/check generates a build-time overlay (go test -overlay, -tags verif) from the current working tree: cmd/seamgen rewrites lock / go / net / math-rand / select / selected map-range / *net.TCPConn / redis.NewClient call sites and (rule wrap=) the four calls of cmd/application's main() that need the operating system (dtls.NewTransport, ZMQIngester.RunZMQ, connManager.acceptConnections, signal.Notify) of the instrumented packages to verif/sim/hook (or to a variable of the package's harness export file) and maps /verif/harness/** test files into the packages",
            "baseline_off_cmd": "for m in $(cat /w/out/gomods.txt); do MF=$(cd /repo/$m && . /w/out/goenv.sh && gomodflag); (cd /repo/$m && go test $MF -json -vet=off -count=1 -timeout 25m ./...); done",
            "source_commits": [],
            "add_only": True,
        },
        "engines": [
            {"name": "sim", "path": "/verif/sim", "serves_properties": [p for p in allp if p in CHECKS and CHECKS[p].get("engine", "sim") == "sim"],
             "kind_free_text": "deterministic simulator: choice tape + cooperative scheduler (testing/synctest bubble, emulated locks, parked I/O) + simulated network with fault plans; explore / minimise / replay driver"},
            {"name": "ptracefi", "path": "/verif/cmd/ptracefi", "serves_properties": [p for p in allp if p in CHECKS and CHECKS[p].get("engine") == "ptracefi"],
             "kind_free_text": "syscall-level crash / error injector on a real child process (ptrace)"},
        ],
        "checks": checks,
        "not_applicable": na,
        "notes": "Repairs of genuine defects found by these checks are 'fix:' commits in /repo and are listed as fixed: lines in /verif/known_findings.txt; see DESIGN.md.",
    }
    with open(os.path.join(VERIF, "MANIFEST.json"), "w") as f:
        json.dump(m, f, indent=1)
        f.write("\n")

if __name__ == "__main__":
    main()
