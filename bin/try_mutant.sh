#!/bin/sh
# usage: try_mutant.sh <patch.diff> <PROP> [check args...]  — applies the patch to /repo, runs the check, reverts.
P=$1; PROP=$2; shift 2
cd /repo || exit 3
if ! git apply --check "$P" 2>/dev/null; then
  if ! patch -p1 --dry-run -s < "$P" >/dev/null 2>&1; then echo "PATCH DOES NOT APPLY: $P"; exit 3; fi
  patch -p1 -s < "$P"
else
  git apply "$P"
fi
git diff --stat | tail -1
cd /verif && ./bin/check $PROP --no-evidence "$@" 2>&1 | tail -${TAILN:-12}
rc=$?
cd /repo && git checkout -- . && git clean -fdq -e '*.orig' >/dev/null 2>&1; find /repo -name '*.orig' -newer /verif/bin/try_mutant.sh -delete 2>/dev/null
git -C /repo status --short | head -3
