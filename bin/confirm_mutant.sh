#!/bin/bash
# usage: confirm_mutant.sh <mutant dir with patch.diff, demo*, meta.json> <seeded id>
# Confirms in a fresh scratch worktree of /repo: the patch applies and builds, the repository's test
# suite still passes (except the known always-failing test), the demonstration fails with the patch
# and passes without it. Copies the mutant to /verif/seeded/<id>/ and records what was run.
set -u
SRC=$1; ID=$2
WT=/tmp/confirm.$ID
OUT=/verif/seeded/$ID
rm -rf $WT; git -C /repo worktree add -q $WT HEAD || exit 3
mkdir -p $OUT; cp $SRC/patch.diff $OUT/; cp $SRC/meta.json $OUT/agent_meta.json 2>/dev/null
for f in $SRC/demo*; do cp -r $f $OUT/; done
cd $WT
LOG=$OUT/confirm.log; : > $LOG
if git apply --check $OUT/patch.diff 2>>$LOG; then git apply $OUT/patch.diff; else patch -p1 -s < $OUT/patch.diff >>$LOG 2>&1 || { echo "APPLY FAILED" | tee -a $LOG; git -C /repo worktree remove --force $WT; exit 3; }; git diff > $OUT/patch.diff; fi
echo "== build" >>$LOG
( go build ./... && (cd cmd/application && go build ./...) && (cd cmd/registration-server && go build ./...) ) >>$LOG 2>&1; BUILD=$?
echo "== suite (patched)" >>$LOG
( go test -vet=off -count=1 ./pkg/... ./internal/... ./proto/... 2>&1; (cd cmd/application && go test -vet=off -count=1 ./... 2>&1); (cd cmd/registration-server && go test -vet=off -count=1 ./... 2>&1) ) > $OUT/suite.log
FAILS=$(grep -E "^--- FAIL|^FAIL" $OUT/suite.log | grep -v "TestConjureLibConfigResolveBlocklisted" | grep -v "^FAIL$" | grep -v "FAIL	github.com/refraction-networking/conjure/pkg/station/lib" | wc -l)
echo "unexpected failures: $FAILS" >>$LOG
# demo
DEMO=$(ls $OUT/demo*.go 2>/dev/null | head -1)
PKGDIR=$(grep -ohE "(pkg|cmd|internal)/[A-Za-z0-9_/.-]+" $DEMO | head -1)
DEMODIR=${DEMODIR:-}
if [ -z "$DEMODIR" ]; then DEMODIR=$(python3 - "$OUT" <<'PY'
import json,sys,re,os
out=sys.argv[1]
d=None
try:
    m=json.load(open(out+'/agent_meta.json'))
    t=json.dumps(m)
    c=re.findall(r'((?:pkg|cmd|internal)/[A-Za-z0-9_/.-]+?)/?(?:demo|zz|[A-Za-z0-9_]*_test\.go)',t)
    if c: d=c[0]
    if not d:
        fc=m.get('files_changed') or []
        if fc: d=os.path.dirname(fc[0])
except Exception as e: pass
print(d or '')
PY
)
fi
echo "demo dir: $DEMODIR" >>$LOG
DEMORES="skipped"
if [ -n "$DEMODIR" ] && [ -d "$WT/$DEMODIR" ]; then
  cp $DEMO $WT/$DEMODIR/zz_demo_test.go
  MODDIR=$WT; case $DEMODIR in cmd/application*) MODDIR=$WT/cmd/application;; cmd/registration-server*) MODDIR=$WT/cmd/registration-server;; esac
  (cd $WT/$DEMODIR && go test -vet=off -count=1 -run 'C[0-9][0-9]|Demo|Mut' . ) > $OUT/demo_patched.log 2>&1; WITH=$?
  git apply -R $OUT/patch.diff
  (cd $WT/$DEMODIR && go test -vet=off -count=1 -run 'C[0-9][0-9]|Demo|Mut' . ) > $OUT/demo_clean.log 2>&1; WITHOUT=$?
  DEMORES="with_patch_exit=$WITH without_patch_exit=$WITHOUT"
fi
echo "build=$BUILD unexpected_suite_failures=$FAILS demo: $DEMORES" | tee -a $LOG
cd /; git -C /repo worktree remove --force $WT
