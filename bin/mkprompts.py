#!/usr/bin/env python3
"""usage: mkprompts.py <outdir> [<PROP> ...]

Writes <outdir>/<PROP>/PROMPT.txt for the mutation sub-agents (one per claimed property): the text of the
property (statement, quantifier, anchors), the task (two breaking changes that compile, pass the existing
suite and need something specific to manifest, each with a demonstration), and the titles of the changes
earlier waves produced for that property (so that new mechanisms are asked for). A sub-agent gets this file
and its own scratch worktree <outdir>/<PROP>/wt (git -C /repo worktree add --detach ...), nothing from /verif.
"""
import glob, json, os, sys

out = sys.argv[1]
only = set(sys.argv[2:])
props = {}
for l in open("/verif/properties.jsonl"):
    p = json.loads(l)
    props[p["id"]] = p
titles = {}
for d in sorted(glob.glob("/verif/seeded/*")):
    pid = os.path.basename(d).split("-")[0]
    try:
        titles.setdefault(pid, []).append(json.load(open(d + "/meta.json")).get("title", "")[:260])
    except Exception:
        pass
na = set(json.load(open("/verif/MANIFEST.json")).get("not_applicable_ids", [])) or {"C01", "C11", "C15"}
for pid, p in props.items():
    if pid in na or (only and pid not in only):
        continue
    os.makedirs(f"{out}/{pid}", exist_ok=True)
    a = p["anchors"]
    txt = f"""You are helping to evaluate a verification effort for the Go project refraction-networking/conjure (a refraction-networking station: registration ingest/tracking, phantom address selection, transports that proxy censored clients to covert destinations). You work ONLY inside your own scratch git worktree of the repository: {out}/{pid}/wt  (never touch /repo or /verif, never read /verif). The sandbox is offline; use the default `go` toolchain with: export GOPROXY=off GOSUMDB=off (do NOT set GOFLAGS=-mod=mod: it is rejected in workspace mode)  (the repo is a go.work workspace with modules ., cmd/application, cmd/registration-server, util/station-debug; run `go test` from inside the module directory that owns the package).

PROPERTY {pid}: {p['title']}
Statement: {p['statement']}
Quantifier: {json.dumps(p.get('quantifier'))}
Code anchors (files): {', '.join(a.get('files', []))}
Mechanisms the code relies on: {json.dumps(a.get('mechanism', []))[:3000]}

TASK: produce TWO independent changes (call them m1 and m2) to the repository source (non-test .go files; you may also touch shipped config files) such that each change:
 1. BREAKS the property above (some clause of its statement becomes false for some input / schedule / fault / history),
 2. still COMPILES (all modules: `go build ./...` in ., cmd/application, cmd/registration-server) and PASSES the existing test suite unchanged (run at least the tests of the packages you touched and their dependants: `go test -vet=off -count=1 ./pkg/... ./internal/... ./proto/...` from the root, and `go test -vet=off -count=1 ./...` inside cmd/application and cmd/registration-server; the one test TestConjureLibConfigResolveBlocklisted fails on the unchanged tree and may be ignored; tests with fixed ZMQ ports can flake if run in parallel with other suites - re-run in isolation),
 3. looks like a plausible refactoring / optimisation / bug-fix a maintainer might really write (no comments that give it away),
 4. needs something SPECIFIC to manifest - a particular interleaving of goroutines, a crash or fault or error return at one particular point, a multi-step sequence of operations, a time condition, an unusual-but-legal input or configuration, or two cooperating sites that each look fine alone. NOT something any ordinary use would expose at once.
The two changes must use different mechanisms from each other, and different from these changes that were already produced in earlier rounds for this property (do not repeat them):
""" + "\n".join(" - " + t for t in titles.get(pid, [])) + f"""

For EACH change deliver, in {out}/{pid}/out/m1 and {out}/{pid}/out/m2:
 - patch.diff : `git diff` of the change against the worktree HEAD (source change only, NOT the demo test), must apply with `git apply` at the repo root.
 - demo_test.go : a self-contained Go test file (function name starting with TestDemo) to be dropped into ONE package directory of the repo (say which in meta.json as "demo_dir") that FAILS with the change applied and PASSES on the unchanged tree; verify both directions yourself.
 - meta.json : {{"property": "{pid}", "title": one-sentence description of the change, "breaks_clause": which sentence of the statement is broken, "needs_to_manifest": what exactly is needed for the breakage to show, "files_changed": [...], "demo_dir": "...", "ran": the commands you ran and their outcomes}}.
When done, make sure the worktree is back at HEAD with no leftover changes and reply with a short summary of both changes. If you could only produce one convincing change, deliver one and say so.
"""
    open(f"{out}/{pid}/PROMPT.txt", "w").write(txt)
    print(pid, len(titles.get(pid, [])), "earlier changes listed")
