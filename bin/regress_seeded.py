#!/usr/bin/env python3
"""usage: regress_seeded.py [<id-prefix> ...]

Re-runs every kept seeded change (seeded/<id>/patch.diff) against the check named in its meta.json,
in a dedicated scratch worktree of /repo HEAD (VERIF_REPO), and compares the outcome with the
recorded `check.caught`. /repo itself is not touched, so this can run beside other work.
Prints one line per seeded change and a summary; exit 1 if an outcome differs from the record."""
import json, os, re, subprocess, sys, glob

VERIF = os.path.dirname(os.path.dirname(os.path.abspath(__file__)))
WT = os.environ.get("REGRESS_WT", "/var/tmp/repo-mut")
subprocess.run(["git", "-C", "/repo", "worktree", "remove", "--force", WT], capture_output=True)
subprocess.run(["git", "-C", "/repo", "worktree", "add", "-q", "--detach", WT, "HEAD"], check=True)
ids = sorted((os.path.basename(d) for d in glob.glob(os.path.join(VERIF, "seeded", "C*-m*"))),
             key=lambda s: (s.split("-m")[0], int(s.split("-m")[1])))
if len(sys.argv) > 1:
    ids = [i for i in ids if any(i.startswith(p) for p in sys.argv[1:])]
bad = 0
try:
    for sid in ids:
        d = os.path.join(VERIF, "seeded", sid)
        try:
            meta = json.load(open(os.path.join(d, "meta.json")))
        except Exception as e:
            print(sid, "NO-META", e); continue
        m = re.search(r"patch\.diff (C\d+)", meta["check"]["command"])
        prop = m.group(1) if m else sid.split("-")[0]
        want = bool(meta["check"]["caught"])
        patch = os.path.join(d, "patch.diff")
        ok = subprocess.run(["git", "-C", WT, "apply", patch], capture_output=True).returncode == 0
        if not ok:
            ok = subprocess.run("patch -p1 -s < %s" % patch, shell=True, cwd=WT, capture_output=True).returncode == 0
        if not ok:
            print(sid, prop, "PATCH-DOES-NOT-APPLY (recorded caught=%s)" % want, flush=True)
            subprocess.run("git checkout -q -- . && git clean -fdq", shell=True, cwd=WT)
            continue
        p = subprocess.run([os.path.join(VERIF, "bin", "check"), prop, "--no-evidence"], capture_output=True, text=True,
                           env=dict(os.environ, VERIF_REPO=WT))
        out = p.stdout + p.stderr
        got = re.search(r"^VIOLATION property=%s " % prop, out, re.M) is not None
        sig = re.findall(r"(?:VIOLATION|violation|verdict:) (%s/[^\s:]+):" % prop, out)
        flag = "same" if got == want else "DIFFERS"
        if "CHECK-ERROR" in out and not got:
            flag += " CHECK-ERROR"
        if got != want:
            bad += 1
        print(sid, prop, "recorded=%s now=%s %s %s (exit %d)" % (want, got, flag, sig[-1] if sig else "", p.returncode), flush=True)
        subprocess.run("git checkout -q -- . && git clean -fdq", shell=True, cwd=WT)
finally:
    subprocess.run(["git", "-C", "/repo", "worktree", "remove", "--force", WT], capture_output=True)
print("seeded changes re-run: %d, outcome differs from the record: %d" % (len(ids), bad))
sys.exit(1 if bad else 0)
