#!/bin/bash
# For every "fixed:" line of known_findings.txt: revert that commit in a scratch worktree of /repo
# and run the property's quick check against it; the check must report a violation again.
cd /verif
grep "^fixed:" known_findings.txt | while read -r _ prop commit rest; do
  P=${prop#property=}
  WT=/tmp/revert.$commit
  rm -rf $WT; git -C /repo worktree add -q $WT HEAD 2>/dev/null || continue
  if ! git -C $WT revert --no-commit $commit >/dev/null 2>&1; then
    echo "$P $commit REVERT-CONFLICT (later fixes touch the same lines)"; git -C /repo worktree remove --force $WT; continue
  fi
  EXTRA="VERIF_X=1"
  OUT=$(env $EXTRA VERIF_REPO=$WT ./bin/check $P --no-evidence 2>&1)
  RC=$?
  SIG=$(echo "$OUT" | grep -m1 "^violation" | cut -c1-110)
  echo "$P $commit rc=$RC $SIG"
  git -C /repo worktree remove --force $WT
done
