#!/bin/bash
# usage: recheck_suite.sh <seeded-id> <pkg dir relative to repo> [go test args...]
# Re-runs one package of the repository's suite with the seeded patch applied, in a fresh scratch
# worktree and in isolation (the suite has port- and timing-dependent tests that fail under load).
set -u
ID=$1; PKG=$2; shift 2
WT=/tmp/recheck.$ID
rm -rf $WT; git -C /repo worktree add -q $WT HEAD || exit 3
cd $WT; git apply /verif/seeded/$ID/patch.diff 2>/dev/null || patch -p1 -s < /verif/seeded/$ID/patch.diff || { echo APPLY-FAILED; git -C /repo worktree remove --force $WT; exit 3; }
(cd $WT/$PKG && go test -vet=off -count=1 "$@" . 2>&1 | grep -E "^--- FAIL|^FAIL|^ok|^panic" )
RC=$?
cd /; git -C /repo worktree remove --force $WT
