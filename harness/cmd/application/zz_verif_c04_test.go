package main

// C04 — valid client flights are recognised under any TCP segmentation, data
// intact. Real client transports produce the flights; the simulator cuts and
// paces them; the real station classifies, marks the registration used and
// relays to a simulated covert echo host.

import (
	"bytes"
	"crypto/hmac"
	"crypto/sha256"
	"fmt"
	"io"
	"net"
	"strconv"
	"testing"
	"time"

	"github.com/refraction-networking/conjure/pkg/station/log"
	cj "github.com/refraction-networking/conjure/pkg/station/lib"
	"github.com/refraction-networking/conjure/pkg/transports/wrapping/obfs4"
	"github.com/refraction-networking/conjure/pkg/transports/wrapping/prefix"
	"github.com/refraction-networking/obfs4/common/ntor"
	pb "github.com/refraction-networking/conjure/proto"

	"verif/sim"
	"verif/sim/hook"
	"verif/sim/simnet"
)

type c04Param struct {
	tt     pb.TransportType
	name   string
	params any
}

var c04Params = func() []c04Param {
	var ps []c04Param
	for _, rnd := range []bool{false, true} {
		r := rnd
		ps = append(ps, c04Param{pb.TransportType_Min, fmt.Sprintf("min/rand=%v", r), &pb.GenericTransportParams{RandomizeDstPort: &r}})
	}
	for id := 0; id < 10; id++ {
		for _, fl := range []int32{prefix.DefaultFlush, prefix.NoAddedFlush, prefix.FlushAfterPrefix} {
			for _, rnd := range []bool{false, true} {
				ps = append(ps, c04Param{pb.TransportType_Prefix, fmt.Sprintf("prefix/%s/flush=%d/rand=%v", prefix.PrefixID(id).Name(), fl, rnd),
					&prefix.ClientParams{PrefixID: int32(id), FlushPolicy: fl, RandomizeDstPort: rnd}})
			}
		}
	}
	return ps
}()

var c04ObfsParams = []c04Param{
	{pb.TransportType_Obfs4, "obfs4/rand=false", &pb.GenericTransportParams{RandomizeDstPort: new(bool)}},
	{pb.TransportType_Obfs4, "obfs4/default", nil},
}

var c04EarlySizes = []int{0, 1, 13, 4095, 4096, 4097, 32768, 65536}
var c04Pauses = []time.Duration{0, 0, 0, time.Millisecond, 50 * time.Millisecond, 400 * time.Millisecond, 900 * time.Millisecond}

// flight length upper bound for the cut enumeration: longest prefix (21) + tag (64) + 4 bytes into the data
const c04MaxCut = 21 + 64 + 4

// enumeration: (param set, cut1, cut2) with 1 <= cut1 <= cut2 <= c04MaxCut; cut1 == cut2 means a single cut
type c04Enum struct{ p, c1, c2 int }

func c04EnumCases(tier string, seed uint64) []c04Enum {
	var out []c04Enum
	for p := range c04Params {
		// all single cuts for every parameter set
		for c := 1; c <= c04MaxCut; c++ {
			out = append(out, c04Enum{p, c, c})
		}
	}
	// obfs4 (interactive handshake of random length): every single cut at absolute offsets 1..100
	// and at distances 1..48 from the end of the client handshake (mark + MAC are the last 32 bytes)
	for o := range c04ObfsParams {
		for c := 1; c <= 148; c++ {
			out = append(out, c04Enum{len(c04Params) + o, c, c})
		}
	}
	for p := range c04Params {
		full := tier == "thorough" || p < 2 || (p-2)%12 == int(seed%12)
		if !full {
			continue
		}
		for c1 := 1; c1 <= c04MaxCut; c1++ {
			for c2 := c1 + 1; c2 <= c04MaxCut; c2++ {
				out = append(out, c04Enum{p, c1, c2})
			}
		}
	}
	return out
}

var c04Cases []c04Enum

func TestVerifC04(t *testing.T) {
	sim.Main(t, sim.Config{
		Prop:     "C04",
		Scenario: c04Scenario,
		EnumN: func(tier string) int {
			if c04Cases == nil {
				c04Cases = c04EnumCases(tier, sim.EnvSeed())
			}
			return len(c04Cases)
		},
		EnumAt: func(tier string, i int) []int {
			c := c04Cases[i]
			// workers, station key (any value), mode = enumerated, parameter set, cuts
			return []int{1, (c.p + c.c1 + c.c2) % 3, 4242, 1, c.p, c.c1, c.c2}
		},
		EnumLabels: func(string, int) []string {
			return []string{"workers", "station-extra-keys", "station-key", "mode", "paramset", "cut1", "cut2"}
		},
		Runs: map[string]int{"quick": 4000, "thorough": 400000},
		Real: []string{"cmd/application handleNewTCPConn (accumulate-and-retry read loop, MarkActive)", "min / prefix / obfs4 station transports and the matching real client transports (WrapConn produces every flight)", "pkg/station/lib Proxy / halfPipe relay", "RegistrationManager, ingest pipeline (HandleRegUpdates), RemoveOldRegistrations"},
		Stub: []string{"TCP to the phantom (simnet: cut points, pacing)", "covert host (echo actor behind the dial seam)", "liveness table, detector recorder, ZMQ", "handleNewConn's accept / original-destination glue"},
		Rule: "enumerated: for min (2 parameter sets) and prefix (10 ids x 3 flush policies x 2 port modes) every single cut at offsets 1..89 of flight+data, for obfs4 every single cut at offsets 1..100 and at 1..48 bytes before the end of the real client handshake, and every pair of cuts for min and for a seed-rotated twelfth of the prefix sets (thorough: all sets): complete for the stated bound; random: 1-3 concurrent clients (min, prefix, obfs4), k-cut segmentations incl. cuts counted from the end of the obfs4 handshake, pacing < 4.5 s in total, early data 0..64 KiB in the same segments as the tag, 0-3 other registrations on the same phantom. " +
			"non-trivial = the connection was recognised and relayed; distinct = (parameter set, cuts, early-data size, co-registrations, schedule) signatures",
		Assume: []string{"harness test files built with //go:debug asynctimerchan=0", "total pacing is kept below 4.5 s so the 5-10 s classification deadline cannot legitimately fire"},
	})
}

type c04Session struct {
	c       *stClient
	p       c04Param
	cuts    []int
	tail    []int
	pauses  []time.Duration
	data    []byte
	chunks  int
	natural bool
	ok      bool
}

func c04Data(id, n int) []byte {
	b := make([]byte, n)
	for i := range b {
		b[i] = byte(i*13+i>>8*5+id*101) | 1
	}
	return b
}

func c04Scenario(r *sim.Run) {
	tp := r.Tape
	s := hook.Install(tp)
	defer s.Uninstall()
	s.StayNum, s.StayDen = 1, 2
	o := stDefaultOpts()
	// few phantoms so that other registrations share the phantom
	o.groups = []stSubnetGroup{{1, true, []string{"192.0.2.4/31", "2001:db8:1::4/127"}}, {1, false, []string{"192.0.2.8/31", "2001:db8:1::8/127"}}}
	o.workers = 1 + tp.Choose("workers", 3)
	// key rotation: the station may hold older private keys in front of the one the clients use
	o.extraKeys = tp.Choose("station-extra-keys", 3)
	if o.extraKeys > 0 {
		r.Probe("station_with_several_private_keys")
	}
	w := newStWorld(r, s, tp, o)
	if w == nil {
		return
	}
	defer w.close()

	var sess []*c04Session
	others := 0
	enumerated := tp.Choose("mode", 2) == 1
	if enumerated {
		pi := tp.Choose("paramset", len(c04Params)+len(c04ObfsParams))
		c1 := tp.Choose("cut1", 150)
		c2 := tp.Choose("cut2", 150)
		var p c04Param
		se := &c04Session{}
		if pi < len(c04Params) {
			p = c04Params[pi]
			se.cuts = []int{c1, c2}
		} else {
			p = c04ObfsParams[pi-len(c04Params)]
			for _, c := range []int{c1, c2} {
				if c > 100 {
					se.tail = append(se.tail, c-100)
				} else if c > 0 {
					se.cuts = append(se.cuts, c)
				}
			}
		}
		se.p = p
		se.data = c04Data(0, []int{13, 1, 4096}[tp.Choose("early", 3)])
		sess = append(sess, se)
		others = tp.Choose("others", 3)
		r.Cover("enum", p.name, fmt.Sprint(c1, c2))
	} else {
		n := 1 + tp.Choose("nsessions", 3)
		for i := 0; i < n; i++ {
			var p c04Param
			switch k := tp.Choose("transport", 5); {
			case k < 2:
				p = c04Params[tp.Choose("minset", 2)]
			case k < 4:
				p = c04Params[2+tp.Choose("prefixset", len(c04Params)-2)]
			default:
				p = c04ObfsParams[tp.Choose("obfsset", len(c04ObfsParams))]
			}
			se := &c04Session{p: p}
			nc := tp.Choose("ncuts", 6)
			for j := 0; j < nc; j++ {
				if p.tt == pb.TransportType_Obfs4 && tp.Bool("tailcut") {
					se.tail = append(se.tail, 1+tp.Choose("tail", 48))
				} else {
					se.cuts = append(se.cuts, 1+tp.Choose("cut", 140))
				}
			}
			budget := 4400 * time.Millisecond
			for j := 0; j <= nc+2; j++ {
				d := c04Pauses[tp.Choose("pause", len(c04Pauses))]
				if d > budget {
					d = 0
				}
				budget -= d
				se.pauses = append(se.pauses, d)
			}
			se.data = c04Data(i, c04EarlySizes[tp.Choose("early", len(c04EarlySizes))])
			se.chunks = 1 + tp.Choose("chunks", 3)
			se.natural = tp.Choose("natural", 4) == 3
			sess = append(sess, se)
			r.Cover(p.name, fmt.Sprint(se.cuts, se.tail, len(se.data), se.natural))
		}
		others = tp.Choose("others", 4)
	}
	v6 := tp.Choose("family", 4) == 3
	// the operator's GeoIP database (per-country statistics paths of the handler) and the periodic
	// statistics printer, which resets those tables while connections are being classified
	if g := tp.Choose("geoip", 3); g != 0 {
		w.rm.GeoIP = stGeo{g}
	}
	statsTicks := tp.Choose("stats-ticks", 3)
	var tickAt []time.Duration
	for i := 0; i < statsTicks; i++ {
		tickAt = append(tickAt, time.Duration(tp.Choose("tick-at", 40))*250*time.Millisecond)
	}

	fail := func(se *c04Session, clause, format string, a ...any) bool {
		return r.Fail("C04/"+clause+"/"+stTransportName(se.p.tt), "["+se.p.name+"] "+format, a...)
	}

	// one connection of a session: returns true if the data came back intact
	// long: 0 = the covert echoes; 1 = one-way upload (the covert only receives; after the first
	// flight the client sends 32 more chunks, 2 s apart); 2 = one-way download (the covert sends
	// 32 chunks, 2 s apart, the client is silent after its first flight). The transfer lasts a
	// minute with one direction idle all the time: every byte must still arrive.
	connect := func(se *c04Session, id int, data []byte, cuts, tail []int, pauses []time.Duration, natural bool, label string, long int) bool {
		c := se.c
		w.mu.Lock()
		w.covertMode[c.covert] = []string{"", "sink", "drip"}[long]
		w.mu.Unlock()
		var wr net.Conn
		flush := func() {}
		phantom := c.phantom(v6)
		cli := simnet.TCP(fmt.Sprintf("198.51.100.%d", 100+id), 40000+id)
		if v6 {
			cli = simnet.TCP(fmt.Sprintf("2001:db8:77::%x", 100+id), 40000+id)
		}
		ndials := len(w.dials)
		conn := w.open(phantom, cli)
		var rd net.Conn = conn.H
		if se.p.tt == pb.TransportType_Obfs4 {
			sc := &segConn{Conn: conn.H, cuts: append([]int(nil), cuts...), pauses: pauses, tailCuts: tail}
			wc, err := c.ct.WrapConn(sc)
			if err != nil {
				sc.Flush()
				conn.H.Close()
				return !fail(se, "not-recognised", "%s: obfs4 client handshake failed: %v", label, simnet.ErrName(err))
			}
			if _, err := wc.Write(data); err != nil {
				conn.H.Close()
				return !fail(se, "relay-broken", "%s: writing %d application bytes failed: %v", label, len(data), simnet.ErrName(err))
			}
			sc.Flush()
			rd, wr, flush = wc, wc, func() { sc.Flush() } // (the segmenting connection below the obfs4 client holds bytes back until flushed)
		} else {
			wr = conn.H
			capc := &stCaptureConn{}
			if _, err := c.ct.WrapConn(capc); err != nil {
				r.Fail("harness/c04-flight", "%v", err)
				return false
			}
			flight := capc.buf.Bytes()
			stream := append(append([]byte(nil), flight...), data...)
			if natural {
				cuts = nil
				off := 0
				for _, n := range capc.writes {
					off += n
					cuts = append(cuts, off)
				}
			}
			r.Logf("%s %s: flight %d bytes (client writes %v) + %d data bytes, cuts %v", conn.name, label, len(flight), capc.writes, len(data), cuts)
			if err := stWriteSegments(conn.H, stream, cuts, pauses); err != nil {
				conn.H.Close()
				return !fail(se, "closed-while-sending", "%s: the station ended the connection while the client was sending its first flight: %v", label, simnet.ErrName(err))
			}
		}
		var got []byte
		var err error
		switch long {
		case 1:
			for k := 0; k < stDripN; k++ {
				time.Sleep(stDripGap)
				if _, werr := wr.Write(stDripChunk(k)); werr != nil {
					conn.H.Close()
					return !fail(se, "relay-broken/one-way-upload", "%s: %d s into a one-way upload (the covert is silent) the client's write failed: %v", label, 2*(k+1), simnet.ErrName(werr))
				}
				flush()
				data = append(append([]byte(nil), data...), stDripChunk(k)...)
			}
			time.Sleep(time.Second)
			r.Probe("one_way_upload_for_a_minute")
		case 2:
			var want []byte
			for k := 0; k < stDripN; k++ {
				want = append(want, stDripChunk(k)...)
			}
			got, err = stReadN(rd, len(want), 90*time.Second)
			if err != nil || !bytes.Equal(got, want) {
				conn.H.Close()
				return !fail(se, "data-mismatch/one-way-download", "%s: the covert sent %d bytes over a minute (the client is silent): the client got %d of them (err %v)", label, len(want), len(got), simnet.ErrName(err))
			}
			r.Probe("one_way_download_for_a_minute")
		default:
			got, err = stReadN(rd, len(data), 30*time.Second)
		}
		w.settle()
		conn.H.Close()
		// which covert did the station dial for this connection?
		var cv *stCovert
		w.mu.Lock()
		mine := 0
		for _, d := range w.dials[ndials:] {
			if d.addr == c.covert {
				mine++
			}
		}
		for _, x := range w.coverts {
			if x.addr == c.covert {
				cv = x
			}
		}
		w.mu.Unlock()
		if mine == 0 {
			return !fail(se, "not-recognised", "%s: the station never dialled the client's covert %s (echo read: %d/%d bytes, err %v)", label, c.covert, len(got), len(data), simnet.ErrName(err))
		}
		if long != 0 {
			// one-way transfers: what the covert received is what the client sent
			up := []byte(nil)
			if cv != nil {
				up = cv.H.Got
			}
			if !bytes.Equal(up, data) {
				return !fail(se, "data-mismatch/up", "%s: the covert received %d bytes, the client sent %d application bytes (one-way transfer of a minute)", label, len(up), len(data))
			}
			if mine > 1 {
				return !fail(se, "dialled-twice", "%s: %d dials for one connection", label, mine)
			}
			return true
		}
		if len(data) > 0 && (err != nil || !bytes.Equal(got, data)) {
			up := []byte(nil)
			if cv != nil {
				up = cv.H.Got
			}
			if !bytes.Equal(up, data) {
				i := 0
				for i < len(up) && i < len(data) && up[i] == data[i] {
					i++
				}
				return !fail(se, "data-mismatch/up", "%s: the covert received %d bytes, the client sent %d application bytes; first difference at offset %d", label, len(up), len(data), i)
			}
			return !fail(se, "data-mismatch/down", "%s: the client got %d of %d echoed bytes back (err %v)", label, len(got), len(data), simnet.ErrName(err))
		}
		if cv != nil && !bytes.Equal(cv.H.Got, data) && len(data) > 0 {
			return !fail(se, "data-mismatch/up", "%s: echo came back intact but the covert saw %d bytes for %d sent", label, len(cv.H.Got), len(data))
		}
		if mine > 1 {
			return !fail(se, "dialled-twice", "%s: %d dials for one connection", label, mine)
		}
		return true
	}

	finished := false
	s.Spawn("director", func() {
		// registrations: the sessions' clients plus others on the same phantoms
		for i, se := range sess {
			c, err := w.newClient(i, se.p.tt, se.p.params)
			if err != nil {
				r.Fail("harness/c04-client", "%s: %v", se.p.name, err)
				return
			}
			se.c = c
			if !enumerated && tp.Prob("early-attempt-during-probe", 1, 5) {
				// somebody connects to the phantom while the registration is still being validated (the
				// client's own too-early attempt, a prober, another client of the same phantom): the
				// worker has tracked the registration and waits for the liveness probe
				w.holdProbes.Store(true)
				w.settle()
				w.publish(c.regMessage(nil))
				w.settle()
				ec := w.open(c.phantom(v6), simnet.TCP("198.51.100.77", 41000+i))
				stWriteSegments(ec.H, c04Data(90+i, 40), nil, nil)
				w.settle()
				ec.H.Close()
				for k := 0; k < 20 && !ec.returned; k++ {
					w.settle()
					time.Sleep(time.Second)
				}
				w.holdProbes.Store(false)
				w.settle()
				r.Probe("early_attempt_before_validation")
				continue
			}
			w.register(c.regMessage(nil))
		}
		for i := 0; i < others; i++ {
			tt := []pb.TransportType{pb.TransportType_Min, pb.TransportType_Prefix, pb.TransportType_Obfs4}[tp.Choose("other-transport", 3)]
			var params any
			if tt == pb.TransportType_Prefix {
				params = &prefix.ClientParams{PrefixID: int32(tp.Choose("other-prefix", 10))}
			}
			c, err := w.newClient(50+i, tt, params)
			if err != nil {
				r.Fail("harness/c04-client", "%v", err)
				return
			}
			w.register(c.regMessage(nil))
		}
		w.settle()
		done := make(chan bool, len(sess))
		if len(tickAt) > 0 {
			s.Spawn("stats-ticker", func() {
				t0 := time.Now()
				lg := log.New(io.Discard, "", 0)
				for _, at := range tickAt {
					if d := at - time.Since(t0); d > 0 {
						time.Sleep(d)
					}
					w.cm.PrintAndReset(lg)
					r.Probe("stats_reset_during_classification")
				}
			})
		}
		for i, se := range sess {
			i, se := i, se
			s.Spawn(fmt.Sprintf("client%d", i), func() {
				se.ok = connect(se, i, se.data, se.cuts, se.tail, se.pauses, se.natural, "first connection", 0)
				done <- true
			})
		}
		for range sess {
			<-done
		}
		if r.Failed() {
			return
		}
		w.settle()
		// obfs4 clients draw the length of their handshake padding uniformly from the protocol's range;
		// the extremes (shortest flight; a flight of exactly the maximum handshake length) come up once
		// in eight thousand connections. Here the client handshake X | P_C | M_C | MAC is built by hand
		// with a chosen padding length - the obfs4 specification's client side - for a registration of
		// its own, and the station must find it (it then dials that registration's covert).
		if !enumerated && tp.Prob("obfs4-extreme-padding", 1, 5) {
			cx, err := w.newClient(80, pb.TransportType_Obfs4, nil)
			if err != nil {
				r.Fail("harness/c04-client", "%v", err)
				return
			}
			w.register(cx.regMessage(nil))
			var keys *obfs4.Obfs4Keys
			for _, rg := range w.rm.GetRegistrations(cx.phantom(v6)) {
				if d, ok := rg.(*cj.DecoyRegistration); ok && string(d.Keys.SharedSecret) == string(cx.keys.SharedSecret) {
					if k, ok := d.Keys.TransportKeys.(obfs4.Obfs4Keys); ok {
						keys = &k
					}
				}
			}
			if keys == nil {
				r.Fail("harness/c04-obfs4-keys", "the obfs4 registration for the crafted handshake was not admitted")
				return
			}
			padLen := []int{obfs4.ClientMaxPadLength, obfs4.ClientMinPadLength, obfs4.ClientMaxPadLength - 1, obfs4.ClientMinPadLength + 1}[tp.Choose("padlen", 4)]
			kp, err := ntor.NewKeypair(true)
			if err != nil {
				r.Fail("harness/c04-ntor", "%v", err)
				return
			}
			mac := hmac.New(sha256.New, append(keys.PublicKey.Bytes()[:], keys.NodeID.Bytes()[:]...))
			mac.Write(kp.Representative().Bytes()[:])
			mark := mac.Sum(nil)[:obfs4.MarkLength]
			var fl bytes.Buffer
			fl.Write(kp.Representative().Bytes()[:])
			fl.Write(tp.Bytes("padding", padLen))
			fl.Write(mark)
			mac.Reset()
			mac.Write(fl.Bytes())
			mac.Write([]byte(strconv.FormatInt(time.Now().Unix()/3600, 10)))
			fl.Write(mac.Sum(nil)[:obfs4.MacLength])
			var cuts []int
			for k := tp.Choose("xcuts", 3); k > 0; k-- {
				cuts = append(cuts, 1+tp.Choose("xcut", fl.Len()-1))
			}
			d0 := len(w.dials)
			conn := w.open(cx.phantom(v6), simnet.TCP("198.51.100.78", 41900))
			stWriteSegments(conn.H, fl.Bytes(), cuts, nil)
			dialled := false
			for k := 0; k < 12 && !dialled && !conn.returned; k++ {
				w.settle()
				w.mu.Lock()
				for _, d := range w.dials[d0:] {
					if d.addr == cx.covert {
						dialled = true
					}
				}
				w.mu.Unlock()
				if !dialled {
					time.Sleep(time.Second)
				}
			}
			conn.H.Close()
			for k := 0; k < 30 && !conn.returned; k++ {
				w.settle()
				time.Sleep(time.Second)
			}
			w.settle()
			r.Probe("obfs4_handshake_with_extreme_padding")
			r.Cover("obfs4-pad", fmt.Sprint(padLen))
			if !dialled {
				r.Fail("C04/not-recognised/obfs4/extreme-padding", "a valid obfs4 client handshake with %d bytes of padding (the protocol allows %d..%d; flight of %d bytes, cut at %v) was not matched to its registration: the covert %s was never dialled", padLen, obfs4.ClientMinPadLength, obfs4.ClientMaxPadLength, fl.Len(), cuts, cx.covert)
				return
			}
		}
		// marked used: 11 minutes later a sweep must leave the registration matchable
		time.Sleep(11 * time.Minute)
		w.rm.RemoveOldRegistrations()
		r.Logf("11 minutes later: sweep")
		for i, se := range sess {
			if !se.ok {
				continue
			}
			r.Nontrivial()
			before := len(w.dials)
			long := tp.Choose("one-way", 6) // 0-3: echo, 4: one-way upload, 5: one-way download
			if long < 4 {
				long = 0
			} else {
				long -= 3
			}
			ok := connect(se, 10+i, c04Data(20+i, 7), nil, nil, nil, false, "second connection after 11 min + sweep"+[]string{"", " (one-way upload)", " (one-way download)"}[long], long)
			_ = before
			if !ok || r.Failed() {
				// distinguish "not marked used" from a generic failure: the first connection worked
				return
			}
		}
		finished = true
	})
	st := sim.Drive(r, s, sim.DriveOpt{Horizon: 2 * time.Hour, MaxSteps: 60000, Until: func() bool { return finished }})
	r.CoverU(s.SigHash)
	if st == sim.Failed || r.Failed() {
		return
	}
	if !finished {
		r.Fail("C04/stuck", "scenario did not finish (%v): %v", st, s.LiveNames())
	}
}
