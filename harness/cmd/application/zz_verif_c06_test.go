package main

// C06 — the station never dials a covert address that policy forbids.
// Clients register covert strings drawn from a grammar of address forms under
// generated blocklist / allowlist / domain-pattern policies and a scripted
// resolver whose answers change between lookups; each then connects with a
// genuine flight. An independent policy evaluator (net/netip) judges every
// string that reaches the dial seam.

import (
	"fmt"
	"net"
	"net/netip"
	"regexp"
	"strings"
	"testing"
	"time"

	cj "github.com/refraction-networking/conjure/pkg/station/lib"
	pb "github.com/refraction-networking/conjure/proto"
	"google.golang.org/protobuf/proto"

	"verif/sim"
	"verif/sim/hook"
	"verif/sim/simnet"
)

var c06Blocklists = [][]string{
	{},
	{"10.0.0.0/8"},
	{"10.0.0.0/8", "192.168.0.0/16", "127.0.0.0/8", "fc00::/7", "::1/128"},
	{"203.0.113.64/26", "2001:db8:bad::/48"},
	{"0.0.0.0/0"},
	// nested and overlapping entries, with and without a common base address, host bits set, duplicates:
	// every entry is in force, whatever the list looks like
	{"10.0.0.0/8", "10.0.0.0/24", "203.0.113.0/30", "203.0.113.0/24", "2001:db8:bad::/64", "2001:db8:bad::/48", "127.0.0.1/32", "127.0.0.1/8"},
	{"10.0.0.0/24", "10.0.0.0/8", "10.0.0.0/8", "192.168.1.1/16", "fc00::/7", "fc00::/8"},
}
var c06Allowlists = [][]string{
	{}, {}, {},
	{"203.0.113.0/24"},
	{"203.0.113.0/25", "2001:db8:600d::/48"},
}
var c06DomainPatterns = [][]string{
	{}, {},
	{`.*blocked\.example$`},
	{`^localhost$`, `.*\.internal$`},
	// patterns that describe literal hosts as well (the pattern list is matched against the host as
	// supplied, whatever it is)
	{`^198\.18\.`, `^2001:db8:1234:`, `^0x0a\.`},
}

// IP literals used by the grammar: inside and outside the lists above
var c06V4 = []string{"203.0.113.10", "203.0.113.70", "203.0.113.200", "10.1.2.3", "192.168.1.1", "127.0.0.1", "127.0.0.2", "192.168.200.7", "198.18.0.1", "0.0.0.0", "255.255.255.255"}
var c06V6 = []string{"2001:db8:600d::1", "2001:db8:bad::1", "2001:db8:bad:77::1", "2001:db8:1234::1", "::1", "fc00::1", "fe80::1", "::", "::ffff:10.1.2.3", "::ffff:203.0.113.10", "2001:0db8:600d:0000:0000:0000:0000:0001"}
var c06Zoned = []string{"fe80::1%eth0", "::1%lo", "fc00::1%eth0", "2001:db8:bad::1%eth0", "::ffff:10.1.2.3%lo", "2001:db8:600d::1%eth0", "::ffff:127.0.0.1%lo", "fe80::1%25eth0", "2001:db8:1234::1%1"}
var c06Ports = []string{"443", "80", "1", "65535", "0", "65536", "99999", "", "-1", "+80", " 80", "080", "http", "4 43", "443 "}
var c06Names = []string{"covert.example", "rebind.example", "www.blocked.example", "localhost", "db.internal", "multi.example", "nx.example", "slow.example", "0x0a.0.0.1", "10.1", "167772161", "012.0.0.1", "1.2.3.4.5", "example.com."}

type c06Reg struct {
	c        *stClient
	covert   string
	lookups0 map[string]int // resolver lookups at the moment before registration
	answer   string         // what the resolver answered for this registration's name at admission
	name     string
}

func TestVerifC06(t *testing.T) {
	sim.Main(t, sim.Config{
		Prop:     "C06",
		Scenario: c06Scenario,
		Runs:     map[string]int{"quick": 20000, "thorough": 800000},
		Real:     []string{"RegConfig.ParseBlocklists / ParseOrResolveBlocklisted / isBlocklistedCovertAddr / isBlocklistedCovertDomain", "ingestRegistration (covert overwritten with the resolved literal)", "handleNewTCPConn -> Proxy -> dial of the stored string", "min transport end to end"},
		Stub:     []string{"net.ResolveIPAddr for names (scripted resolver; literals and the empty host go to the real function, which does no DNS for them)", "net.Dial (recording seam + echo host)", "TCP, liveness, detector, ZMQ"},
		Rule: "random: policy {7 blocklists (two with nested, overlapping and duplicate entries) x 5 allowlists x 4 domain-pattern sets}, replaced by a configuration reload (OnReload, station idle) before a registration with probability 1/4, x up to 6 registrations whose covert string comes from a grammar: canonical IPv4/IPv6 literals inside and outside the lists, v4-mapped, zoned, unbracketed, expanded, empty host, missing / zero / oversized / signed / padded / non-numeric ports, hostnames (incl. numeric look-alikes such as 0x0a.0.0.1), garbage; resolver scripts per name (permitted-then-forbidden, forbidden-then-permitted, NXDOMAIN, timeout). Every registration is followed by a genuine connection; the dialled string is judged by an independent evaluator. " +
			"The textual address space is SAMPLED by the grammar, not enumerated. non-trivial = a registration was admitted and dialled; distinct = (policy, covert string class, resolver script, outcome)",
		Assume: []string{"policy is evaluated as of admission time", "well-formed = netip.ParseAddrPort accepts the string, no zone, port 1..65535"},
	})
}

func c06Policy(block, allow []string) (func(netip.Addr) bool, error) {
	var bl, al []netip.Prefix
	for _, s := range block {
		p, err := netip.ParsePrefix(s)
		if err != nil {
			return nil, err
		}
		bl = append(bl, p.Masked())
	}
	for _, s := range allow {
		p, err := netip.ParsePrefix(s)
		if err != nil {
			return nil, err
		}
		al = append(al, p.Masked())
	}
	return func(a netip.Addr) bool {
		a = a.WithZone("").Unmap()
		if len(al) > 0 {
			for _, p := range al {
				if p.Contains(a) {
					return true
				}
			}
			return false
		}
		for _, p := range bl {
			if p.Contains(a) {
				return false
			}
		}
		return true
	}, nil
}

func c06Scenario(r *sim.Run) {
	tp := r.Tape
	s := hook.Install(tp)
	defer s.Uninstall()
	s.StayNum, s.StayDen = 1, 2
	o := stDefaultOpts()
	o.workers = 2
	bi, ai, di := tp.Choose("blocklist", len(c06Blocklists)), tp.Choose("allowlist", len(c06Allowlists)), tp.Choose("domains", len(c06DomainPatterns))
	o.covertBlock, o.covertAllow, o.domainBlock = c06Blocklists[bi], c06Allowlists[ai], c06DomainPatterns[di]
	permitted, err := c06Policy(o.covertBlock, o.covertAllow)
	if err != nil {
		r.Fail("harness/c06-policy", "%v", err)
		return
	}
	var pats []*regexp.Regexp
	for _, p := range o.domainBlock {
		pats = append(pats, regexp.MustCompile(p))
	}
	w := newStWorld(r, s, tp, o)
	if w == nil {
		return
	}
	defer w.close()
	r.Logf("C06 policy: blocklist=%v allowlist=%v domain patterns=%v", o.covertBlock, o.covertAllow, o.domainBlock)
	r.Cover(fmt.Sprint(bi, ai, di))

	// resolver scripts
	scripts := [][]string{
		{"203.0.113.10"}, {"10.1.2.3"}, {"203.0.113.10", "10.1.2.3"}, {"10.1.2.3", "203.0.113.10"},
		{"2001:db8:600d::1"}, {"2001:db8:bad::1"}, {""}, {"timeout"}, {"203.0.113.70", "203.0.113.10"}, {"127.0.0.1"},
	}
	for _, n := range c06Names {
		w.names[n] = scripts[tp.Choose("script:"+n, len(scripts))]
	}

	nregs := 1 + tp.Choose("nregs", 6)
	finished := false
	var prevClient *stClient
	prevDialled := false
	reloadedSincePrev := false
	prevDialAddr := "" // what the station dialled for prevClient's connection
	s.Spawn("director", func() {
		for i := 0; i < nregs && !r.Failed(); i++ {
			if i > 0 && tp.Prob("reload", 1, 4) {
				reloadedSincePrev = true
				// the operator reloads the configuration (SIGHUP -> ParseConfig -> OnReload) while
				// the station is idle; from here on the new policy is the one in force
				bi, ai, di = tp.Choose("blocklist", len(c06Blocklists)), tp.Choose("allowlist", len(c06Allowlists)), tp.Choose("domains", len(c06DomainPatterns))
				o.covertBlock, o.covertAllow, o.domainBlock = c06Blocklists[bi], c06Allowlists[ai], c06DomainPatterns[di]
				nc := &cj.RegConfig{CovertBlocklistSubnets: o.covertBlock, CovertAllowlistSubnets: o.covertAllow, CovertBlocklistDomains: o.domainBlock, PhantomBlocklist: o.phantomBlock}
				if err := nc.ParseBlocklists(); err != nil {
					r.Fail("harness/c06-reload", "%v", err)
					return
				}
				w.rm.OnReload(nc)
				if permitted, err = c06Policy(o.covertBlock, o.covertAllow); err != nil {
					r.Fail("harness/c06-policy", "%v", err)
					return
				}
				pats = nil
				for _, p := range o.domainBlock {
					pats = append(pats, regexp.MustCompile(p))
				}
				r.Logf("C06 reload: blocklist=%v allowlist=%v domain patterns=%v", o.covertBlock, o.covertAllow, o.domainBlock)
				r.Cover("reload", fmt.Sprint(bi, ai, di))
				r.Probe("reload")
			}
			// covert string from the grammar
			var covert, class string
			host := ""
			switch k := tp.Choose("form", 12); {
			case k < 3:
				host = c06V4[tp.Choose("v4", len(c06V4))]
				covert, class = host+":"+c06Ports[tp.Choose("port", 4)], "v4-literal"
			case k < 5:
				host = c06V6[tp.Choose("v6", len(c06V6))]
				covert, class = "["+host+"]:"+c06Ports[tp.Choose("port", 4)], "v6-literal"
			case k == 5:
				host = c06V4[tp.Choose("v4", len(c06V4))]
				covert, class = host+":"+c06Ports[tp.Choose("anyport", len(c06Ports))], "v4-odd-port"
			case k == 6:
				switch tp.Choose("v6odd", 5) {
				case 0:
					covert, class = c06V6[tp.Choose("v6", len(c06V6))]+":443", "v6-unbracketed"
				case 1:
					// zoned literals, inside and outside the lists (the zone is not part of the address
					// a subnet test is about)
					covert, class = "["+c06Zoned[tp.Choose("zoned", len(c06Zoned))]+"]:"+c06Ports[tp.Choose("port", 4)], "v6-zoned"
				case 2:
					covert, class = "["+c06V6[tp.Choose("v6", len(c06V6))]+"]", "v6-no-port"
				case 3:
					covert, class = "["+c06V6[tp.Choose("v6", len(c06V6))]+"]:"+c06Ports[tp.Choose("anyport", len(c06Ports))], "v6-odd-port"
				default:
					covert, class = "[::ffff:7f00:1]:80", "v6-mapped-hex"
				}
			case k == 7:
				covert, class = []string{":80", "[]:80", ":", "", "]:80", "[:80", "::", ":::80"}[tp.Choose("empty", 8)], "empty-host"
			case k < 10:
				host = c06Names[tp.Choose("name", len(c06Names))]
				covert, class = host+":"+c06Ports[tp.Choose("port", 4)], "hostname"
			case k == 10:
				host = c06V4[tp.Choose("v4", len(c06V4))]
				covert, class = host, "no-port"
			default:
				b := tp.Bytes("garbage", 1+tp.Choose("glen", 40))
				covert, class = string(b), "garbage"
			}
			c, err := w.newClient(i, pb.TransportType_Min, nil)
			if err != nil {
				r.Fail("harness/c06-client", "%v", err)
				return
			}
			// the client whose previous registration was refused registers again (same secret) with
			// another covert address: whether the station takes the retry or ignores it as a repeat is
			// not this property's question — what it dials is
			retry := prevClient != nil && !prevDialled && tp.Prob("retry-same-secret", 1, 4)
			rereg, firstAddr := false, prevDialAddr
			if retry {
				c = prevClient
				class += "+retry"
				r.Probe("retry_after_refusal")
			} else if rereg = prevClient != nil && prevDialled && !reloadedSincePrev && tp.Prob("reregister-same-secret", 1, 4); rereg {
				// the client whose registration was admitted (and used) registers again for the same
				// session, later, with another covert address. Whether the station keeps the first
				// address or takes the new one: what it dials must have passed the checks. (Not across
				// a reload: the policy is evaluated as of admission time.)
				c = prevClient
				retry = true
				class += "+reregister"
				r.Probe("reregister_after_admission")
			}
			c.covert = covert
			c.v6 = false
			if tp.Prob("prescanned", 1, 5) {
				// forwarded by a peer station (or a client that sets the flag itself): the covert
				// policy of THIS station applies all the same
				c.flags = &pb.RegistrationFlags{Prescanned: proto.Bool(true)}
				c.source = pb.RegistrationSource_DetectorPrescan
				class += "+prescanned"
			}
			// a registration for a transport with which the STATION connects to the client (as the DTLS
			// transport does): no first flight is involved, the station dials the covert by itself as
			// soon as its Connect succeeded - after the same admission checks
			var ct *c17Connecting
			if !retry && tp.Prob("connecting-transport", 1, 6) {
				ct = &c17Connecting{w: w, cli: simnet.TCP("198.51.100.21", 42500+i), ok: true}
				w.rm.AddTransport(pb.TransportType_DTLS, ct)
				c.tt, c.pparams = pb.TransportType_DTLS, nil
				class += "+connecting"
				r.Probe("connecting_transport_registration")
			}
			w.mu.Lock()
			before := map[string]int{}
			for k, v := range w.lookups {
				before[k] = v
			}
			nd := len(w.dials)
			w.mu.Unlock()
			r.Logf("registration %d: covert %q (%s)", i, covert, class)
			w.register(c.regMessage(nil))
			// lookups caused by admission
			w.mu.Lock()
			admLookups := map[string]int{}
			total := 0
			for k, v := range w.lookups {
				if v > before[k] {
					admLookups[k] = v - before[k]
					total += v - before[k]
				}
			}
			w.mu.Unlock()
			// the client connects
			var fl []byte
			if ct == nil {
				if fl, err = c.flight(); err != nil {
					r.Fail("harness/c06-flight", "%v", err)
					return
				}
			}
			// the resolver may answer differently from now on (rebinding)
			w.mu.Lock()
			mid := map[string]int{}
			for k, v := range w.lookups {
				mid[k] = v
			}
			w.mu.Unlock()
			dialFails := ct == nil && tp.Prob("dial-fails", 1, 5)
			if dialFails {
				// the covert host is down / unreachable at connection time: the station must give up (or
				// retry the SAME checked literal), not fall back to anything it has not checked
				sh := simnet.DialShapes[tp.Choose("dial-shape", len(simnet.DialShapes))]
				w.mu.Lock()
				w.failDials, w.failDialErr = 1, sh.Make(simnet.TCP("203.0.113.10", 443))
				w.mu.Unlock()
				class += "+dial-fails"
				r.Fault("dial/" + sh.Name)
			}
			if ct != nil {
				// the station has connected (or not) on its own; a failing dial planned above hits it
				// only if it dials now, which it does not: the tunnel, if any, is already up
				w.settle()
				if ct.H != nil {
					ct.H.Write([]byte("ping"))
					stReadN(ct.H, 4, 12*time.Second)
					w.settle()
					ct.H.Close()
					for k := 0; k < 20 && !ct.done(); k++ {
						w.settle()
						time.Sleep(time.Second)
					}
					w.settle()
				}
			} else {
				conn := w.open(c.phantom(false), simnet.TCP("198.51.100.20", 42000+i))
				stWriteSegments(conn.H, append(fl, []byte("ping")...), nil, nil)
				stReadN(conn.H, 4, 12*time.Second)
				w.settle()
				conn.H.Close()
				for k := 0; k < 20 && !conn.returned; k++ {
					w.settle()
					time.Sleep(time.Second)
				}
				w.settle()
			}
			w.mu.Lock()
			w.failDials = 0
			var dialled []string
			for _, d := range w.dials[nd:] {
				dialled = append(dialled, d.addr)
			}
			lateLookups := 0
			for k, v := range w.lookups {
				lateLookups += v - mid[k]
			}
			w.mu.Unlock()
			r.Cover(class, fmt.Sprint(len(dialled) > 0))

			// what the property says about this string
			wellFormed := false
			var wfAP netip.AddrPort
			if ap, err := netip.ParseAddrPort(covert); err == nil && ap.Addr().Zone() == "" && ap.Port() >= 1 {
				wellFormed, wfAP = true, ap
			}
			suppliedHost, _, splitErr := net.SplitHostPort(covert)
			hostBlocked := false
			if splitErr == nil {
				for _, p := range pats {
					if p.MatchString(suppliedHost) {
						hostBlocked = true
					}
				}
			}
			prevClient, prevDialled, reloadedSincePrev, prevDialAddr = c, len(dialled) > 0, false, ""
			if ct != nil {
				prevClient = nil // same-secret repeats are about wrapping-transport sessions
			}
			if len(dialled) > 0 {
				prevDialAddr = dialled[0]
			}
			if len(dialled) == 0 {
				if wellFormed && permitted(wfAP.Addr()) && !hostBlocked && !retry {
					r.Fail("C06/permitted-literal-rejected", "the well-formed, permitted covert %q was not accepted (no dial happened for a genuine connection)", covert)
					return
				}
				continue
			}
			r.Nontrivial()
			if len(dialled) > 1 {
				same := true
				for _, d := range dialled[1:] {
					if d != dialled[0] {
						same = false
					}
				}
				if !dialFails || !same {
					// (a retry of the same checked literal after a failed dial would be legitimate)
					r.Fail("C06/dialled-twice", "one connection, %d dials: %v (first dial failed: %v)", len(dialled), dialled, dialFails)
					return
				}
			}
			d := dialled[0]
			dh, dp, err := net.SplitHostPort(d)
			if err != nil || dh == "" {
				r.Fail("C06/dialled-non-literal/empty-or-malformed-host", "covert %q: the station dialled %q, which is not literal-IP:port with a non-empty host (net.Dial would pick the local host)", covert, d)
				return
			}
			da, err := netip.ParseAddr(dh)
			if err != nil {
				r.Fail("C06/dialled-non-literal/name", "covert %q: the station dialled %q whose host is not an IP literal (a second resolution would happen at dial time)", covert, d)
				return
			}
			if !permitted(da) {
				r.Fail("C06/dialled-forbidden-address/"+class, "covert %q: the station dialled %s, which the configured policy forbids (blocklist %v, allowlist %v)", covert, d, o.covertBlock, o.covertAllow)
				return
			}
			// a re-registration that the station ignored: it dialled what it dialled for the first
			// registration of that session, whose covert string was judged then
			keptFirst := rereg && d == firstAddr
			if keptFirst {
				r.Probe("reregistration_ignored_first_covert_dialled")
			}
			if hostBlocked && !keptFirst {
				r.Fail("C06/dialled-blocked-domain", "covert %q: its host matches a blocklisted domain pattern %v, yet the station dialled %s", covert, o.domainBlock, d)
				return
			}
			if lateLookups > 0 {
				r.Fail("C06/lookup-at-dial-time", "covert %q: %d resolver lookups happened after admission (names must be resolved once, at admission)", covert, lateLookups)
				return
			}
			if class == "hostname" && splitErr == nil {
				if _, isLit := netip.ParseAddr(suppliedHost); isLit != nil {
					// a name: asked exactly once, and the dialled IP is the answer given then
					if total != 1 || admLookups[suppliedHost] != 1 {
						r.Fail("C06/resolved-more-than-once", "covert %q: resolver lookups at admission: %v (exactly one for the supplied name expected)", covert, admLookups)
						return
					}
					ans := w.names[suppliedHost]
					idx := before[suppliedHost]
					want := ""
					if len(ans) > 0 {
						if idx < len(ans) {
							want = ans[idx]
						} else {
							want = ans[len(ans)-1]
						}
					}
					wa, err := netip.ParseAddr(want)
					if err != nil || wa.Unmap() != da.Unmap() {
						r.Fail("C06/dialled-not-the-checked-address", "covert %q: the resolver answered %q at admission but the station dialled %s", covert, want, d)
						return
					}
				}
			}
			if wellFormed && !retry {
				dpn := -1
				fmt.Sscanf(dp, "%d", &dpn)
				if da.Unmap() != wfAP.Addr().Unmap() || dpn != int(wfAP.Port()) {
					r.Fail("C06/literal-changed", "the well-formed covert %q was dialled as %q", covert, d)
					return
				}
			}
			if !strings.Contains(d, dh) {
				_ = d
			}
		}
		finished = true
	})
	st := sim.Drive(r, s, sim.DriveOpt{Horizon: 3 * time.Hour, MaxSteps: 100000, Until: func() bool { return finished }})
	r.CoverU(s.SigHash)
	if st == sim.Failed || r.Failed() {
		return
	}
	if !finished {
		r.Fail("harness/c06-stuck", "scenario did not finish (%v): %v", st, s.LiveNames())
	}
}
