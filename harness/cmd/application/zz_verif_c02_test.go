package main

// C02 — only proof of a validated registration's secret on that phantom opens
// a tunnel. Generated histories of register / duplicate / liveness flips / time /
// sweep / connect against the real station; connects use genuine flights and
// near misses (other phantom, other transport or prefix with the same secret,
// unvalidated or swept registration, altered tag, truncation, random bytes).
// Every registration has its own covert address, so the dial seam tells which
// registration a connection was matched to.

import (
	"context"
	"encoding/binary"
	"fmt"
	"net"
	"testing"
	"time"

	"github.com/refraction-networking/conjure/pkg/core"
	"github.com/refraction-networking/conjure/pkg/core/interfaces"
	"github.com/refraction-networking/conjure/pkg/transports/wrapping/min"
	"github.com/refraction-networking/conjure/pkg/transports/wrapping/obfs4"
	"github.com/refraction-networking/conjure/pkg/transports/wrapping/prefix"
	pb "github.com/refraction-networking/conjure/proto"
	"google.golang.org/protobuf/proto"
	"google.golang.org/protobuf/types/known/anypb"

	"verif/sim"
	"verif/sim/hook"
	"verif/sim/simnet"
)

type c02State int

const (
	c02None     c02State = iota // never registered (or swept): must reject
	c02Rejected                 // tracked but not validated: must reject
	c02Valid                    // validated
	c02Unknown                  // property leaves it open (e.g. re-registration after a rejection)
)

type c02Reg struct {
	state c02State
	at    time.Time
	used  bool
}

type c02Client struct {
	c    *stClient
	regs [2]*c02Reg // v4, v6
	// ov: phantom addresses assigned by the registrar (RegistrationResponse override); nil = the
	// address derived from the seed. The registration exists on THIS address only.
	ov [2]net.IP
	// dupPrefix: the prefix id named by a later duplicate of an already tracked prefix registration
	// (-1 = none). The registered prefix stays the one of the first message.
	dupPrefix int32
}

// ph is the phantom address the client's registration of that family is for.
func (x *c02Client) ph(v6 bool) net.IP {
	i := 0
	if v6 {
		i = 1
	}
	if x.ov[i] != nil {
		return x.ov[i]
	}
	return x.c.phantom(v6)
}

// regMsg is the client's registration message (with the registrar's override, if any).
func (x *c02Client) regMsg() []byte {
	if x.ov[0] == nil && x.ov[1] == nil {
		return x.c.regMessage(nil)
	}
	return x.c.regMessage(func(wr *pb.C2SWrapper) {
		rr := &pb.RegistrationResponse{}
		if x.ov[0] != nil {
			rr.Ipv4Addr = proto.Uint32(binary.BigEndian.Uint32(x.ov[0].To4()))
		}
		if x.ov[1] != nil {
			rr.Ipv6Addr = x.ov[1]
		}
		wr.RegistrationResponse = rr
	})
}

func TestVerifC02(t *testing.T) {
	sim.Main(t, sim.Config{
		Prop:     "C02",
		Scenario: c02Scenario,
		Runs:     map[string]int{"quick": 20000, "thorough": 600000},
		Real:     []string{"cmd/application handleNewTCPConn", "min / prefix / obfs4 station transports (WrapConnection, identifiers, tag reveal, obfs4 mark) and real client transports for genuine flights", "RegistrationManager: ingest pipeline, GetRegistrations / Valid flag, MarkActive, RemoveOldRegistrations", "Proxy dial (seam)"},
		Stub:     []string{"TCP (simnet)", "phantom liveness table", "detector recorder", "covert hosts (echo actors)", "ZMQ", "accept-loop glue"},
		Rule: "random histories of 4-22 operations over 2-5 clients (min / prefix x id / obfs4; dual-stack) whose phantoms collide on 2+2 addresses: register, duplicate, flip phantom liveness, advance (1 s .. 6 h 1 min), sweep, connect. A connect is: genuine flight, genuine flight aimed at another phantom, flight for another transport / another prefix id / obfs4 handshake with the same secret, flight for a rejected or swept registration, genuine flight with 1-3 bits flipped in the tag, truncated flight, random bytes; under random segmentation; a duplicate of a tracked prefix registration that names another prefix id (the registered prefix stays), and a genuine flight that arrives on a connection accepted while the registration was valid, after the registration expired and was swept. " +
			"Oracle: reference registry (state, registration time, used) + dial attribution by per-registration covert address. non-trivial = a must-reject near miss was evaluated against a non-empty registry; distinct = (history shape, connect kinds, schedule) signatures",
		Assume: []string{"harness test files built with //go:debug asynctimerchan=0", "expired-but-not-yet-swept registrations and re-registrations of rejected registrations are don't-cares", "min has no replay protection by design: a replayed genuine flight on its own phantom is a legal match"},
	})
}

func c02Scenario(r *sim.Run) {
	tp := r.Tape
	s := hook.Install(tp)
	defer s.Uninstall()
	s.StayNum, s.StayDen = 1, 2
	o := stDefaultOpts()
	o.groups = []stSubnetGroup{{1, true, []string{"192.0.2.4/31", "2001:db8:1::4/127"}}}
	o.workers = 1 + tp.Choose("workers", 3)
	w := newStWorld(r, s, tp, o)
	if w == nil {
		return
	}
	defer w.close()

	nclients := 2 + tp.Choose("nclients", 4)
	nops := 4 + tp.Choose("nops", 19)
	deltas := []time.Duration{time.Second, 3*time.Minute + 7*time.Millisecond, 9*time.Minute + 59*time.Second + 13*time.Millisecond,
		10*time.Minute + time.Second + 29*time.Millisecond, 5*time.Hour + 59*time.Minute + 61*time.Millisecond, 6*time.Hour + time.Minute + 127*time.Millisecond}

	expired := func(g *c02Reg) bool {
		age := time.Since(g.at)
		return (!g.used && age > 10*time.Minute) || age > 6*time.Hour
	}
	nearThreshold := func(g *c02Reg) bool {
		age := time.Since(g.at)
		near := func(th time.Duration) bool { d := age - th; return d > -time.Millisecond && d < time.Millisecond }
		return near(10*time.Minute) || near(6*time.Hour)
	}

	finished := false
	nconn := 0
	s.Spawn("director", func() {
		var cl []*c02Client
		for i := 0; i < nclients; i++ {
			var tt pb.TransportType
			var params any
			switch tp.Choose("transport", 3) {
			case 0:
				tt = pb.TransportType_Min
			case 1:
				tt = pb.TransportType_Prefix
				params = &prefix.ClientParams{PrefixID: int32(tp.Choose("prefixid", 10))}
				if tp.Prob("prefix-id-unset", 1, 4) {
					// parameters present but without a prefix id: every reader treats that as the Min prefix
					params = &pb.PrefixTransportParams{RandomizeDstPort: proto.Bool(false)}
				}
			default:
				tt = pb.TransportType_Obfs4
			}
			c, err := w.newClient(i, tt, params)
			if err != nil {
				r.Fail("harness/c02-client", "%v", err)
				return
			}
			x := &c02Client{c: c, regs: [2]*c02Reg{{}, {}}, dupPrefix: -1}
			if tp.Prob("registrar-override", 1, 4) {
				// the registrar moved the client to the other address of each (two-address) subnet
				for fam, pair := range [2][2]string{{"192.0.2.4", "192.0.2.5"}, {"2001:db8:1::4", "2001:db8:1::5"}} {
					d := c.phantom(fam == 1)
					for _, a := range pair {
						if ip := net.ParseIP(a); !ip.Equal(d) {
							x.ov[fam] = ip
							if fam == 0 {
								x.ov[fam] = ip.To4()
							}
						}
					}
				}
				r.Probe("registrar_phantom_override")
			}
			cl = append(cl, x)
			r.Logf("client %d: %s secret=%x.. phantoms %s / %s (derived %s / %s) covert %s", i, stTransportName(tt), c.keys.SharedSecret[:4], x.ph(false), x.ph(true), c.phantom(false), c.phantom(true), c.covert)
		}
		registryNonEmpty := func() bool {
			for _, x := range cl {
				for _, g := range x.regs {
					if g.state == c02Valid {
						return true
					}
				}
			}
			return false
		}

		// one connection; returns the covert address dialled for it ("" = none) and whether the handler finished
		connect := func(phantom net.IP, send func(h *simnet.Conn), label string, mid func()) (string, bool) {
			id := nconn
			nconn++
			cli := simnet.TCP(fmt.Sprintf("198.51.100.%d", 100+id%100), 41000+id)
			if phantom.To4() == nil {
				cli = simnet.TCP(fmt.Sprintf("2001:db8:77::%x", 100+id), 41000+id)
			}
			nd := len(w.dials)
			conn := w.open(phantom, cli)
			r.Logf("%s: %s", conn.name, label)
			if mid != nil {
				// the handler reaches its first read, then things happen before the flight arrives
				w.settle()
				mid()
			}
			send(conn.H)
			// wait until the station is done with it (at most the classification deadline)
			for i := 0; i < 13 && !conn.returned; i++ {
				w.settle()
				if conn.returned {
					break
				}
				time.Sleep(time.Second)
			}
			w.settle()
			conn.H.Close()
			for i := 0; i < 200 && !conn.returned; i++ {
				w.settle()
				time.Sleep(time.Second)
			}
			w.settle()
			addr := ""
			w.mu.Lock()
			if len(w.dials) > nd {
				addr = w.dials[nd].addr
			}
			w.mu.Unlock()
			return addr, conn.returned
		}
		cutsFor := func(n int) []int {
			var cuts []int
			for i, k := 0, tp.Choose("ncuts", 4); i < k; i++ {
				cuts = append(cuts, 1+tp.Choose("cut", n+1))
			}
			return cuts
		}
		sendBytes := func(b []byte) func(h *simnet.Conn) {
			cuts := cutsFor(len(b))
			return func(h *simnet.Conn) { stWriteSegments(h, b, cuts, nil) }
		}
		// a flight produced by a real client transport of type tt keyed with client x's secret
		foreignFlight := func(x *c02Client, tt pb.TransportType, params any) (func(h *simnet.Conn), error) {
			var ct interfaces.WrappingTransport
			switch tt {
			case pb.TransportType_Min:
				ct = &min.ClientTransport{}
			case pb.TransportType_Prefix:
				ct = &prefix.ClientTransport{}
			default:
				ct = &obfs4.ClientTransport{}
			}
			if err := ct.SetParams(params); err != nil {
				return nil, err
			}
			if err := ct.Prepare(context.Background(), nil); err != nil {
				return nil, err
			}
			ks, err := core.GenSharedKeys(uint(x.c.libver), x.c.keys.SharedSecret, tt)
			if err != nil {
				return nil, err
			}
			if err := ct.PrepareKeys(w.pub, x.c.keys.SharedSecret, ks.TransportReader); err != nil {
				return nil, err
			}
			if tt == pb.TransportType_Obfs4 {
				return func(h *simnet.Conn) {
					wc, err := ct.WrapConn(h)
					if err == nil {
						wc.Write([]byte("hello covert"))
					}
				}, nil
			}
			capc := &stCaptureConn{}
			if _, err := ct.WrapConn(capc); err != nil {
				return nil, err
			}
			return sendBytes(append(capc.buf.Bytes(), []byte("hello covert")...)), nil
		}
		genuine := func(x *c02Client) (func(h *simnet.Conn), error) {
			if x.c.tt == pb.TransportType_Obfs4 {
				return func(h *simnet.Conn) {
					wc, err := x.c.ct.WrapConn(h)
					if err == nil {
						wc.Write([]byte("hello covert"))
					}
				}, nil
			}
			fl, err := x.c.flight()
			if err != nil {
				return nil, err
			}
			return sendBytes(append(fl, []byte("hello covert")...)), nil
		}

		// sweep runs the station's clean-up and follows it in the model
		sweep := func() {
			w.rm.RemoveOldRegistrations()
			for _, x := range cl {
				for _, g := range x.regs {
					if g.state != c02None && nearThreshold(g) {
						g.state = c02Unknown
					} else if g.state != c02None && g.state != c02Unknown && expired(g) {
						g.state = c02None
					} else if g.state == c02Unknown && expired(g) && !nearThreshold(g) {
						g.state = c02None
					}
				}
			}
		}

		for op := 0; op < nops && !r.Failed(); op++ {
			switch k := tp.Choose("op", 12); {
			case k < 3: // register / duplicate
				x := cl[tp.Choose("client", len(cl))]
				ph4 := x.ph(false).String()
				w.mu.Lock()
				live4 := w.live[ph4]
				w.mu.Unlock()
				if pp, ok := x.c.pparams.(*pb.PrefixTransportParams); ok && x.c.tt == pb.TransportType_Prefix &&
					x.regs[0].state == c02Valid && x.regs[1].state == c02Valid && tp.Prob("dup-other-prefix", 1, 3) {
					// a duplicate of a tracked, validated registration that names ANOTHER prefix: the
					// registration stays what it was (a duplicate is only counted), so flights of that
					// other prefix are still flights "for a different prefix than the one registered"
					other := (pp.GetPrefixId() + 1 + int32(tp.Choose("dup-prefix", 9))) % 10
					np := proto.Clone(pp).(*pb.PrefixTransportParams)
					np.PrefixId = proto.Int32(other)
					msg := x.c.regMessage(func(wr *pb.C2SWrapper) {
						if a, err := anypb.New(np); err == nil {
							wr.RegistrationPayload.TransportParams = a
						}
						if x.ov[0] != nil || x.ov[1] != nil {
							rr := &pb.RegistrationResponse{}
							if x.ov[0] != nil {
								rr.Ipv4Addr = proto.Uint32(binary.BigEndian.Uint32(x.ov[0].To4()))
							}
							if x.ov[1] != nil {
								rr.Ipv6Addr = x.ov[1]
							}
							wr.RegistrationResponse = rr
						}
					})
					w.register(msg)
					x.dupPrefix = other
					r.Probe("duplicate_naming_another_prefix")
					r.Logf("op%d duplicate of client %d's registration naming prefix id %d (registered: %d)", op, x.c.id, other, pp.GetPrefixId())
					break
				}
				w.register(x.regMsg())
				for fam := 0; fam < 2; fam++ {
					g := x.regs[fam]
					rejectNow := fam == 0 && live4
					switch g.state {
					case c02None:
						g.at = time.Now()
						g.used = false
						if rejectNow {
							g.state = c02Rejected
						} else {
							g.state = c02Valid
						}
					case c02Rejected:
						if !rejectNow {
							g.state = c02Unknown
						}
					}
				}
				r.Logf("op%d register client %d (v4 phantom live=%v) -> v4 %d v6 %d", op, x.c.id, live4, x.regs[0].state, x.regs[1].state)
				r.Cover("reg", fmt.Sprint(x.regs[0].state, x.regs[1].state))
			case k == 3: // flip liveness of a v4 phantom
				ph := []string{"192.0.2.4", "192.0.2.5"}[tp.Choose("phantom", 2)]
				w.mu.Lock()
				w.live[ph] = !w.live[ph]
				now := w.live[ph]
				w.mu.Unlock()
				r.Logf("op%d phantom %s live=%v", op, ph, now)
				r.Cover("live")
			case k == 4 || k == 5: // time
				d := deltas[tp.Choose("delta", len(deltas))]
				time.Sleep(d)
				r.Logf("op%d advance %v", op, d)
				r.Cover("adv", d.String())
			case k == 6: // sweep
				sweep()
				r.Logf("op%d sweep", op)
				r.Cover("sweep")
			default: // connect
				x := cl[tp.Choose("client", len(cl))]
				fam := tp.Choose("family", 2)
				g := x.regs[fam]
				kind := tp.Choose("ckind", 8)
				phantom := x.ph(fam == 1)
				var send func(h *simnet.Conn)
				var err error
				mustReject := false
				label := ""
				switch kind {
				case 0, 1:
					label = "genuine flight"
					send, err = genuine(x)
				case 2:
					label = "genuine flight aimed at another phantom"
					// a phantom on which this secret has no registration
					other := cl[(x.c.id+1)%len(cl)].ph(fam == 1)
					if x.ov[fam] != nil {
						// the address the client's seed derives: the registrar moved the registration away from it
						other = x.c.phantom(fam == 1)
						label = "genuine flight aimed at the derived phantom of a registration the registrar moved"
					}
					if other.Equal(phantom) {
						other = net.ParseIP("192.0.2.200").To4()
						if fam == 1 {
							other = net.ParseIP("2001:db8:1::c8")
						}
					}
					phantom = other
					mustReject = true
					send, err = genuine(x)
				case 3:
					// same secret, other transport / other prefix id / obfs4 handshake
					mustReject = true
					switch x.c.tt {
					case pb.TransportType_Min:
						if tp.Bool("foreign-obfs4") {
							label = "obfs4 handshake keyed with the secret of a min registration"
							send, err = foreignFlight(x, pb.TransportType_Obfs4, nil)
						} else {
							label = "prefix flight keyed with the secret of a min registration"
							send, err = foreignFlight(x, pb.TransportType_Prefix, &prefix.ClientParams{PrefixID: int32(tp.Choose("fprefix", 10))})
						}
					case pb.TransportType_Prefix:
						switch tp.Choose("foreign", 3) {
						case 0:
							label = "min flight keyed with the secret of a prefix registration"
							send, err = foreignFlight(x, pb.TransportType_Min, nil)
						case 1:
							label = "obfs4 handshake keyed with the secret of a prefix registration"
							send, err = foreignFlight(x, pb.TransportType_Obfs4, nil)
						default:
							mine := int32(0)
							if cp, ok := x.c.params.(*prefix.ClientParams); ok {
								mine = cp.PrefixID
							}
							other := (mine + 1 + int32(tp.Choose("fprefix", 9))) % 10
							if x.dupPrefix >= 0 && x.dupPrefix != mine && tp.Bool("prefix-of-duplicate") {
								other = x.dupPrefix
								r.Probe("flight_for_prefix_named_by_duplicate")
							}
							label = fmt.Sprintf("prefix flight with prefix id %d for a registration made with prefix id %d", other, mine)
							send, err = foreignFlight(x, pb.TransportType_Prefix, &prefix.ClientParams{PrefixID: other})
						}
					default:
						if tp.Bool("foreign-min") {
							label = "min flight keyed with the secret of an obfs4 registration"
							send, err = foreignFlight(x, pb.TransportType_Min, nil)
						} else {
							label = "prefix flight keyed with the secret of an obfs4 registration"
							send, err = foreignFlight(x, pb.TransportType_Prefix, &prefix.ClientParams{PrefixID: int32(tp.Choose("fprefix", 10))})
						}
					}
				case 4, 5:
					mustReject = true
					if x.c.tt == pb.TransportType_Obfs4 {
						label = "random bytes of handshake size"
						send = sendBytes(tp.Bytes("junk", 300+tp.Choose("junklen", 8000)))
						break
					}
					fl, e := x.c.flight()
					err = e
					if e != nil {
						break
					}
					tagLen := 32
					if x.c.tt == pb.TransportType_Prefix {
						tagLen = 64
					}
					if kind == 4 {
						nb := 1 + tp.Choose("nflips", 3)
						flipped := map[int]bool{}
						for i := 0; i < nb; i++ {
							bit := tp.Choose("bit", tagLen*8)
							// distinct bits (flipping one bit twice restores it), and not the two high
							// bits of the Elligator representative (byte 31 of the obfuscated prefix
							// tag): they are random padding that the station masks off, so changing
							// them does not alter the tag that is revealed
							for flipped[bit] || (tagLen == 64 && bit/8 == 31 && bit%8 >= 6) {
								bit = (bit + 1) % (tagLen * 8)
							}
							flipped[bit] = true
							fl[len(fl)-tagLen+bit/8] ^= 1 << (bit % 8)
						}
						label = fmt.Sprintf("genuine flight with %d bit(s) flipped in the tag", nb)
						send = sendBytes(append(fl, []byte("hello covert")...))
					} else {
						cut := 1 + tp.Choose("trunc", len(fl)-1)
						label = fmt.Sprintf("genuine flight truncated to %d of %d bytes", cut, len(fl))
						send = sendBytes(fl[:cut])
					}
				default:
					mustReject = true
					label = "random bytes"
					send = sendBytes(tp.Bytes("junk", 1+tp.Choose("junklen", 600)))
				}
				if err != nil {
					r.Fail("harness/c02-flight", "%s: %v", label, err)
					return
				}
				// what does the model say about (secret, this phantom)?
				verdict := "reject"
				if !mustReject {
					switch {
					case g.state == c02Valid && !expired(g) && !nearThreshold(g):
						verdict = "match"
					case g.state == c02Valid || g.state == c02Unknown:
						verdict = "dontcare"
					}
				}
				var mid func()
				if verdict == "match" && x.c.tt != pb.TransportType_Obfs4 && tp.Prob("flight-after-expiry", 1, 6) {
					// The connection is accepted while the registration is valid; the registration expires
					// and is swept while the handler waits for the first bytes; then the genuine flight
					// arrives: it is aimed at a registration that has expired by the time it is matched.
					life := 10 * time.Minute
					if g.used {
						life = 6 * time.Hour
					}
					if rem := life - time.Since(g.at); rem > time.Second {
						time.Sleep(rem - time.Second)
					}
					mid = func() {
						time.Sleep(2 * time.Second)
						sweep()
					}
					verdict = "reject"
					label += ", sent 2 s after the connection was accepted; meanwhile the registration expired and was swept"
					r.Probe("flight_after_registration_expired_on_open_connection")
					r.Nontrivial()
				}
				if mustReject && registryNonEmpty() {
					r.Nontrivial()
				}
				r.Cover("conn", fmt.Sprint(kind, x.c.tt, fam, g.state, verdict, mid != nil))
				addr, done := connect(phantom, send, fmt.Sprintf("op%d client %d (%s) v%d: %s [model: state=%d expect=%s]", op, x.c.id, stTransportName(x.c.tt), 4+2*fam, label, g.state, verdict), mid)
				if !done {
					r.Fail("C02/handler-stuck", "%s: the handler did not return", label)
					return
				}
				circ := stTransportName(x.c.tt)
				switch verdict {
				case "reject":
					if addr != "" {
						why := label
						if !mustReject {
							why = fmt.Sprintf("genuine flight for a registration in state %d (0 none/swept, 1 rejected)", g.state)
						}
						r.Fail("C02/accepted/"+c02Slug(kind, mustReject, g.state)+"/"+circ, "%s was accepted on phantom %s: the station dialled %s", why, phantom, addr)
						return
					}
				case "match":
					if addr == "" {
						r.Fail("C02/valid-registration-not-matched/"+circ, "genuine flight for a validated, unexpired registration on phantom %s was not matched", phantom)
						return
					}
					if addr != x.c.covert {
						r.Fail("C02/matched-wrong-registration/"+circ, "genuine flight of client %d was matched to the registration whose covert is %s (its own is %s)", x.c.id, addr, x.c.covert)
						return
					}
					g.used = true
				default:
					if addr != "" && addr != x.c.covert {
						r.Fail("C02/matched-wrong-registration/"+circ, "flight of client %d was matched to the registration whose covert is %s (its own is %s)", x.c.id, addr, x.c.covert)
						return
					}
					if addr != "" {
						g.used = true
					}
				}
			}
		}
		finished = true
	})
	st := sim.Drive(r, s, sim.DriveOpt{Horizon: 400 * time.Hour, MaxSteps: 200000, Until: func() bool { return finished }})
	r.CoverU(s.SigHash)
	if st == sim.Failed || r.Failed() {
		return
	}
	if !finished {
		r.Fail("C02/stuck", "scenario did not finish (%v): %v", st, s.LiveNames())
	}
}

func c02Slug(kind int, mustReject bool, st c02State) string {
	if !mustReject {
		if st == c02Rejected {
			return "unvalidated-registration"
		}
		return "swept-or-unknown-registration"
	}
	switch kind {
	case 2:
		return "other-phantom"
	case 3:
		return "other-transport-or-prefix"
	case 4:
		return "altered-tag"
	case 5:
		return "truncated"
	}
	return "random-bytes"
}
