package main

// C17 — client addresses never reach the station's logs unless logging them is
// enabled. Connections with distinctive client addresses are driven through the
// real station while every I/O call of classification and relay is made to
// fail with every error shape (fault enumeration); everything the process
// writes to its log writers is captured and searched for the address.

import (
	"bytes"
	"context"
	"errors"
	"fmt"
	"io"
	"net"
	"os"
	"strings"
	"syscall"
	"testing"
	"time"

	"github.com/refraction-networking/conjure/pkg/core"
	"github.com/refraction-networking/conjure/pkg/transports"
	"google.golang.org/protobuf/proto"
	"google.golang.org/protobuf/types/known/anypb"

	cj "github.com/refraction-networking/conjure/pkg/station/lib"
	"github.com/refraction-networking/conjure/pkg/station/log"
	"github.com/refraction-networking/conjure/pkg/transports/wrapping/prefix"
	pb "github.com/refraction-networking/conjure/proto"

	"verif/sim"
	"verif/sim/hook"
	"verif/sim/simnet"
)

type c17Site struct {
	end string // "client" | "covert" | "dial"
	op  string
	idx int
}

var c17Sites = []c17Site{
	{"client", "deadline", 0}, {"client", "deadline", 1}, {"client", "deadline", 2},
	{"client", "read", 0}, {"client", "read", 1}, {"client", "read", 2}, {"client", "read", 3}, {"client", "read", 4},
	{"client", "write", 0}, {"client", "write", 1}, {"client", "close", 0},
	{"dial", "dial", 0},
	{"covert", "deadline", 0}, {"covert", "deadline", 1},
	{"covert", "read", 0}, {"covert", "read", 1},
	{"covert", "write", 0}, {"covert", "write", 1}, {"covert", "close", 0},
}

func c17Shapes(op string) int {
	switch op {
	case "read":
		return len(simnet.ReadShapes)
	case "write":
		return len(simnet.WriteShapes)
	case "close":
		return len(simnet.CloseShapes)
	case "deadline":
		return len(simnet.DeadlineShapes)
	}
	return len(simnet.DialShapes)
}

// outcome classes of a connection
var c17Outcomes = []string{"no-registration", "no-transport", "found-min", "found-prefix", "found-obfs4", "transport-error", "connecting-fail", "connecting-ok", "accept-path"}

// address families of the client
var c17Families = []string{"v4", "v6", "v4mapped"}

var c17Enum = func() [][]int {
	var out [][]int
	for oc := range c17Outcomes {
		for fam := range c17Families {
			for ph := 0; ph < 2; ph++ {
				if ph == 1 && !strings.HasPrefix(c17Outcomes[oc], "found-") && c17Outcomes[oc] != "connecting-ok" {
					continue // the PROXY header is only written by a relay
				}
				out = append(out, []int{1, oc, fam, ph, 0}) // fault-free
				for si, s := range c17Sites {
					for sh := 0; sh < c17Shapes(s.op); sh++ {
						out = append(out, []int{1, oc, fam, ph, 1, si, sh})
					}
				}
			}
		}
	}
	return out
}()

func TestVerifC17(t *testing.T) {
	sim.Main(t, sim.Config{
		Prop:     "C17",
		Scenario: c17Scenario,
		EnumN:    func(string) int { return len(c17Enum) },
		EnumAt:   func(_ string, i int) []int { return c17Enum[i] },
		EnumLabels: func(_ string, i int) []string {
			return []string{"mode", "outcome", "family", "proxy-header", "nfaults", "site", "shape"}[:len(c17Enum[i])]
		},
		Runs:     map[string]int{"quick": 10000, "thorough": 600000},
		Real:     []string{"cmd/application handleNewTCPConn incl. both generalizeErr call paths and every log statement", "pkg/station/lib Proxy / halfPipe / tunnelStats summaries / generalizeErr", "transports (obfs4 server handshake I/O on the client connection)", "ingest pipeline log lines (registration path)", "pkg/station/log level filtering at the default level"},
		Stub:     []string{"TCP connections with fault plans (simnet; errors shaped like the net package's, whose text embeds both endpoints)", "covert echo host, liveness table, detector recorder", "stdout/stderr/std logger are redirected to a capture file in TestMain before any logger exists"},
		Rule: "enumerated: outcome class {no registration, no transport, found via min / prefix / obfs4, transport error, connecting transport whose Connect fails with one of 7 DTLS-shaped errors, connecting transport relayed} x client family {IPv4, IPv6, v4-mapped} x PROXY-header flag of the registration (relayed outcomes) x fault site (19 operation sites on the client connection, the dial and the covert connection) x every error shape of that operation kind (read 13, write 12, close 4, deadline 3, dial 8), plus the fault-free runs: all single faults; random: pairs of faults, registration-path events (forbidden covert, live phantom, duplicates, sweep). " +
			"non-trivial = the planned fault fired (or fault-free found/relay run); distinct = (outcome, family, fault plan, schedule)",
		Assume: []string{"LOG_CLIENT_IP unset or set to a false value (false, 0); default log level", "searched forms: dotted IPv4, RFC 5952 and fully expanded IPv6, with or without brackets/port"},
	})
}

func c17Forms(ip net.IP) []string {
	var f []string
	if v4 := ip.To4(); v4 != nil {
		f = append(f, v4.String())
		return f
	}
	f = append(f, strings.ToLower(ip.String()))
	var parts []string
	for i := 0; i < 16; i += 2 {
		parts = append(parts, fmt.Sprintf("%02x%02x", ip[i], ip[i+1]))
	}
	f = append(f, strings.Join(parts, ":"))
	return f
}

func c17Scenario(r *sim.Run) {
	tp := r.Tape
	s := hook.Install(tp)
	defer s.Uninstall()
	s.StayNum, s.StayDen = 1, 2
	o := stDefaultOpts()
	o.groups = []stSubnetGroup{{1, true, []string{"192.0.2.4/31", "2001:db8:1::4/127"}}}
	o.workers = 2
	o.covertBlock = []string{"10.0.0.0/8"}

	enumMode := tp.Choose("mode", 2) == 1
	outcome := tp.Choose("outcome", len(c17Outcomes))
	fam := tp.Choose("family", len(c17Families))
	proxyHeader := tp.Choose("proxy-header", 2) == 1
	type fplan struct {
		site  c17Site
		shape int
	}
	var plans []fplan
	nf := tp.Choose("nfaults", 3)
	if enumMode && nf > 1 {
		nf = 1
	}
	for i := 0; i < nf; i++ {
		si := tp.Choose("site", len(c17Sites))
		sh := tp.Choose("shape", c17Shapes(c17Sites[si].op))
		if c17Outcomes[outcome] == "found-obfs4" && c17Sites[si] == (c17Site{"client", "deadline", 2}) {
			// Not injected: the third SetDeadline on an obfs4 client connection is the obfs4 library's
			// own "clear the handshake deadline" call. obfs4 v0.1.2 (a dependency, outside this
			// repository) answers a failure there with `return nil` BEFORE it has set up its frame
			// encoder/decoder, so the station is handed a connection whose first Write dereferences nil
			// and takes the process down. A SetDeadline on an open socket does not fail in practice
			// (only "use of closed network connection"), and no property here is about it; DESIGN.md
			// section 10 records the observation.
			r.Probe("skipped_obfs4_deadline_clear_fault")
			continue
		}
		plans = append(plans, fplan{c17Sites[si], sh})
	}
	regEvents := 0
	if !enumMode {
		regEvents = tp.Choose("reg-events", 4)
	}

	// the operator's GeoIP databases: none / complete / unknown country / lookups fail / IPv4-only
	o.geo = tp.Choose("geoip", 5)
	// client-address logging is disabled: the variable is unset (the default) or spelled out as
	// a false value, as the shipped sysconfig/conjure.conf does (LOG_CLIENT_IP=false)
	switch v := tp.Choose("log-client-ip-env", 4); v {
	case 0, 1:
		os.Unsetenv("LOG_CLIENT_IP")
	default:
		os.Setenv("LOG_CLIENT_IP", []string{"false", "0"}[v-2])
		r.Probe("LOG_CLIENT_IP_set_to_a_false_value")
	}
	defer os.Unsetenv("LOG_CLIENT_IP")
	w := newStWorld(r, s, tp, o)
	if w == nil {
		return
	}
	defer w.close()

	var cliIP net.IP
	switch c17Families[fam] {
	case "v4":
		cliIP = net.ParseIP("198.51.100.213").To4()
	case "v6":
		cliIP = net.ParseIP("2001:db8:77::d5")
	default:
		cliIP = net.ParseIP("::ffff:198.51.100.213")
	}
	cliAddr := &net.TCPAddr{IP: cliIP, Port: 50123}
	v6 := c17Families[fam] == "v6"

	desc := fmt.Sprintf("outcome=%s family=%s proxy-header=%v", c17Outcomes[outcome], c17Families[fam], proxyHeader)
	for _, p := range plans {
		desc += fmt.Sprintf(" fault[%s %s#%d shape %d]", p.site.end, p.site.op, p.site.idx, p.shape)
		r.Cover(p.site.end, p.site.op, fmt.Sprint(p.site.idx, p.shape))
	}
	r.Cover(c17Outcomes[outcome], c17Families[fam], fmt.Sprint(proxyHeader))
	r.Logf("C17 %s", desc)

	applyClient := func(S *simnet.Conn) {
		for _, p := range plans {
			if p.site.end != "client" {
				continue
			}
			S.PlanFault(p.site.op, p.site.idx, c17Shape(p.site.op, p.shape).Make(S, p.site.op))
		}
	}
	finished := false
	s.Spawn("director", func() {
		// the registrant address is the client's address too (what a registrar forwards)
		var c *stClient
		mk := func(id int, tt pb.TransportType, params any) *stClient {
			x, err := w.newClient(id, tt, params)
			if err != nil {
				r.Fail("harness/c17-client", "%v", err)
				return nil
			}
			x.regAddr = cliIP
			if v4 := cliIP.To4(); v4 != nil {
				x.regAddr = v4
			}
			if v6 {
				x.v4 = false
			}
			if proxyHeader {
				// the registration asks for a PROXY protocol header (it names the client's address) in
				// front of the relayed stream
				x.flags = &pb.RegistrationFlags{ProxyHeader: proto.Bool(true)}
			}
			return x
		}
		var send func(h *simnet.Conn)
		var connecting *c17Connecting
		phantom := net.ParseIP("192.0.2.4").To4()
		if v6 {
			phantom = net.ParseIP("2001:db8:1::4")
		}
		junk := tp.Bytes("junk", 9000)
		switch c17Outcomes[outcome] {
		case "no-registration":
			send = func(h *simnet.Conn) { stWriteSegments(h, junk[:300], []int{100}, nil) }
		case "no-transport":
			if c = mk(0, pb.TransportType_Min, nil); c == nil {
				return
			}
			w.register(c.regMessage(nil))
			phantom = c.phantom(v6)
			send = func(h *simnet.Conn) { stWriteSegments(h, junk, []int{100, 5000}, nil) }
		case "found-min", "found-prefix":
			tt, params := pb.TransportType_Min, any(nil)
			if c17Outcomes[outcome] == "found-prefix" {
				tt, params = pb.TransportType_Prefix, &prefix.ClientParams{PrefixID: int32(tp.Choose("prefixid", 10))}
			}
			if c = mk(0, tt, params); c == nil {
				return
			}
			w.register(c.regMessage(nil))
			phantom = c.phantom(v6)
			fl, err := c.flight()
			if err != nil {
				r.Fail("harness/c17-flight", "%v", err)
				return
			}
			big := tp.Bool("big-chunk")
			send = func(h *simnet.Conn) {
				stWriteSegments(h, append(fl, []byte("application data 1")...), []int{10}, nil)
				stReadN(h, 18, 20*time.Second)
				if big {
					// one segment larger than the relay's 32 KiB buffer: a relay Read returns a full
					// buffer (possibly together with a planned error)
					h.Write(bytes.Repeat([]byte("B"), 40000))
					stReadN(h, 40000, 20*time.Second)
					return
				}
				h.Write([]byte("application data 2"))
				stReadN(h, 18, 20*time.Second)
			}
		case "found-obfs4":
			if c = mk(0, pb.TransportType_Obfs4, nil); c == nil {
				return
			}
			w.register(c.regMessage(nil))
			phantom = c.phantom(v6)
			send = func(h *simnet.Conn) {
				wc, err := c.ct.WrapConn(h)
				if err != nil {
					return
				}
				wc.Write([]byte("application data 1"))
				stReadN(wc, 18, 20*time.Second)
			}
		case "accept-path":
			// the station's accept path (handleNewConn): it asks the accepted connection for its file
			// descriptor to read the original destination; File() fails when the process is out of
			// descriptors, with an OpError that names both endpoints
			H, S := simnet.Pipe(r, "accept.client", "accept.station", cliAddr, &net.TCPAddr{IP: phantom, Port: 443})
			H.Sched, S.Sched = true, true
			if k := tp.Choose("file-fault", len(simnet.FileShapes)+1); k > 0 {
				S.PlanFault("file", 0, simnet.FileShapes[k-1].Make(S, "file"))
				desc += " file-fault=" + simnet.FileShapes[k-1].Name
				r.Cover("file-fault", simnet.FileShapes[k-1].Name)
			}
			// socket options the accept path may set on the accepted connection (none on the pinned tree):
			// a failing setsockopt answers with an OpError that names both endpoints as well
			if k := tp.Choose("sockopt-fault", len(simnet.SockoptShapes)+1); k > 0 {
				for idx := 0; idx < 4; idx++ {
					S.PlanFault("sockopt", idx, simnet.SockoptShapes[k-1].Make(S, "sockopt"))
				}
				desc += " sockopt-fault=" + simnet.SockoptShapes[k-1].Name
			}
			acceptDone := false
			s.Spawn("accept.handler", func() {
				w.cm.handleNewConn(w.rm, S)
				acceptDone = true
			})
			for i := 0; i < 20 && !acceptDone; i++ {
				w.settle()
				time.Sleep(time.Second)
			}
			H.Close()
			r.Probe("accept_path")
		case "connecting-fail", "connecting-ok":
			// a registration for a transport with which the STATION connects to the client (as the
			// DTLS transport does): ingest calls Connect and relays over the returned connection
			ct := &c17Connecting{w: w, cli: cliAddr, v6: v6, ok: c17Outcomes[outcome] == "connecting-ok", apply: applyClient}
			if !ct.ok {
				ct.shape = tp.Choose("connect-error", len(c17ConnectErrors))
				desc += " connect-error=" + c17ConnectErrors[ct.shape].name
				r.Cover("connect-error", c17ConnectErrors[ct.shape].name)
			}
			w.rm.AddTransport(pb.TransportType_DTLS, ct)
			if c = mk(0, pb.TransportType_Min, nil); c == nil {
				return
			}
			c.tt = pb.TransportType_DTLS
			c.pparams = nil
			if c.flags == nil {
				c.flags = &pb.RegistrationFlags{}
			}
			// the liveness probe of the phantom is not what this outcome is about
			c.flags.Prescanned = proto.Bool(true)
			connecting = ct
		default: // transport error: a prefix flight with another prefix id than the registered one
			if c = mk(0, pb.TransportType_Prefix, &prefix.ClientParams{PrefixID: 1}); c == nil {
				return
			}
			w.register(c.regMessage(nil))
			phantom = c.phantom(v6)
			wrong, err := w.newClient(1, pb.TransportType_Prefix, &prefix.ClientParams{PrefixID: 2})
			if err != nil {
				r.Fail("harness/c17-client", "%v", err)
				return
			}
			wrong.ct.PrepareKeys(w.pub, c.keys.SharedSecret, nil)
			fl, err := wrong.flight()
			if err != nil {
				r.Fail("harness/c17-flight", "%v", err)
				return
			}
			send = func(h *simnet.Conn) { stWriteSegments(h, append(fl, junk[:50]...), nil, nil) }
		}
		// registration-path events with the same registrant address
		for i := 0; i < regEvents; i++ {
			x := mk(10+i, pb.TransportType_Min, nil)
			if x == nil {
				return
			}
			var mut func(*pb.C2SWrapper)
			switch tp.Choose("reg-event", 5) {
			case 4:
				// the registrar's response carries an IPv4-mapped address in its IPv6 override field:
				// for an IPv6 registrant the station refuses ("IPv6 client chose IPv4 phantom") and logs why
				mut = func(wr *pb.C2SWrapper) {
					wr.RegistrationResponse = &pb.RegistrationResponse{Ipv6Addr: net.IPv4(192, 0, 2, 55).To16()}
				}
				r.Probe("reg_mapped_override")
			case 0:
				x.covert = "10.1.2.3:443" // forbidden by the covert blocklist
				r.Probe("reg_forbidden_covert")
			case 1:
				w.mu.Lock()
				w.live[x.phantom(false).String()] = true
				w.mu.Unlock()
				r.Probe("reg_live_phantom")
			case 2:
				w.register(x.regMessage(nil)) // then a duplicate
				r.Probe("reg_duplicate")
			default:
				x.covert = "not an address"
				r.Probe("reg_malformed_covert")
			}
			w.register(x.regMessage(mut))
			w.mu.Lock()
			w.live = map[string]bool{}
			w.mu.Unlock()
		}
		if c != nil {
			for _, p := range plans {
				if p.site.end == "dial" {
					w.mu.Lock()
					w.dialFault[c.covert] = simnet.DialShapes[p.shape].Make(simnet.TCP("203.0.113.10", 443))
					w.mu.Unlock()
				}
			}
		}
		w.covertPlan = func(S *simnet.Conn) {
			for _, p := range plans {
				if p.site.end == "covert" {
					S.PlanFault(p.site.op, p.site.idx, c17Shape(p.site.op, p.shape).Make(S, p.site.op))
				}
			}
		}
		if connecting != nil && connecting.ok && tp.Bool("layered-errors") {
			// the connection a connecting transport hands back is a stack of its own (DTLS, SCTP,
			// heartbeat layers): its errors arrive wrapped (%w) in the layers' own errors
			connecting.wrap = true
			desc += " layered-errors"
			r.Probe("connecting_layered_errors")
		}
		if connecting != nil {
			// the registration itself triggers the station's connection attempt
			w.register(c.regMessage(nil))
			w.settle()
			if H := connecting.H; H != nil {
				H.Write([]byte("application data 1"))
				stReadN(H, 18, 20*time.Second)
				H.Write([]byte("application data 2"))
				stReadN(H, 18, 20*time.Second)
				w.settle()
				H.Close()
			}
			for i := 0; i < 300 && connecting.calls > 0 && !connecting.done(); i++ {
				w.settle()
				time.Sleep(time.Second)
			}
			if connecting.calls == 0 {
				if o.geo < 3 {
					r.Fail("harness/c17-connecting", "the station never called Connect for the connecting-transport registration")
					return
				}
				// the registration was refused because the GeoIP lookup of the registrant failed
				r.Probe("connecting_registration_refused_geoip")
			} else {
				r.Probe("connecting_" + map[bool]string{true: "relayed", false: "failed"}[connecting.ok])
			}
		}
		conn := w.openWith(phantom, cliAddr, applyClient)
		if send == nil {
			send = func(h *simnet.Conn) { stWriteSegments(h, junk[:300], []int{100}, nil) }
		}
		send(conn.H)
		for i := 0; i < 14 && !conn.returned; i++ {
			w.settle()
			if conn.returned {
				break
			}
			time.Sleep(time.Second)
		}
		conn.H.Close()
		for i := 0; i < 300 && !conn.returned; i++ {
			w.settle()
			time.Sleep(time.Second)
		}
		w.settle()
		// housekeeping that logs: the periodic statistics of every module main() registers that
		// exists in this world (normal and verbose epoch), then a sweep after expiry
		statLogger := log.New(os.Stdout, "[STATS] ", 0)
		for epoch := 0; epoch < 2; epoch++ {
			w.rm.PrintAndReset(statLogger)
			cj.GetProxyStats().PrintAndReset(statLogger)
			w.cm.PrintAndReset(statLogger)
			cj.Stat().PrintStats(epoch == 1)
		}
		time.Sleep(11 * time.Minute)
		w.rm.RemoveOldRegistrations()
		finished = true
	})
	st := sim.Drive(r, s, sim.DriveOpt{Horizon: 3 * time.Hour, MaxSteps: 100000, Until: func() bool { return finished }})
	r.CoverU(s.SigHash)
	if st == sim.Failed || r.Failed() {
		return
	}
	if !finished {
		r.Fail("harness/c17-stuck", "scenario did not finish (%v): %v", st, s.LiveNames())
		return
	}
	fired := 0
	for range r.Faults {
		fired++
	}
	if fired > 0 || len(plans) == 0 {
		r.Nontrivial()
	}
	out := bytes.ToLower(w.logSince())
	for _, form := range c17Forms(cliIP) {
		if i := bytes.Index(out, []byte(form)); i >= 0 {
			ls := bytes.LastIndexByte(out[:i], '\n') + 1
			le := bytes.IndexByte(out[i:], '\n')
			if le < 0 {
				le = len(out) - i
			}
			line := string(out[ls : i+le])
			what := "no-fault"
			if len(plans) > 0 {
				what = ""
				for k, p := range plans {
					if k > 0 {
						what += "+"
					}
					name := ""
					if p.site.end == "dial" {
						name = "dial/" + simnet.DialShapes[p.shape].Name
					} else {
						name = p.site.end + "-" + p.site.op + "/" + c17Shape(p.site.op, p.shape).Name
					}
					what += name
				}
			}
			if wh := c17Where(line); wh == "ingest-dropped-registration" || wh == "registration-log" {
				what = "registration-path"
			}
			r.Fail("C17/leak/"+c17Where(line)+"/"+what, "the station's log contains the client address %s: %q", form, line)
			return
		}
	}
}

// c17Connecting stands in for a connecting transport (the DTLS transport dials the client over UDP
// and runs a handshake; here Connect either fails with an error shaped like the ones that transport
// returns, or hands the station one end of a simulated connection to the client).
type c17Connecting struct {
	w     *stWorld
	cli   *net.TCPAddr
	v6    bool
	ok    bool
	shape int
	apply func(S *simnet.Conn)
	calls int
	H, S  *simnet.Conn
	wrap  bool // errors of the returned connection arrive wrapped in a layer's own error
}

// c17Layered is the connection of a layered transport: every error of the connection below comes
// back wrapped (errors.Is / errors.As still see it), except a bare end of stream.
type c17Layered struct{ net.Conn }

func c17Wrap(err error) error {
	if err == nil || err == io.EOF {
		return err
	}
	return fmt.Errorf("transport stream: %w", err)
}
func (c c17Layered) Read(b []byte) (int, error)         { n, err := c.Conn.Read(b); return n, c17Wrap(err) }
func (c c17Layered) Write(b []byte) (int, error)        { n, err := c.Conn.Write(b); return n, c17Wrap(err) }
func (c c17Layered) Close() error                       { return c17Wrap(c.Conn.Close()) }
func (c c17Layered) SetDeadline(t time.Time) error      { return c17Wrap(c.Conn.SetDeadline(t)) }
func (c c17Layered) SetReadDeadline(t time.Time) error  { return c17Wrap(c.Conn.SetReadDeadline(t)) }
func (c c17Layered) SetWriteDeadline(t time.Time) error { return c17Wrap(c.Conn.SetWriteDeadline(t)) }

var c17ConnectErrors = []struct {
	name string
	mk   func(local, remote net.Addr) error
}{
	{"dial-unreachable-flattened", func(l, r net.Addr) error {
		return fmt.Errorf("error connecting to dtls client: %v", &net.OpError{Op: "dial", Net: "udp", Source: l, Addr: r, Err: os.NewSyscallError("connect", syscall.ENETUNREACH)})
	}},
	{"dial-unreachable-wrapped", func(l, r net.Addr) error {
		return fmt.Errorf("error connecting to dtls client: %w", &net.OpError{Op: "dial", Net: "udp", Source: l, Addr: r, Err: os.NewSyscallError("connect", syscall.ENETUNREACH)})
	}},
	{"read-refused-bare", func(l, r net.Addr) error {
		return &net.OpError{Op: "read", Net: "udp", Source: l, Addr: r, Err: os.NewSyscallError("read", syscall.ECONNREFUSED)}
	}},
	{"both-attempts-combined", func(l, r net.Addr) error {
		e1 := fmt.Errorf("error connecting to dtls client: %v", &net.OpError{Op: "read", Net: "udp", Source: l, Addr: r, Err: os.NewSyscallError("read", syscall.ECONNREFUSED)})
		e2 := fmt.Errorf("error accepting dtls connection from secret: %v", errors.New("seed already registered"))
		return fmt.Errorf("%v, %v", e1, e2)
	}},
	{"deadline", func(l, r net.Addr) error { return context.DeadlineExceeded }},
	{"deadline-wrapped", func(l, r net.Addr) error { return fmt.Errorf("error accepting: %w", context.DeadlineExceeded) }},
	{"no-addresses", func(l, r net.Addr) error { return errors.New("seed already registered") }},
}

func (*c17Connecting) Name() string      { return "VerifConnecting" }
func (*c17Connecting) LogPrefix() string { return "VCONN" }
func (*c17Connecting) GetIdentifier(d transports.Registration) string {
	return string(core.ConjureHMAC(d.SharedSecret(), "VerifConnectingHMACString"))
}
func (*c17Connecting) GetProto() pb.IPProto { return pb.IPProto_Udp }
func (*c17Connecting) GetDstPort(uint, []byte, any) (uint16, error) {
	return 443, nil
}
func (*c17Connecting) ParseParams(uint, *anypb.Any) (any, error) { return nil, nil }
func (*c17Connecting) ParamStrings(any) []string                 { return nil }

// done: the relay closes the connection it was given when it is finished
func (t *c17Connecting) done() bool { return t.S == nil || t.S.IsClosed() }

func (t *c17Connecting) Connect(ctx context.Context, reg transports.Registration) (net.Conn, error) {
	hook.Yield("connect")
	t.calls++
	local := &net.UDPAddr{IP: *reg.PhantomIP(), Port: int(reg.GetDstPort())}
	remote := &net.UDPAddr{IP: t.cli.IP, Port: t.cli.Port}
	if !t.ok {
		err := c17ConnectErrors[t.shape].mk(local, remote)
		t.w.r.Fault("connect-error/" + c17ConnectErrors[t.shape].name)
		t.w.r.Logf("Connect(%s) fails: (error text withheld from the log on purpose)", c17ConnectErrors[t.shape].name)
		return nil, err
	}
	if t.calls > 1 {
		return nil, errors.New("seed already registered")
	}
	H, S := simnet.Pipe(t.w.r, "connecting.client", "connecting.station", remote, local)
	H.Sched, S.Sched = true, true
	if t.apply != nil {
		t.apply(S)
	}
	t.H, t.S = H, S
	if t.wrap {
		return c17Layered{S}, nil
	}
	return S, nil
}

func c17Shape(op string, i int) simnet.Shape {
	switch op {
	case "read":
		return simnet.ReadShapes[i]
	case "write":
		return simnet.WriteShapes[i]
	case "close":
		return simnet.CloseShapes[i]
	}
	return simnet.DeadlineShapes[i]
}

// c17Where names the log statement class from the captured line (stable words only).
func c17Where(line string) string {
	switch {
	case strings.Contains(line, "proxy closed"):
		return "tunnel-summary"
	case strings.Contains(line, "dropping reg"):
		return "ingest-dropped-registration"
	case strings.Contains(line, "discarding data"):
		return "classification-discard"
	case strings.Contains(line, "reading from connection"):
		return "classification-read"
	case strings.Contains(line, "unexpected error from transport"):
		return "transport-error"
	case strings.Contains(line, "setting deadline"):
		return "set-deadline"
	case strings.Contains(line, "setlinger"), strings.Contains(line, "close"):
		return "close"
	case strings.Contains(line, "[reg]"):
		return "registration-log"
	case strings.Contains(line, "[conn]"):
		return "connection-log"
	}
	return "other"
}
