package main

// Main world: the REAL main() of cmd/application runs inside the simulation.
//
// The worlds of C02-C10 / C17 build the station from its parts and re-implement the glue of main()
// (sweep ticker, reload on SIGHUP, stop sequence) in a few harness lines, so a change to that glue
// was out of their reach. Here main() itself is a scheduler task: it parses a generated
// configuration file, builds the registration manager, the transports, the sweeper, the ingest
// pipeline, and waits for signals. seamgen rule `wrap=` routes the four things of main() that need
// the operating system through this file: the DTLS listener + tun device (dtls.NewTransport), the ZMQ
// sockets (ZMQIngester.RunZMQ), the TCP accept loop (connManager.acceptConnections) and signal.Notify.
// Everything else of main() is the code of the working tree.

import (
	"bytes"
	"context"
	"flag"
	"fmt"
	"net"
	"net/netip"
	"os"
	"path/filepath"
	"reflect"
	"sort"
	"strings"
	"sync"
	"syscall"
	"testing"
	"time"

	cj "github.com/refraction-networking/conjure/pkg/station/lib"
	"github.com/refraction-networking/conjure/pkg/station/log"
	"github.com/refraction-networking/conjure/pkg/transports/connecting/dtls"
	"github.com/refraction-networking/conjure/pkg/transports/wrapping/prefix"
	pb "github.com/refraction-networking/conjure/proto"
	"golang.org/x/crypto/curve25519"
	"google.golang.org/protobuf/proto"

	"verif/sim"
	"verif/sim/hook"
	"verif/sim/simnet"
)

// ---- the wrappers the rewritten main.go calls ------------------------------------------

var mnActive *stWorld // the world whose main() is running (nil: every wrapper is the original)

func verifWrap_dtls_NewTransport[F any](orig F) F {
	w := mnActive
	if w == nil {
		return orig
	}
	ft := reflect.TypeOf(orig)
	return reflect.MakeFunc(ft, func(args []reflect.Value) []reflect.Value {
		w.r.Logf("main: dtls.NewTransport (stand-in: no UDP listener, no tun device)")
		return []reflect.Value{reflect.ValueOf(&dtls.Transport{}), reflect.Zero(ft.Out(1))}
	}).Interface().(F)
}

func verifWrap_signal_Notify(orig func(chan<- os.Signal, ...os.Signal)) func(chan<- os.Signal, ...os.Signal) {
	w := mnActive
	if w == nil {
		return orig
	}
	return func(c chan<- os.Signal, sigs ...os.Signal) {
		w.mu.Lock()
		w.mnSig = c
		w.mu.Unlock()
		w.r.Logf("main: signal.Notify(%v)", sigs)
	}
}

func verifWrap_RunZMQ(orig func(context.Context), zi *cj.ZMQIngester) func(context.Context) {
	w := mnActive
	if w == nil {
		return orig
	}
	return func(ctx context.Context) {
		w.mu.Lock()
		w.mnRegChan = cj.VerifZMQRegChan(zi)
		w.mu.Unlock()
		w.r.Logf("main: RunZMQ (stand-in: the world publishes into main's channel)")
		// The stand-in keeps the one property of the pinned RunZMQ that main()'s shutdown can depend on:
		// its receive loop blocks in the socket and looks at the context only after a message has
		// arrived. After cancellation it therefore returns with the next message that arrives, and not
		// at all on a quiet feed (until the world is torn down).
		<-ctx.Done()
		select {
		case <-w.mnZMQMsg:
		default:
		}
		select {
		case <-w.mnZMQMsg:
		case <-w.mnZMQStop:
		}
	}
}

func verifWrap_acceptConnections(orig func(context.Context, *cj.RegistrationManager, *log.Logger), cm *connManager) func(context.Context, *cj.RegistrationManager, *log.Logger) {
	w := mnActive
	if w == nil {
		return orig
	}
	return func(ctx context.Context, rm *cj.RegistrationManager, logger *log.Logger) {
		w.mu.Lock()
		w.cm, w.rm = cm, rm
		w.mu.Unlock()
		w.r.Logf("main: acceptConnections (stand-in: the world hands connections to handleNewTCPConn)")
		<-ctx.Done()
	}
}

// ---- configuration files ---------------------------------------------------------------

// the covert policy pool: a configuration blocks a subset of these; the probe address of each lies inside it
var mnPool = []struct{ cidr, probe string }{
	{"203.0.113.128/25", "203.0.113.200"},
	{"198.18.0.0/16", "198.18.7.7"},
	{"10.0.0.0/8", "10.1.2.3"},
}

func mnConfigToml(dir string, workers int, blocked uint, badEntry string) string {
	var b strings.Builder
	fmt.Fprintf(&b, "privkey_path = %q\nzmq_privkey_path = %q\nlog_level = \"error\"\n", filepath.Join(dir, "mn_privkey"), filepath.Join(dir, "mn_zmqkey"))
	b.WriteString("cache_expiration_time = \"2.0h\"\ncache_capacity = 0\ncache_expiration_nonlive = \"5m\"\ncache_capacity_nonlive = 0\n")
	fmt.Fprintf(&b, "enable_v4 = true\nenable_v6 = true\ningest_worker_count = %d\n", workers)
	b.WriteString("covert_blocklist_domains = [\"localhost\"]\ncovert_blocklist_subnets = [\"127.0.0.1/32\", \"::1/128\"")
	for i, p := range mnPool {
		if blocked&(1<<uint(i)) != 0 {
			fmt.Fprintf(&b, ", %q", p.cidr)
		}
	}
	if badEntry != "" {
		fmt.Fprintf(&b, ", %q", badEntry)
	}
	b.WriteString("]\ncovert_blocklist_public_addrs = false\ncovert_allowlist_subnets = []\nphantom_blocklist = []\n")
	b.WriteString("enable_share_over_api = false\npreshare_endpoint = \"\"\nsocket_name = \"zmq-proxy\"\nheartbeat_interval = 30000\nheartbeat_timeout = 1000\n")
	return b.String()
}

type mnReg struct {
	c      *stClient
	at     time.Time
	used   bool
	usedAt time.Time
	fam6   bool
}

func (w *stWorld) mnVisible(g *mnReg) bool {
	ph := g.c.phantom(g.fam6)
	for _, rg := range w.rm.GetRegistrations(ph) {
		if d, ok := rg.(*cj.DecoyRegistration); ok && string(d.Keys.SharedSecret) == string(g.c.keys.SharedSecret) {
			return true
		}
	}
	return false
}

func mnTest(t *testing.T, prop string) {
	sim.Main(t, sim.Config{
		Prop:     prop,
		Scenario: func(r *sim.Run) { mnScenario(r, prop) },
		Runs:     map[string]int{"quick": 1500, "thorough": 200000},
		Real: []string{"main() of cmd/application itself, as a task of the simulation: flag and configuration parsing (generated app_config.toml, key files, phantom subnet file), NewRegistrationManager (real liveness tester built from the configuration, empty GeoIP), transport set-up, the 3-minute sweeper goroutine, HandleRegUpdates with its worker pool, the signal loop (SIGHUP: ParseConfig + OnReload; SIGINT / SIGTERM: cancel, wait, deferred Cleanup)",
			"statistics modules as main() registers them, printed through Stats.PrintStats", "go-redis client the station builds itself"},
		Stub: []string{"the four calls of main() that need the operating system, replaced through seamgen rule wrap=: dtls.NewTransport (UDP listener + tun device), ZMQIngester.RunZMQ (ZMQ sockets; the world publishes into the channel main() created; the stand-in returns after cancellation only with the next arriving message, as the pinned receive loop does), connManager.acceptConnections (TCP listener; the world calls handleNewTCPConn), signal.Notify (the world sends the signals)",
			"Redis server (RESP stub) + detector model, covert hosts, phantom hosts (never answer the liveness probe)", "the Stat() tickers (statistics epochs are driven explicitly)"},
		Rule: "random histories against the running main(): registrations of min / prefix clients, connections with a genuine flight, idle periods of 1 min - 7 h 15 min (the real sweeper goroutine is the only thing that expires registrations), statistics epochs, SIGHUP with a good configuration (another subset of three covert blocklist subnets), with a configuration that does not load (broken TOML, missing file, unparseable list entry, bad domain pattern) and with a good configuration but a broken phantom-subnet file, then SIGINT / SIGTERM, optionally with a registration being probed and further registrations arriving. " +
			"Oracle, per property. C08: a registration that is 65 min past its lifetime (10 min unused, 6 h used) is no longer returned for its phantom and no longer tracked; one that is younger than its lifetime still is. C09: main() returns within 120 simulated seconds of the stop signal, nothing panics. C10: every published message is accepted by the detector model; when main() has returned the last message is a Clear and the model's table is empty. C17: with LOG_CLIENT_IP unset or spelled as a false value, nothing the running station logged from start-up to shutdown contains a client address (connection peers, registrants). C19: no panic in any goroutine; after every reload the covert policy in force (judged by admitting probe registrations) is that of the last configuration that loaded, completely; a broken subnet file leaves registrations of the old generation admitted. non-trivial = main() reached its signal loop, at least one registration was admitted and main() returned after the stop signal",
		Assume: []string{"log.Fatal paths of main() (unusable start-up configuration) are not generated: they end the process by design", "the sweep interval is not judged exactly: expiry is required 65 simulated minutes after the lifetime ended"},
	})
}

func TestVerifMainC08(t *testing.T) { mnTest(t, "C08") }
func TestVerifMainC09(t *testing.T) { mnTest(t, "C09") }
func TestVerifMainC10(t *testing.T) { mnTest(t, "C10") }
func TestVerifMainC19(t *testing.T) { mnTest(t, "C19") }
func TestVerifMainC17(t *testing.T) { mnTest(t, "C17") }

func mnScenario(r *sim.Run, prop string) {
	tp := r.Tape
	s := hook.Install(tp)
	defer s.Uninstall()
	s.StayNum, s.StayDen = 1, 2
	o := stDefaultOpts()
	o.groups = []stSubnetGroup{{1, true, []string{"192.0.2.0/26", "2001:db8:1::/120"}}}
	o.realDetector, o.ownRedis = true, true
	o.workers = []int{2, 1, 4, 12}[tp.Choose("workers", 4)]
	w := &stWorld{r: r, s: s, tp: tp, o: o, live: map[string]bool{}, names: map[string][]string{}, lookups: map[string]int{},
		dialFault: map[string]error{}, covertMode: map[string]string{}}
	dir := os.Getenv("VERIF_SCRATCH")
	if dir == "" {
		dir = os.TempDir()
	}
	write := func(name, content string) string {
		p := filepath.Join(dir, name)
		if err := os.WriteFile(p, []byte(content), 0o644); err != nil {
			r.Fail("harness/main-files", "%v", err)
		}
		return p
	}
	subnetPath := write("mn_subnets.toml", w.subnetToml())
	w.subnets = &pb.PhantomSubnetsList{}
	for _, g := range o.groups {
		wt, rnd := uint32(g.weight), g.randomize
		w.subnets.WeightedSubnets = append(w.subnets.WeightedSubnets, &pb.PhantomSubnets{Weight: &wt, Subnets: g.subnets, RandomizeDstPort: &rnd})
	}
	copy(w.priv[:], tp.Bytes("station-key", 32))
	w.priv[0] &= 248
	w.priv[31] &= 127
	w.priv[31] |= 64
	curve25519.ScalarBaseMult(&w.pub, &w.priv)
	write("mn_privkey", string(w.priv[:]))
	write("mn_zmqkey", string(tp.Bytes("zmq-key", 32)))
	policy := uint(tp.Choose("policy", 8)) // ordinary clients' coverts (203.0.113.10-109) lie outside every pool subnet
	confPath := write("mn_config.toml", mnConfigToml(dir, o.workers, policy, ""))
	if r.Failed() {
		return
	}
	os.Setenv("CJ_STATION_CONFIG", confPath)
	os.Setenv("PHANTOM_SUBNET_LOCATION", subnetPath)
	os.Unsetenv("CJ_PRIVKEY")
	os.Unsetenv("ZMQ_PRIVKEY")
	os.Unsetenv("LOG_CLIENT_IP")
	if prop == "C17" {
		// client-address logging is off: the variable is unset (main() then logs a parse error and must
		// fall back to "off") or spelled as a false value, as the shipped sysconfig does
		if k := tp.Choose("log-client-ip", 4); k > 0 {
			os.Setenv("LOG_CLIENT_IP", []string{"", "false", "0", "f"}[k])
		}
	}
	flag.CommandLine = flag.NewFlagSet("application", flag.ContinueOnError)
	os.Args = []string{"application"}
	cj.VerifResetStatsModules()

	panicSig := prop + "/panic/main-world"
	if prop == "C10" {
		panicSig = "C10/station-crashed/main-world"
	}
	s.OnTaskPanic = func(task string, v any) {
		r.Fail(panicSig, "a goroutine of the station (%s) panicked - the process is gone: %v", task, v)
	}
	hook.SetNetSeams(w.mnDial, w.resolve, w.post)
	w.startRedis()
	w.ctx, w.cancel = context.WithCancel(context.Background())
	w.wg = new(sync.WaitGroup)
	w.regChan = make(chan interface{}, 4)
	w.captureOff = stCaptureSize()
	w.mnZMQMsg, w.mnZMQStop = make(chan struct{}, 1), make(chan struct{})
	mnActive = w
	defer func() { mnActive = nil }()
	defer w.close()
	defer close(w.mnZMQStop)

	mainReturned := false
	var mainRetAt time.Duration
	s.Spawn("main", func() {
		defer func() {
			if p := recover(); p != nil {
				r.Fail(panicSig, "main() panicked: %v", p)
			}
		}()
		main()
		mainRetAt = r.Elapsed()
		mainReturned = true
		r.Logf("main() returned")
	})

	det := &c10Detector{sessions: map[string]time.Duration{}}
	consumed, nNew, nClear := 0, 0, 0
	lastOp := ""
	consume := func() bool {
		w.mu.Lock()
		msgs := append([]stPublished(nil), w.published[consumed:]...)
		consumed = len(w.published)
		w.mu.Unlock()
		for _, pm := range msgs {
			var m pb.StationToDetector
			if err := proto.Unmarshal(pm.payload, &m); err != nil {
				if prop == "C10" {
					r.Fail("C10/unparseable-payload", "%v", err)
					return false
				}
				continue
			}
			_, err := det.handle(&m, pm.at)
			op := m.GetOperation().String()
			r.Logf("detector <- %s phantom=%q port=%d : %v", op, m.GetPhantomIp(), m.GetDstPort(), err)
			if err != nil && prop == "C10" {
				r.Fail("C10/rejected-by-detector/"+op+"/"+strings.SplitN(err.Error(), "(", 2)[0], "the detector rejects the %s message main()'s station published: %v", op, err)
				return false
			}
			lastOp = op
			switch m.GetOperation() {
			case pb.StationOperations_New:
				nNew++
			case pb.StationOperations_Clear:
				nClear++
			}
		}
		return true
	}

	var regs []*mnReg
	nextID := 0
	inForce := policy // covert policy of the last configuration that loaded
	finished := false
	ready := func() bool {
		w.mu.Lock()
		defer w.mu.Unlock()
		return w.mnSig != nil && w.mnRegChan != nil && w.rm != nil && w.cm != nil
	}
	// register a client and wait until the pipeline (incl. the 750 ms liveness probe) is through with it
	register := func(c *stClient) {
		w.register(c.regMessage(nil))
		time.Sleep(10 * time.Second) // generous: the oracle must not depend on how long a probe takes
		w.settle()
	}
	newClient := func(covertHost string) *stClient {
		tt, params := pb.TransportType_Min, any(nil)
		if tp.Bool("prefix-client") {
			tt, params = pb.TransportType_Prefix, &prefix.ClientParams{PrefixID: int32(tp.Choose("prefixid", 4)), RandomizeDstPort: false}
		}
		c, err := w.newClient(nextID, tt, params)
		nextID++
		if err != nil {
			r.Fail("harness/main-client", "%v", err)
			return nil
		}
		if covertHost != "" {
			c.covert = covertHost + ":443"
		} else {
			c.covert = fmt.Sprintf("203.0.113.%d:443", 10+c.id%100) // outside every pool subnet
		}
		return c
	}
	// C08: what the real sweeper goroutine has (not) removed by now
	judgeExpiry := func(when string) bool {
		if prop != "C08" {
			return true
		}
		tracked, _ := cj.VerifCounts(w.rm)
		expect := 0
		for _, g := range regs {
			age := time.Since(g.at)
			life := 10 * time.Minute
			if g.used {
				life = 6 * time.Hour
			}
			vis := w.mnVisible(g)
			switch {
			case age < life-time.Second:
				expect++
				if !vis {
					r.Fail("C08/removed-early/main-sweeper", "%s: the registration of client %d (age %v, used=%v) is no longer returned for its phantom although its lifetime of %v has not ended", when, g.c.id, age, g.used, life)
					return false
				}
			case age > life+65*time.Minute:
				if vis {
					r.Probe("main_sweeper_judged_expired")
					r.Fail("C08/kept-past-lifetime/main-sweeper", "%s: the registration of client %d is still returned for its phantom %v after its lifetime of %v ended (used=%v): the running station never swept it", when, g.c.id, age-life, life, g.used)
					return false
				}
				r.Probe("main_sweeper_expired_registration")
			default:
				if vis {
					expect++
				}
			}
		}
		allOld := true
		for _, g := range regs {
			life := 10 * time.Minute
			if g.used {
				life = 6 * time.Hour
			}
			if time.Since(g.at) <= life+65*time.Minute {
				allOld = false
			}
		}
		if allOld && len(regs) > 0 && tracked != 0 {
			r.Fail("C08/kept-past-lifetime/main-sweeper", "%s: every registration is more than 65 min past its lifetime, yet the station still tracks %d registration records", when, tracked)
			return false
		}
		return true
	}
	// C19: the covert policy in force, judged from the outside by admitting probe registrations
	judgePolicy := func(when string, want uint, sigKind string) bool {
		if prop != "C19" {
			return true
		}
		for i, p := range mnPool {
			c := newClient(p.probe)
			if c == nil {
				return false
			}
			c.v6 = false
			g := &mnReg{c: c, at: time.Now()}
			register(c)
			admitted := w.mnVisible(g)
			blocked := want&(1<<uint(i)) != 0
			r.Logf("policy probe %s covert %s: admitted=%v (blocked by the configuration in force: %v)", when, c.covert, admitted, blocked)
			if admitted == blocked {
				what := "is refused although the configuration in force does not block " + p.cidr
				if admitted {
					what = "is admitted although the configuration in force blocks " + p.cidr
				}
				r.Fail("C19/reload/main/"+sigKind, "%s: a registration with covert %s %s (policy bits in force %03b)", when, c.covert, what, want)
				return false
			}
		}
		return true
	}

	s.Spawn("director", func() {
		// flags written by goroutines that run natively (main() itself) are read at quiescent instants only
		for k := 0; k < 200; k++ {
			w.settle()
			if ready() || r.Failed() || mainReturned {
				break
			}
			time.Sleep(10 * time.Millisecond)
		}
		if !ready() {
			if !r.Failed() {
				r.Fail("harness/main-not-started", "main() did not reach its signal loop (returned=%v)", mainReturned)
			}
			return
		}
		r.Logf("main() is up: workers=%d policy=%03b", o.workers, policy)
		if !judgePolicy("after start-up", inForce, "start-up-policy") {
			return
		}
		nops := 2 + tp.Choose("nops", 7)
		for op := 0; op < nops && !r.Failed(); op++ {
			switch tp.Choose("op", 8) {
			case 7: // somebody who holds no secret connects to a phantom and stays until the station gives up
				ph := net.IPv4(192, 0, 2, byte(1+tp.Choose("probe-phantom", 60))).To4()
				conn := w.open(ph, simnet.TCP("198.51.100.99", 44000+op))
				stWriteSegments(conn.H, tp.Bytes("probe-junk", 120), []int{40}, nil)
				w.settle()
				for k := 0; k < 14 && !conn.returned; k++ {
					time.Sleep(time.Second)
					w.settle()
				}
				conn.H.Close()
				for k := 0; k < 20 && !conn.returned; k++ {
					time.Sleep(time.Second)
					w.settle()
				}
				r.Cover("probe")
				r.Probe("main_unauthenticated_connection")
			case 0, 1: // a client registers
				c := newClient("")
				if c == nil {
					return
				}
				g := &mnReg{c: c, at: time.Now(), fam6: tp.Bool("v6")}
				if g.fam6 {
					c.v4 = false
				} else {
					c.v6 = false
				}
				register(c)
				if !w.mnVisible(g) {
					r.Fail("harness/main-registration-not-admitted", "registration of client %d (%s, covert %s) was not admitted by the running station", c.id, stTransportName(c.tt), c.covert)
					return
				}
				regs = append(regs, g)
				r.Cover("register", stTransportName(c.tt), fmt.Sprint(g.fam6))
			case 2: // a registered client connects
				if len(regs) == 0 {
					continue
				}
				g := regs[tp.Choose("reg", len(regs))]
				age := time.Since(g.at)
				alive := age < 9*time.Minute || (g.used && age < 6*time.Hour-time.Minute && g.usedAt.Sub(g.at) < 9*time.Minute)
				if !alive {
					continue
				}
				fl, err := g.c.flight()
				if err != nil {
					continue
				}
				d0 := len(w.dials)
				conn := w.open(g.c.phantom(g.fam6), simnet.TCP("198.51.100.99", 43000+op))
				stWriteSegments(conn.H, append(fl, []byte("ping")...), nil, nil)
				got, _ := stReadN(conn.H, 4, 12*time.Second)
				w.settle()
				conn.H.Close()
				w.settle()
				for k := 0; k < 20 && !conn.returned; k++ {
					time.Sleep(time.Second)
					w.settle()
				}
				covertDialled := false
				for _, d := range w.dials[d0:] {
					if d.addr == g.c.covert {
						covertDialled = true
					}
				}
				if !covertDialled || string(got) != "ping" {
					r.Fail("harness/main-connect", "client %d (registered %v ago) was not proxied by the running station (covert dialled=%v, echo %q)", g.c.id, age, covertDialled, got)
					return
				}
				if !g.used {
					g.used, g.usedAt = true, time.Now()
				}
				r.Cover("connect")
				r.Probe("main_connection_proxied")
			case 3: // time passes; only main()'s own sweeper expires anything
				d := []time.Duration{time.Minute, 5 * time.Minute, 76 * time.Minute, 7*time.Hour + 15*time.Minute}[tp.Choose("idle", 4)]
				time.Sleep(d)
				w.settle()
				r.Logf("idle %v", d)
				r.Cover("idle", d.String())
				if !judgeExpiry(fmt.Sprintf("after an idle period of %v", d)) {
					return
				}
			case 4: // statistics epoch with the modules main() registered
				verbose := tp.Bool("verbose")
				cj.VerifPrintStats(verbose)
				w.settle()
				r.Cover("stats", fmt.Sprint(verbose))
				r.Probe("main_stats_epoch")
			default: // SIGHUP
				kind := tp.Choose("reload", 8)
				newPolicy := uint(tp.Choose("new-policy", 8))
				sigKind := "policies-not-replaced"
				switch kind {
				case 0, 1: // good configuration
					write("mn_config.toml", mnConfigToml(dir, o.workers, newPolicy, ""))
					inForce = newPolicy
					r.Probe("main_reload_good")
				case 2: // TOML that does not parse
					write("mn_config.toml", mnConfigToml(dir, o.workers, newPolicy, "")+"\ncovert_blocklist_subnets = [ \"unterminated\n")
					sigKind = "bad-reload-changed-policies"
					r.Probe("main_reload_broken_toml")
					r.Fault("reload/broken-toml")
				case 3: // the file is gone
					os.Remove(confPath)
					sigKind = "bad-reload-changed-policies"
					r.Probe("main_reload_missing_file")
					r.Fault("reload/missing-file")
				case 4: // a list entry that cannot be parsed
					write("mn_config.toml", mnConfigToml(dir, o.workers, newPolicy, "203.0.113.0/33"))
					sigKind = "bad-reload-changed-policies"
					r.Probe("main_reload_bad_entry")
					r.Fault("reload/bad-list-entry")
				case 5: // empty file (truncated by a crashed editor)
					write("mn_config.toml", "")
					sigKind = "bad-reload-changed-policies"
					r.Probe("main_reload_empty_file")
					r.Fault("reload/empty-file")
				case 7: // the station configuration is untouched; only the phantom subnet file has a new version (a second generation)
					write("mn_subnets.toml", w.subnetToml()+"  [Networks.2]\n    Generation = 2\n    [[Networks.2.WeightedSubnets]]\n      Weight = 1\n      RandomizeDstPort = true\n      Subnets = [\"192.0.2.64/26\", \"2001:db8:2::/120\"]\n")
					newPolicy = inForce
					sigKind = "policies-changed-by-subnet-reload"
					r.Probe("main_reload_new_subnet_file_only")
				default: // good configuration, broken phantom subnet file
					write("mn_config.toml", mnConfigToml(dir, o.workers, newPolicy, ""))
					write("mn_subnets.toml", "[Networks]\n  [Networks.1\n    Generation = \n")
					inForce = newPolicy
					sigKind = "policies-not-replaced/broken-subnet-file"
					r.Probe("main_reload_broken_subnet_file")
					r.Fault("reload/broken-subnet-file")
				}
				r.Logf("SIGHUP kind %d new policy %03b (in force afterwards: %03b)", kind, newPolicy, inForce)
				w.mnSig <- syscall.SIGHUP
				w.settle()
				time.Sleep(10 * time.Millisecond)
				w.settle()
				r.Cover("reload", fmt.Sprint(kind))
				if mainReturned {
					r.Fail(prop+"/main-left-on-sighup", "main() returned after a SIGHUP")
					return
				}
				if kind == 7 && prop == "C19" {
					// the new version of the subnet part loaded without error: it is in force
					old := w.subnets
					wt, rnd := uint32(1), true
					w.subnets = &pb.PhantomSubnetsList{WeightedSubnets: []*pb.PhantomSubnets{{Weight: &wt, Subnets: []string{"192.0.2.64/26", "2001:db8:2::/120"}, RandomizeDstPort: &rnd}}}
					c := newClient("")
					w.subnets = old
					if c == nil {
						return
					}
					c.gen, c.v6 = 2, false
					g := &mnReg{c: c, at: time.Now()}
					register(c)
					if !w.mnVisible(g) {
						r.Fail("C19/reload/main/phantom-subnets-not-replaced", "SIGHUP with an unchanged station configuration and a new, valid phantom subnet file (a second generation): a registration of that generation is not admitted afterwards - the new version of the subnet part is not in force")
						return
					}
					write("mn_subnets.toml", w.subnetToml())
				}
				// put loadable files back so that later reloads start from a sane directory
				if kind >= 2 && kind != 7 {
					if kind != 6 {
						write("mn_config.toml", mnConfigToml(dir, o.workers, inForce, ""))
					}
					write("mn_subnets.toml", w.subnetToml())
				}
				if !judgePolicy(fmt.Sprintf("after SIGHUP kind %d", kind), inForce, sigKind) {
					return
				}
				if kind == 6 && prop == "C19" {
					// the phantom subnets did not load: the previous set stays in force, registrations of its generation are still admitted
					c := newClient("")
					if c == nil {
						return
					}
					c.v6 = false
					g := &mnReg{c: c, at: time.Now()}
					register(c)
					if !w.mnVisible(g) {
						r.Fail("C19/reload/main/phantom-subnets-lost", "after a reload whose phantom subnet file does not parse, a registration of the previous generation is no longer admitted: the previous subnets are not in force any more")
						return
					}
					regs = append(regs, g)
				}
			}
			if !consume() {
				return
			}
		}
		if !judgeExpiry("before the stop signal") {
			return
		}
		// stop: optionally with a registration being probed and registrations that keep arriving
		stopKind := tp.Choose("stop", 3)
		sig := []os.Signal{syscall.SIGTERM, syscall.SIGINT}[tp.Choose("stop-signal", 2)]
		// (two goroutines that are woken natively at the same instant race outside the simulator's
		// control: the stop signal is therefore sent at an instant at which nothing else happens)
		floodDone := true
		if stopKind == 2 {
			r.Probe("main_stop_while_registrations_keep_arriving")
			floodDone = false
			var msgs [][]byte
			for k := 0; k < 12; k++ {
				if c := newClient(""); c != nil {
					c.v6 = false
					msgs = append(msgs, c.regMessage(nil))
				}
			}
			s.Spawn("zmq-flood", func() {
				defer func() { floodDone = true }()
				for _, m := range msgs {
					select {
					case w.mnRegChan <- m:
					default:
					}
					select {
					case w.mnZMQMsg <- struct{}{}: // a message has come through the subscriber's socket
					default:
					}
					time.Sleep(151 * time.Millisecond) // never at one of the director's polling instants
				}
			})
			time.Sleep(370 * time.Millisecond) // the signal lands between two arrivals
			w.settle()
		}
		if stopKind >= 1 {
			if c := newClient(""); c != nil {
				c.v6 = false
				w.publish(c.regMessage(nil))
				w.settle() // a worker has it and is waiting for the liveness probe
				r.Probe("main_stop_with_registration_in_flight")
			}
		}
		stopAt := r.Elapsed()
		r.Logf("stop signal %v (kind %d)", sig, stopKind)
		w.mnSig <- sig
		w.settle()
		for k := 0; k < 1200 && !mainReturned && !r.Failed(); k++ {
			time.Sleep(100 * time.Millisecond)
			w.settle()
		}
		for k := 0; k < 100 && !floodDone; k++ {
			time.Sleep(100 * time.Millisecond)
			w.settle()
		}
		if r.Failed() {
			return
		}
		if !mainReturned {
			if prop == "C09" || prop == "C10" {
				r.Fail(prop+"/shutdown-hangs/main", "main() has not returned 120 simulated seconds after %v (stop kind %d): %v", sig, stopKind, s.LiveNames())
			} else {
				r.Fail("harness/main-did-not-stop", "main() has not returned 120 s after %v", sig)
			}
			return
		}
		r.Logf("main() returned %v after the stop signal", mainRetAt-stopAt)
		time.Sleep(5 * time.Second) // stragglers (a worker that finishes late would publish now)
		w.settle()
		if !consume() {
			return
		}
		if prop == "C17" {
			// everything the running station wrote (start-up, registrations, connections, reloads,
			// statistics, shutdown): no client address in it
			out := bytes.ToLower(w.logSince())
			addrs := []net.IP{net.ParseIP("198.51.100.99")}
			for id := 0; id < nextID; id++ {
				addrs = append(addrs, net.IPv4(198, 51, 100, byte(10+id%200)))
			}
			for _, ip := range addrs {
				for _, form := range c17Forms(ip) {
					for off := 0; ; {
						i := bytes.Index(out[off:], []byte(form))
						if i < 0 {
							break
						}
						i += off
						off = i + len(form)
						if off < len(out) && out[off] >= '0' && out[off] <= '9' {
							continue // a longer number: another address
						}
						ls := bytes.LastIndexByte(out[:i], '\n') + 1
						le := bytes.IndexByte(out[i:], '\n')
						if le < 0 {
							le = len(out) - i
						}
						line := string(out[ls : i+le])
						r.Fail("C17/leak/"+c17Where(line)+"/main-world", "with client-address logging off (LOG_CLIENT_IP=%q) the running station's log contains the client address %s: %q", os.Getenv("LOG_CLIENT_IP"), form, line)
						return
					}
				}
			}
		}
		if prop == "C10" {
			if nClear == 0 {
				r.Fail("C10/clear-not-published/main", "main() returned after %v without a Clear message on the detector channel", sig)
				return
			}
			if lastOp != "Clear" || len(det.sessions) != 0 {
				r.Fail("C10/publish-after-clear/main", "after main() returned the last message on the detector channel is %s and the detector still holds %d session(s): a restarted station inherits diversions it knows nothing about", lastOp, len(det.sessions))
				return
			}
		}
		finished = true
	})
	st := sim.Drive(r, s, sim.DriveOpt{Horizon: 400 * time.Hour, MaxSteps: 400000, Until: func() bool { return finished }})
	r.CoverU(s.SigHash)
	if finished && nNew > 0 {
		r.Nontrivial()
	}
	if st == sim.Failed || r.Failed() {
		return
	}
	if !finished {
		r.Fail("harness/main-world-stuck", "scenario did not finish (%v): %v", st, s.LiveNames())
	}
}

// mnDial is the dial seam of the main world: the station's own liveness tester probes phantom
// addresses (nothing ever answers there: the probe times out), everything else is a covert host.
func (w *stWorld) mnDial(network, addr string) (net.Conn, error) {
	if ap, err := netip.ParseAddrPort(addr); err == nil {
		for _, g := range append([]stSubnetGroup{{1, true, []string{"192.0.2.0/24", "2001:db8:1::/48", "2001:db8:2::/48"}}}, w.o.groups...) {
			for _, sn := range g.subnets {
				if pfx, err := netip.ParsePrefix(sn); err == nil && pfx.Contains(ap.Addr().Unmap()) {
					w.r.Logf("liveness probe %s: no answer", addr)
					return nil, &net.OpError{Op: "dial", Net: network, Addr: net.TCPAddrFromAddrPort(ap), Err: mnTimeout{}}
				}
			}
		}
	}
	return w.dial(network, addr)
}

type mnTimeout struct{}

func (mnTimeout) Error() string   { return "i/o timeout" }
func (mnTimeout) Timeout() bool   { return true }
func (mnTimeout) Temporary() bool { return true }

var _ = sort.Strings
