package main

// C10 — every detector announcement is acceptable to the detector and matches
// the registration. The real sendToDetector / clearDetector publish through a
// real go-redis client over a simulated connection into an in-process RESP
// stub; a Go port of the Rust detector's acceptance rules and session table
// (src/sessions.rs) consumes what was published.

import (
	"sort"
	"encoding/binary"
	"fmt"
	"net"
	"net/netip"
	"strings"
	"testing"
	"time"

	"github.com/refraction-networking/conjure/pkg/core"
	cj "github.com/refraction-networking/conjure/pkg/station/lib"
	"github.com/refraction-networking/conjure/pkg/transports/wrapping/prefix"
	pb "github.com/refraction-networking/conjure/proto"
	"google.golang.org/protobuf/proto"

	"verif/sim"
	"verif/sim/hook"
	"verif/sim/simnet"
)

// ---- detector model (port of src/sessions.rs) -----------------------------------
//
//   impl From<&StationToDetector> for SessionResult:  proto must be Tcp or Udp, else UnrecognizedProto
//   SessionDetails::new: phantom_ip.parse::<IpAddr>() or InvalidPhantom; client_ip.parse() or, if the
//     string is empty and the phantom is IPv6, "::1", else InvalidClient; phantom v4 && client not v4 => MixedV4V6Error
//   pubsub_handle_s2d: conversion FIRST (errors return), then dispatch on operation: New/Update => add or
//     extend (keep the later expiry), Clear => clear the table
//   tag(): v6 phantom: "<p>_-<phantom>-:<dport>", v4: "<p><client>-<phantom>-:<dport>", p = "t-" / "u-"

type c10Detector struct {
	sessions map[string]time.Duration // tag -> expiry (simulated time since run start)
}

// rustParseIP mirrors Rust's IpAddr::from_str: netip.ParseAddr accepts the same
// textual forms except zones ("%eth0"), which Rust rejects, and IPv4 octets with
// leading zeros, which both reject.
func rustParseIP(s string) (netip.Addr, bool) {
	a, err := netip.ParseAddr(s)
	if err != nil || a.Zone() != "" {
		return netip.Addr{}, false
	}
	return a, true
}

func (d *c10Detector) handle(m *pb.StationToDetector, now time.Duration) (string, error) {
	var pfx string
	switch m.GetProto() {
	case pb.IPProto_Tcp:
		pfx = "t-"
	case pb.IPProto_Udp:
		pfx = "u-"
	default:
		return "", fmt.Errorf("UnrecognizedProto")
	}
	ph, ok := rustParseIP(m.GetPhantomIp())
	if !ok {
		return "", fmt.Errorf("InvalidPhantom(%q)", m.GetPhantomIp())
	}
	cl, ok := rustParseIP(m.GetClientIp())
	if !ok {
		if m.GetClientIp() == "" && ph.Is6() {
			cl = netip.MustParseAddr("::1")
		} else {
			return "", fmt.Errorf("InvalidClient(%q)", m.GetClientIp())
		}
	}
	if ph.Is4() && !cl.Is4() {
		return "", fmt.Errorf("MixedV4V6Error(client %q)", m.GetClientIp())
	}
	tag := ""
	if ph.Is6() {
		tag = fmt.Sprintf("%s_-%s-:%d", pfx, ph, uint16(m.GetDstPort()))
	} else {
		tag = fmt.Sprintf("%s%s-%s-:%d", pfx, cl, ph, uint16(m.GetDstPort()))
	}
	switch m.GetOperation() {
	case pb.StationOperations_New, pb.StationOperations_Update:
		exp := now + time.Duration(m.GetTimeoutNs())
		if old, ok := d.sessions[tag]; !ok || old < exp {
			d.sessions[tag] = exp
		}
	case pb.StationOperations_Clear:
		d.sessions = map[string]time.Duration{}
	}
	return tag, nil
}

func TestVerifC10(t *testing.T) {
	sim.Main(t, sim.Config{
		Prop:     "C10",
		Scenario: c10Scenario,
		Runs:     map[string]int{"quick": 10000, "thorough": 600000},
		Real:     []string{"RegisteredDecoys.register / markActive -> sendToDetector, RegistrationManager.Cleanup -> clearDetector (message construction, lifetimes)", "go-redis v8 client (PUBLISH over a simulated connection)", "ingest pipeline, handleNewTCPConn (activation), RemoveOldRegistrations"},
		Stub:     []string{"Redis server (in-process RESP stub that records PUBLISH payloads)", "the Rust detector: Go port of From<&StationToDetector>, SessionDetails::new, pubsub_handle_s2d and the session table (trusted, < 100 lines next to the quoted rules; the detector cannot be built in this sandbox)", "TCP, liveness, covert hosts, ZMQ"},
		Rule: "random: 1-5 admitted registrations over min / prefix / obfs4, both families, registrant address IPv4 / 16-byte v4-mapped / IPv6 / absent, default and registrar-overridden ports and phantoms (incl. override addresses of the wrong length and an IPv4-mapped address in the IPv6 override field), followed by connects (Update), idle periods, sweeps, Cleanup and a restart with an empty registry. " +
			"Oracle: every published payload is accepted by the detector model; carries the registration's phantom, port, proto and registrant; timeout = 10 min (New) / 6 h (Update); at every checked instant a registration the station would still match (valid, within its lifetime) has a live session in the model; after Cleanup the model's table is empty. non-trivial = at least one New and one Update or Clear were published; distinct = (transports, families, registrant forms, overrides, history)",
		Assume: []string{"no loss is injected on the detector channel (the property does not promise retransmission)", "expired-but-not-yet-swept registrations are don't-cares"},
	})
}

type c10Reg struct {
	c      *stClient
	ph     [2]net.IP
	port   [2]uint16
	at     time.Time
	used   [2]bool
	regstr string // registrant as the station will render it
	msg    []byte // the registration message as published (for repeats)
	udp    bool   // registered for the UDP stand-in transport
}

// c10ProtoTag is the protocol letter of the detector's session key.
func c10ProtoTag(g *c10Reg) string {
	if g.udp {
		return "u"
	}
	return "t"
}

func c10Scenario(r *sim.Run) {
	tp := r.Tape
	s := hook.Install(tp)
	defer s.Uninstall()
	s.StayNum, s.StayDen = 1, 2
	o := stDefaultOpts()
	o.groups = []stSubnetGroup{{1, true, []string{"192.0.2.0/28", "2001:db8:1::/124"}}, {1, false, []string{"192.0.2.64/28", "2001:db8:1::40/124"}}}
	o.workers = 2
	o.realDetector = true
	// half of the runs: the station builds its detector client itself, on first use; in half of
	// those redis-server is not reachable at that instant (the start-up ping fails) and comes up
	// right afterwards. No message is lost by that: the first publish dials again.
	if o.ownRedis = tp.Bool("station-builds-its-redis-client"); o.ownRedis {
		r.Probe("station_built_its_own_redis_client")
		if tp.Bool("redis-down-at-first-use") {
			o.redisDown = 1
		}
	}
	// a station that crashes publishes no Clear: the detector keeps every diversion
	o.panicSig = "C10/station-crashed"
	w := newStWorld(r, s, tp, o)
	if w == nil {
		return
	}
	defer w.close()
	// the UDP stand-in transport (its Connect fails at once; this world is about announcements)
	w.rm.AddTransport(pb.TransportType_DTLS, &c17Connecting{w: w, cli: &net.TCPAddr{IP: net.IPv4(198, 51, 100, 9), Port: 5000}, shape: len(c17ConnectErrors) - 1})
	det := &c10Detector{sessions: map[string]time.Duration{}}
	consumed := 0
	nNew, nUpd, nClear := 0, 0, 0
	var regs []*c10Reg

	// feed what was published to the detector model and judge each message
	consume := func() bool {
		w.mu.Lock()
		msgs := append([]stPublished(nil), w.published[consumed:]...)
		consumed = len(w.published)
		w.mu.Unlock()
		for _, pm := range msgs {
			if pm.channel != cj.DETECTOR_REG_CHANNEL {
				r.Fail("C10/wrong-channel", "published on %q", pm.channel)
				return false
			}
			var m pb.StationToDetector
			if err := proto.Unmarshal(pm.payload, &m); err != nil {
				r.Fail("C10/unparseable-payload", "%v", err)
				return false
			}
			tag, err := det.handle(&m, pm.at)
			r.Logf("detector <- %s phantom=%q client=%q port=%d proto=%v timeout=%v : %v %s", m.GetOperation(), m.GetPhantomIp(), m.GetClientIp(), m.GetDstPort(), m.GetProto(), time.Duration(m.GetTimeoutNs()), err, tag)
			op := m.GetOperation().String()
			if err != nil {
				what := strings.SplitN(err.Error(), "(", 2)[0]
				r.Fail("C10/rejected-by-detector/"+op+"/"+what, "the detector rejects the %s message {phantom %q client %q port %d proto %v}: %v", op, m.GetPhantomIp(), m.GetClientIp(), m.GetDstPort(), m.GetProto(), err)
				return false
			}
			switch m.GetOperation() {
			case pb.StationOperations_Clear:
				nClear++
				continue
			case pb.StationOperations_New:
				nNew++
				if time.Duration(m.GetTimeoutNs()) != 10*time.Minute {
					r.Fail("C10/lifetime/new", "New message requests %v, the station keeps an unused registration for 10 minutes", time.Duration(m.GetTimeoutNs()))
					return false
				}
			case pb.StationOperations_Update:
				nUpd++
				if time.Duration(m.GetTimeoutNs()) != 6*time.Hour {
					r.Fail("C10/lifetime/update", "Update message requests %v, the station keeps a used registration for 6 hours", time.Duration(m.GetTimeoutNs()))
					return false
				}
			}
			// must describe one of the registrations: phantom, port, proto, registrant (several
			// registrations may share a phantom and port; one of them must fit completely)
			found, fits := false, false
			wrong := ""
			for _, g := range regs {
				for fam := 0; fam < 2; fam++ {
					if g.ph[fam] == nil {
						continue
					}
					pa, ok := rustParseIP(m.GetPhantomIp())
					ga, _ := netip.AddrFromSlice(g.ph[fam])
					if ok && pa.Unmap() == ga.Unmap() && uint16(m.GetDstPort()) == g.port[fam] {
						found = true
						wantProto := pb.IPProto_Tcp
						if g.udp {
							wantProto = pb.IPProto_Udp
						}
						if m.GetProto() != wantProto {
							wrong = fmt.Sprintf("proto %v for a registration whose transport runs over %v", m.GetProto(), wantProto)
							continue
						}
						ca, cok := rustParseIP(m.GetClientIp())
						wa, wok := rustParseIP(g.regstr)
						if g.regstr != "" && (!cok || !wok || ca.Unmap() != wa.Unmap()) {
							wrong = fmt.Sprintf("client %q, the registration's registrant is %s", m.GetClientIp(), g.regstr)
							continue
						}
						fits = true
					}
				}
			}
			if found && !fits {
				r.Fail("C10/wrong-details", "%s message {phantom %q port %d} carries %s", op, m.GetPhantomIp(), m.GetDstPort(), wrong)
				return false
			}
			if !found {
				r.Fail("C10/describes-no-registration", "%s message {phantom %q port %d} matches no registration's phantom and destination port", op, m.GetPhantomIp(), m.GetDstPort())
				return false
			}
		}
		return true
	}
	// temporal: what the station would still match must be live in the detector
	temporal := func(when string) bool {
		now := r.Elapsed()
		for _, g := range regs {
			for fam := 0; fam < 2; fam++ {
				if g.ph[fam] == nil {
					continue
				}
				age := time.Since(g.at)
				within := (age < 10*time.Minute-time.Millisecond) || (g.used[fam] && age < 6*time.Hour-time.Millisecond)
				if !within {
					continue
				}
				visible := false
				for _, rg := range w.rm.GetRegistrations(g.ph[fam]) {
					d := rg.(*cj.DecoyRegistration)
					if string(d.Keys.SharedSecret) == string(g.c.keys.SharedSecret) {
						visible = true
					}
				}
				if !visible {
					continue
				}
				// the key the detector would compute for a packet of this session
				pa, _ := netip.AddrFromSlice(g.ph[fam])
				pa = pa.Unmap()
				tag := ""
				if pa.Is6() {
					tag = fmt.Sprintf("%s-_-%s-:%d", c10ProtoTag(g), pa, g.port[fam])
				} else {
					ca, ok := rustParseIP(g.regstr)
					if !ok {
						continue
					}
					tag = fmt.Sprintf("%s-%s-%s-:%d", c10ProtoTag(g), ca.Unmap(), pa, g.port[fam])
				}
				exp, ok := det.sessions[tag]
				if !ok || exp <= now {
					r.Fail("C10/session-not-forwarded/"+map[bool]string{true: "used", false: "unused"}[g.used[fam]], "%s: the station still matches connections for %s (age %v, used=%v) but the detector holds no live session %q (expiry %v, now %v)", when, g.ph[fam], age, g.used[fam], tag, exp, now)
					return false
				}
			}
		}
		return true
	}

	afterSweep := func() bool {
		now := r.Elapsed()
		for _, g := range regs {
			for fam := 0; fam < 2; fam++ {
				if g.ph[fam] == nil {
					continue
				}
				age := time.Since(g.at)
				near := func(th time.Duration) bool { d := age - th; return d > -time.Second && d < time.Second }
				if near(10*time.Minute) || near(6*time.Hour) {
					continue
				}
				visible := false
				for _, rg := range w.rm.GetRegistrations(g.ph[fam]) {
					d := rg.(*cj.DecoyRegistration)
					if string(d.Keys.SharedSecret) == string(g.c.keys.SharedSecret) {
						visible = true
					}
				}
				if !visible {
					continue
				}
				pa, _ := netip.AddrFromSlice(g.ph[fam])
				pa = pa.Unmap()
				tag := ""
				if pa.Is6() {
					tag = fmt.Sprintf("%s-_-%s-:%d", c10ProtoTag(g), pa, g.port[fam])
				} else {
					ca, ok := rustParseIP(g.regstr)
					if !ok {
						continue
					}
					tag = fmt.Sprintf("%s-%s-%s-:%d", c10ProtoTag(g), ca.Unmap(), pa, g.port[fam])
				}
				if exp, ok := det.sessions[tag]; !ok || exp <= now {
					r.Fail("C10/station-outlives-detector", "right after a sweep the station still tracks and matches %s (registered %v ago, used=%v), but the detector's session %q expired at %v (now %v): the lifetime the station applies is longer than the one it announced", g.ph[fam], age, g.used[fam], tag, exp, now)
					return false
				}
			}
		}
		return true
	}

	nregs := 1 + tp.Choose("nregs", 5)
	finished := false
	s.Spawn("director", func() {
		for i := 0; i < nregs && !r.Failed(); i++ {
			var tt pb.TransportType
			var params any
			udp := false
			switch tp.Choose("transport", 4) {
			case 0:
				tt = pb.TransportType_Min
			case 1:
				tt = pb.TransportType_Prefix
				params = &prefix.ClientParams{PrefixID: int32(tp.Choose("prefixid", 10)), RandomizeDstPort: tp.Bool("rand")}
			case 3:
				// a transport that runs over UDP (stand-in for the DTLS transport, registered below
				// under its type); built from a min client, whose keys and phantoms it shares
				tt, udp = pb.TransportType_Min, true
			default:
				tt = pb.TransportType_Obfs4
			}
			c, err := w.newClient(i, tt, params)
			if err != nil {
				r.Fail("harness/c10-client", "%v", err)
				return
			}
			g := &c10Reg{c: c}
			if udp {
				c.tt, c.pparams = pb.TransportType_DTLS, nil
				// client library generations before and after destination-port randomisation
				c.libver = []uint32{c.libver, c.libver, 2, 0}[tp.Choose("udp-libver", 4)]
				g.udp = true
				r.Probe("udp_transport_registration")
			}
			switch tp.Choose("family", 3) {
			case 1:
				c.v6 = false
			case 2:
				c.v4 = false
			}
			regForm := tp.Choose("registrant", 4)
			switch regForm {
			case 0:
				c.regAddr = net.IPv4(198, 51, 100, byte(20+i)).To4()
				g.regstr = c.regAddr.String()
			case 1:
				c.regAddr = net.IPv4(198, 51, 100, byte(20+i)).To16()
				g.regstr = net.IPv4(198, 51, 100, byte(20+i)).String()
			case 2:
				c.regAddr = net.ParseIP(fmt.Sprintf("2001:db8:99::%x", 20+i))
				g.regstr = c.regAddr.String()
			default:
				c.regAddr = nil
				g.regstr = ""
			}
			override := tp.Choose("override", 7)
			var ovPort uint32
			ov4, ov6 := net.IP(nil), net.IP(nil)
			msg := c.regMessage(func(wr *pb.C2SWrapper) {
				if override == 0 {
					return
				}
				rr := &pb.RegistrationResponse{}
				switch override {
				case 1:
					ovPort = 8443
					rr.DstPort = proto.Uint32(ovPort)
				case 2:
					ov4 = net.IPv4(192, 0, 2, 200).To4()
					ov6 = net.ParseIP("2001:db8:1::c8")
				case 3:
					ovPort = 70000 // does not fit 16 bits
					rr.DstPort = proto.Uint32(ovPort)
				case 4:
					ov6 = net.IP{0x20, 0x01, 0x0d, 0xb8, 0x01} // wrong length
				case 6:
					// the IPv6 override field carries a 16-byte IPv4-mapped address: the registration
					// of the "IPv6" family then has an IPv4 phantom
					ov6 = net.IPv4(192, 0, 2, 78).To16()
				default:
					ov4 = net.IPv4(192, 0, 2, 201).To4()
					ovPort = 53
					rr.DstPort = proto.Uint32(ovPort)
				}
				if ov4 != nil {
					rr.Ipv4Addr = proto.Uint32(binary.BigEndian.Uint32(ov4))
				}
				if ov6 != nil {
					rr.Ipv6Addr = ov6
				}
				wr.RegistrationResponse = rr
			})
			// which registrations will exist (model): v4 needs an IPv4 registrant
			registrantV4 := regForm == 0 || regForm == 1
			if c.v4 && registrantV4 {
				g.ph[0] = c.phantom(false)
				if g.udp {
					// older library generations select their phantom differently; which address that is
					// is not this world's question, so the selector itself is asked
					if ks, err := core.GenSharedKeys(uint(c.libver), c.keys.SharedSecret, c.tt); err == nil {
						if p, err := w.rm.PhantomSelector.Select(ks.ConjureSeed, uint(c.gen), uint(c.libver), false); err == nil {
							g.ph[0] = p.IP().To4()
						}
					}
				}
				if ov4 != nil {
					g.ph[0] = ov4
				}
				g.port[0] = c.dstPort(false)
				if g.udp {
					g.port[0] = 443
				}
				if ovPort != 0 {
					g.port[0] = uint16(ovPort)
				}
			}
			if c.v6 {
				g.ph[1] = c.phantom(true)
				if g.udp {
					if ks, err := core.GenSharedKeys(uint(c.libver), c.keys.SharedSecret, c.tt); err == nil {
						if p, err := w.rm.PhantomSelector.Select(ks.ConjureSeed, uint(c.gen), uint(c.libver), true); err == nil {
							g.ph[1] = *p.IP()
						}
					}
				}
				if ov6 != nil {
					g.ph[1] = ov6
				}
				if ov6.To4() != nil && !registrantV4 {
					g.ph[1] = nil // an IPv4 phantom needs an IPv4 registrant: not admitted
				}
				g.port[1] = c.dstPort(true)
				if g.udp {
					g.port[1] = 443
				}
				if ovPort != 0 {
					g.port[1] = uint16(ovPort)
				}
			}
			g.at = time.Now()
			regs = append(regs, g)
			r.Logf("registration %d: %s v4=%v v6=%v registrant form %d (%q) override %d -> phantoms %v ports %v", i, stTransportName(tt), c.v4, c.v6, regForm, g.regstr, override, g.ph, g.port)
			r.Cover(stTransportName(tt), fmt.Sprint(c.v4, c.v6, regForm, override))
			g.msg = msg
			w.register(msg)
			if !consume() || !temporal("after registration") {
				return
			}
		}
		// history: connects, idle, sweeps
		nops := tp.Choose("nops", 8)
		for op := 0; op < nops && !r.Failed(); op++ {
			switch tp.Choose("op", 6) {
			case 5: // activation with a stale object: the registration expired and was swept in between
				g := regs[tp.Choose("reg", len(regs))]
				fam := tp.Choose("fam", 2)
				if g.ph[fam] == nil || len(g.ph[fam]) != net.IPv4len && len(g.ph[fam]) != net.IPv6len {
					continue
				}
				// a connection handler looks the registrations of the phantom up ...
				held := w.rm.GetRegistrations(g.ph[fam])
				if len(held) == 0 {
					continue
				}
				// ... the registrations' lifetime ends and the sweeper removes them ...
				time.Sleep(6*time.Hour + time.Minute)
				w.rm.RemoveOldRegistrations()
				if !consume() || !afterSweep() {
					return
				}
				if n := len(w.rm.GetRegistrations(g.ph[fam])); n != 0 {
					r.Fail("harness/c10-stale", "%d registrations on %s survived 6 h 1 min and a sweep", n, g.ph[fam])
					return
				}
				// ... and only then the handler activates what it holds
				upd0 := nUpd
				var ids []string
				for id := range held {
					ids = append(ids, id)
				}
				sort.Strings(ids)
				for _, id := range ids {
					w.rm.MarkActive(held[id].(*cj.DecoyRegistration))
				}
				w.settle()
				if !consume() {
					return
				}
				r.Logf("stale activation of %d registrations on %s after expiry and sweep", len(ids), g.ph[fam])
				r.Probe("stale_activation_after_sweep")
				if nUpd > upd0 {
					r.Fail("C10/update-for-forgotten-registration", "the station published %d Update message(s) (6 h) for registrations on %s that it had already expired and removed: the detector forwards sessions the station would not accept", nUpd-upd0, g.ph[fam])
					return
				}
			case 0: // connect (activation -> Update)
				g := regs[tp.Choose("reg", len(regs))]
				fam := tp.Choose("fam", 2)
				if g.ph[fam] == nil || len(g.ph[fam]) != net.IPv4len && len(g.ph[fam]) != net.IPv6len || g.c.tt == pb.TransportType_Obfs4 || g.udp {
					continue
				}
				if time.Since(g.at) > 9*time.Minute && !g.used[fam] {
					continue
				}
				fl, err := g.c.flight()
				if err != nil {
					continue
				}
				conn := w.open(g.ph[fam], simnet.TCP("198.51.100.99", 43000+op))
				stWriteSegments(conn.H, append(fl, []byte("ping")...), nil, nil)
				stReadN(conn.H, 4, 12*time.Second)
				w.settle()
				conn.H.Close()
				for k := 0; k < 20 && !conn.returned; k++ {
					w.settle()
					time.Sleep(time.Second)
				}
				w.settle()
				if len(w.dials) > 0 {
					g.used[fam] = true
				}
				r.Cover("connect")
			case 1:
				d := []time.Duration{time.Minute, 4 * time.Minute, 9*time.Minute + 30*time.Second, 3 * time.Hour, 5*time.Hour + 50*time.Minute}[tp.Choose("idle", 5)]
				time.Sleep(d)
				r.Logf("idle %v", d)
				r.Cover("idle", d.String())
			case 2: // the same registration arrives again (client retry, second registrar)
				g := regs[tp.Choose("reg", len(regs))]
				w.register(g.msg)
				r.Logf("repeat of registration %s", g.regstr)
				r.Cover("repeat")
				r.Probe("repeated_registration")
			default:
				w.rm.RemoveOldRegistrations()
				r.Logf("sweep")
				r.Cover("sweep")
				// what survives a sweep is what the station itself considers alive: the detector must
				// still forward it
				if !consume() || !afterSweep() {
					return
				}
			}
			if !consume() || !temporal(fmt.Sprintf("after operation %d", op)) {
				return
			}
		}
		// shutdown: Cleanup must empty the detector's table. The stop request may arrive while a worker
		// is in the middle of a registration (its liveness probe has not returned yet): as in main(),
		// the context is cancelled, the pipeline is waited for, and only then Cleanup runs.
		if !o.noIngest && tp.Bool("stop-with-registration-in-flight") {
			c, err := w.newClient(90, pb.TransportType_Min, nil)
			if err != nil {
				r.Fail("harness/c10-client", "%v", err)
				return
			}
			c.v6 = false
			g := &c10Reg{c: c, regstr: c.regAddr.String(), at: time.Now()}
			g.ph[0], g.port[0] = c.phantom(false), c.dstPort(false)
			g.msg = c.regMessage(nil)
			regs = append(regs, g)
			w.holdProbes.Store(true)
			w.register(g.msg)
			r.Logf("stop request while the registration of %s is being probed", c.phantom(false))
			r.Probe("stop_with_registration_in_flight")
			w.cancel()
			w.settle()
			early := w.ingestDone
			if early {
				// the pipeline says it is done: main() goes on to Cleanup
				w.rm.Cleanup()
				w.settle()
			}
			w.holdProbes.Store(false)
			for k := 0; k < 50 && !w.ingestDone; k++ {
				w.settle()
				time.Sleep(100 * time.Millisecond)
			}
			w.settle()
			if !consume() {
				return
			}
			if !early && !w.ingestDone {
				r.Fail("C10/shutdown-hangs", "the ingest pipeline did not return after the stop request although the probe it was waiting for has returned")
				return
			}
		}
		before := len(det.sessions)
		w.rm.Cleanup()
		w.settle()
		if !consume() {
			return
		}
		r.Logf("Cleanup: detector sessions before=%d after=%d", before, len(det.sessions))
		if nClear == 0 {
			r.Fail("C10/clear-not-published", "Cleanup published no Clear message")
			return
		}
		if len(det.sessions) != 0 {
			r.Fail("C10/clear-not-acted-on", "after the station's Cleanup the detector still holds %d sessions: a restarted station inherits diversions it knows nothing about", len(det.sessions))
			return
		}
		finished = true
	})
	st := sim.Drive(r, s, sim.DriveOpt{Horizon: 200 * time.Hour, MaxSteps: 100000, Until: func() bool { return finished }})
	r.CoverU(s.SigHash)
	if nNew > 0 && (nUpd > 0 || nClear > 0) {
		r.Nontrivial()
	}
	if st == sim.Failed || r.Failed() {
		return
	}
	if !finished {
		r.Fail("harness/c10-stuck", "scenario did not finish (%v): %v", st, s.LiveNames())
	}
}
