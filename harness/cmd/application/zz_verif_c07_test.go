package main

// C07 — a registration becomes usable only when every admission condition
// holds. Registration messages are built from a valid base and broken in one or
// several ways; station configuration, liveness verdicts, registrar overrides
// and duplicates vary. An executable admission model written from the property
// text decides, per address family, whether the message must yield a
// connectable, announced registration; probes and peer-API posts are checked
// against the clauses that mention them.

import (
	"bytes"
	"encoding/binary"
	"fmt"
	"net"
	"net/netip"
	"testing"
	"time"

	cj "github.com/refraction-networking/conjure/pkg/station/lib"
	"github.com/refraction-networking/conjure/pkg/transports/wrapping/prefix"
	pb "github.com/refraction-networking/conjure/proto"
	"google.golang.org/protobuf/proto"

	"verif/sim"
	"verif/sim/hook"
)

var c07Breaks = []string{
	"none", "no-secret", "no-payload", "no-transport", "disabled-transport", "unknown-transport", "unknown-generation",
	"station-v4-off", "station-v6-off", "client-no-v4", "client-no-v6", "ipv6-registrant", "phantom-blocklisted",
	"forbidden-covert", "malformed-covert", "live-phantom", "prescanned+live", "override-phantom", "override-to-blocklisted", "override-port", "mapped-override-ipv6-registrant", "mapped-override-live", "explicit-prescanned-false",
}

var c07Sources = []pb.RegistrationSource{pb.RegistrationSource_API, pb.RegistrationSource_Detector, pb.RegistrationSource_BidirectionalAPI, pb.RegistrationSource_DNS, pb.RegistrationSource_DetectorPrescan}

var c07Enum = func() [][]int {
	var out [][]int
	for tr := 0; tr < 3; tr++ {
		for src := range c07Sources {
			for b := range c07Breaks {
				out = append(out, []int{1, 1, tr, src, b}) // workers, mode = enumerated, transport, source, break
			}
		}
	}
	return out
}()

func TestVerifC07(t *testing.T) {
	sim.Main(t, sim.Config{
		Prop:     "C07",
		Scenario: c07Scenario,
		EnumN:    func(string) int { return len(c07Enum) },
		EnumAt:   func(_ string, i int) []int { return c07Enum[i] },
		EnumLabels: func(string, int) []string {
			return []string{"workers", "mode", "transport", "source", "break"}
		},
		Runs:     map[string]int{"quick": 20000, "thorough": 800000},
		Real:     []string{"ingest pipeline: HandleRegUpdates -> parseRegMessage -> NewRegistrationC2SWrapper -> ingestRegistration", "ValidateRegistration, covert policy, phantom blocklist, register/announce", "tryShareRegistrationOverAPI / GenerateC2SWrapper", "min / prefix / obfs4 parameter parsing and port selection"},
		Stub:     []string{"liveness.Tester (table + call recorder)", "peer-station API (http.Post seam, recorder)", "detector (announcement recorder)", "ZMQ (harness writes into the ingest channel)"},
		Rule: "enumerated: transport {min, prefix, obfs4} x source {API, Detector, BidirectionalAPI, DNS, DetectorPrescan} x each of 22 ways to break (or not) exactly one admission condition, as a single message; random: 1-8 messages per run with random combinations of breaks, duplicates, share-over-API on/off. " +
			"Per message and family the model decides admitted / not admitted; observed: GetRegistrations(phantom), New announcements, liveness probe calls, peer-API posts. non-trivial = a message that breaks at least one condition (or a duplicate) was judged; distinct = (transport, source, break set, station config)",
		Assume: []string{"messages whose completeness the property leaves open (present-but-empty secret, absent registrant address) are not generated", "a repeat of a message whose first copy was rejected is a don't-care"},
	})
}

type c07Msg struct {
	c       *stClient
	breaks  map[string]bool
	bytes   []byte
	phantom [2]net.IP // effective phantom per family (after registrar override)
	expect  [2]bool
	probeOK [2]bool // a probe for this family's registration is licensed
	needs   [2]bool // an admitted registration of this family needed a probe
	share   bool    // a peer-API post is licensed
}

func c07Scenario(r *sim.Run) {
	tp := r.Tape
	s := hook.Install(tp)
	defer s.Uninstall()
	s.StayNum, s.StayDen = 1, 2
	o := stDefaultOpts()
	o.groups = []stSubnetGroup{{1, true, []string{"192.0.2.4/30", "2001:db8:1::4/126"}}}
	o.workers = 1 + tp.Choose("workers", 3)
	o.covertBlock = []string{"10.0.0.0/8"}
	enumMode := tp.Choose("mode", 2) == 1
	var enumTr, enumSrc, enumBreak int
	if enumMode {
		enumTr, enumSrc, enumBreak = tp.Choose("transport", 3), tp.Choose("source", len(c07Sources)), tp.Choose("break", len(c07Breaks))
	}
	o.shareAPI = !tp.Prob("no-share", 1, 4)
	w := newStWorld(r, s, tp, o)
	if w == nil {
		return
	}
	defer w.close()

	nmsg := 1
	if !enumMode {
		nmsg = 1 + tp.Choose("nmsg", 8)
	}
	finished := false
	s.Spawn("director", func() {
		var prev *c07Msg
		var prevAdmitted [2]bool
		for i := 0; i < nmsg && !r.Failed(); i++ {
			duplicate := !enumMode && prev != nil && tp.Prob("duplicate", 1, 5)
			m := &c07Msg{breaks: map[string]bool{}}
			// reset environment
			w.mu.Lock()
			w.live = map[string]bool{}
			w.mu.Unlock()
			w.rm.RegConfig.EnableIPv4, w.rm.RegConfig.EnableIPv6 = true, true
			w.rm.RegConfig.PhantomBlocklist = nil
			retry := false
			if duplicate && !prevAdmitted[0] && !prevAdmitted[1] && (prev.breaks["forbidden-covert"] || prev.breaks["malformed-covert"]) && !prev.breaks["no-secret"] && !prev.breaks["no-payload"] && tp.Bool("retry-corrected") {
				// the client whose registration was rejected for its covert address registers again
				// with the same secret and an acceptable covert address
				retry = true
				pc := prev.c
				pc.covert = "203.0.113.77:443"
				m = &c07Msg{c: pc, breaks: map[string]bool{"retry": true}, phantom: prev.phantom, bytes: pc.regMessage(nil)}
				r.Probe("retry_after_rejected_covert")
			} else if duplicate && len(prev.breaks) == 0 && (prevAdmitted[0] || prevAdmitted[1]) && tp.Bool("dup-with-forbidden-covert") {
				// the same client registers again, this time naming a covert address the policy forbids:
				// whatever the station does with the repeat, the registration that connections are
				// matched to must not end up with an unchecked covert (judged by the stored-covert clause)
				pc := prev.c
				pc.covert = "10.1.2.3:443"
				prev.bytes = pc.regMessage(nil)
				m = prev
				r.Probe("duplicate_with_forbidden_covert")
			} else if duplicate {
				m = prev
			} else {
				tr, src := 0, 0
				if enumMode {
					tr, src = enumTr, enumSrc
					m.breaks[c07Breaks[enumBreak]] = true
				} else {
					tr, src = tp.Choose("transport", 3), tp.Choose("source", len(c07Sources))
					for k := 0; k < 3; k++ {
						if tp.Prob("add-break", 2, 3) {
							m.breaks[c07Breaks[tp.Choose("break", len(c07Breaks))]] = true
						}
					}
				}
				delete(m.breaks, "none")
				var tt pb.TransportType
				var params any
				switch tr {
				case 0:
					tt = pb.TransportType_Min
				case 1:
					tt = pb.TransportType_Prefix
					params = &prefix.ClientParams{PrefixID: int32(tp.Choose("prefixid", 10))}
				default:
					tt = pb.TransportType_Obfs4
				}
				c, err := w.newClient(i, tt, params)
				if err != nil {
					r.Fail("harness/c07-client", "%v", err)
					return
				}
				m.c = c
				c.source = c07Sources[src]
				c.covert = fmt.Sprintf("203.0.113.%d:443", 10+i)
				if m.breaks["client-no-v4"] {
					c.v4 = false
				}
				if m.breaks["client-no-v6"] {
					c.v6 = false
				}
				if m.breaks["mapped-override-ipv6-registrant"] {
					// the registrar response carries an IPv4-mapped address in its IPv6 override field and
					// the registrant is IPv6: the only registration of this (IPv6-only) client would have
					// an IPv4 phantom, which needs an IPv4 registrant
					for k := range m.breaks {
						if k != "mapped-override-ipv6-registrant" {
							delete(m.breaks, k)
						}
					}
					c.v4 = false
					c.regAddr = net.ParseIP("2001:db8:99::1")
				}
				if m.breaks["mapped-override-live"] {
					// the registrar response carries an IPv4-mapped address in its IPv6 override field, the
					// registrant is IPv4, and the host behind that (IPv4) phantom answers the probe
					for k := range m.breaks {
						if k != "mapped-override-live" {
							delete(m.breaks, k)
						}
					}
				}
				if m.breaks["ipv6-registrant"] {
					c.regAddr = net.ParseIP("2001:db8:99::1")
				}
				if m.breaks["forbidden-covert"] {
					c.covert = "10.1.2.3:443"
				}
				if m.breaks["malformed-covert"] {
					c.covert = "203.0.113.10"
				}
				if m.breaks["unknown-generation"] {
					c.gen = 7
				}
				if m.breaks["prescanned+live"] || c.source == pb.RegistrationSource_DetectorPrescan {
					c.flags = &pb.RegistrationFlags{Prescanned: proto.Bool(true)}
				} else if m.breaks["explicit-prescanned-false"] {
					// not a break of an admission condition: the client spells the default out
					c.flags = &pb.RegistrationFlags{Prescanned: proto.Bool(false)}
				}
				m.phantom = [2]net.IP{c.phantom(false), c.phantom(true)}
				overridePort := uint32(0)
				m.bytes = c.regMessage(func(wr *pb.C2SWrapper) {
					if m.breaks["no-secret"] {
						wr.SharedSecret = nil
					}
					if m.breaks["no-transport"] {
						wr.RegistrationPayload.Transport = nil
					}
					if m.breaks["disabled-transport"] {
						wr.RegistrationPayload.Transport = pb.TransportType_DTLS.Enum()
					}
					if m.breaks["unknown-transport"] {
						wr.RegistrationPayload.Transport = pb.TransportType(77).Enum()
					}
					if m.breaks["override-phantom"] || m.breaks["override-to-blocklisted"] || m.breaks["override-port"] {
						rr := &pb.RegistrationResponse{}
						if m.breaks["override-phantom"] || m.breaks["override-to-blocklisted"] {
							ov4 := net.IPv4(192, 0, 2, 99).To4()
							ov6 := net.ParseIP("2001:db8:1::99")
							rr.Ipv4Addr = proto.Uint32(binary.BigEndian.Uint32(ov4))
							rr.Ipv6Addr = ov6
							m.phantom = [2]net.IP{ov4, ov6}
						}
						if m.breaks["override-port"] {
							overridePort = 8443
							rr.DstPort = proto.Uint32(overridePort)
						}
						wr.RegistrationResponse = rr
					}
					if m.breaks["mapped-override-ipv6-registrant"] {
						mapped := net.IPv4(192, 0, 2, 98).To16()
						wr.RegistrationResponse = &pb.RegistrationResponse{Ipv6Addr: mapped}
						m.phantom = [2]net.IP{nil, mapped}
					}
					if m.breaks["mapped-override-live"] {
						mapped := net.IPv4(192, 0, 2, 97).To16()
						wr.RegistrationResponse = &pb.RegistrationResponse{Ipv6Addr: mapped}
						m.phantom = [2]net.IP{m.phantom[0], mapped}
					}
					if m.breaks["no-payload"] {
						wr.RegistrationPayload = nil
					}
				})
			}
			c := m.c
			// station configuration and environment for this message
			if m.breaks["station-v4-off"] {
				w.rm.RegConfig.EnableIPv4 = false
			}
			if m.breaks["station-v6-off"] {
				w.rm.RegConfig.EnableIPv6 = false
			}
			var bl []string
			if m.breaks["phantom-blocklisted"] || m.breaks["override-to-blocklisted"] {
				if m.phantom[0] != nil {
					bl = append(bl, m.phantom[0].String()+"/32")
				}
				if m.phantom[1] != nil {
					bl = append(bl, m.phantom[1].String()+"/128")
				}
			}
			w.rm.RegConfig.PhantomBlocklist = bl
			w.rm.RegConfig.ParseBlocklists()
			live := m.breaks["live-phantom"] || m.breaks["prescanned+live"]
			if m.breaks["mapped-override-live"] {
				w.mu.Lock()
				w.live[m.phantom[1].To4().String()] = true
				w.liveCached = tp.Bool("live-verdict-from-cache")
				w.mu.Unlock()
			}
			if live && m.phantom[0] != nil {
				w.mu.Lock()
				w.live[m.phantom[0].String()] = true
				w.liveCached = tp.Bool("live-verdict-from-cache")
				w.mu.Unlock()
			}
			// ---- the admission model (from the property text) ----
			prescanned := c.flags.GetPrescanned()
			complete := !m.breaks["no-secret"] && !m.breaks["no-payload"] && !m.breaks["no-transport"]
			transportOK := !m.breaks["disabled-transport"] && !m.breaks["unknown-transport"] && !m.breaks["no-transport"]
			genOK := !m.breaks["unknown-generation"]
			covertOK := !m.breaks["forbidden-covert"] && !m.breaks["malformed-covert"]
			blocked := m.breaks["phantom-blocklisted"] || m.breaks["override-to-blocklisted"]
			registrantV4 := !m.breaks["ipv6-registrant"]
			for fam := 0; fam < 2; fam++ {
				famOK := false
				if fam == 0 {
					famOK = c.v4 && !m.breaks["station-v4-off"] && registrantV4
				} else {
					famOK = c.v6 && !m.breaks["station-v6-off"]
				}
				if m.breaks["mapped-override-ipv6-registrant"] {
					famOK = false
				}
				pre := complete && transportOK && genOK && famOK && covertOK
				needsProbe := fam == 0 && !prescanned
				famLive := live
				if m.breaks["mapped-override-live"] && fam == 1 {
					// the "IPv6" phantom of this message is the IPv4 address 192.0.2.97: it needs the
					// probe like any IPv4 phantom, and the host behind it answers
					needsProbe, famLive = !prescanned, true
				}
				m.needs[fam] = needsProbe
				m.expect[fam] = pre && !blocked && (!needsProbe || !famLive)
				// a probe is licensed only for a registration that is otherwise admissible; a
				// detector-sourced registration may be probed although its phantom is
				// blocklisted locally (it is still to be passed on to peers)
				m.probeOK[fam] = pre && needsProbe && (!blocked || c.source == pb.RegistrationSource_Detector)
			}
			// the v4 registration of a message is only built when the whole message parses: an
			// error while building either family's registration drops the message
			m.share = w.o.shareAPI && c.source == pb.RegistrationSource_Detector
			label := fmt.Sprintf("msg%d %s src=%s breaks=%v dup=%v", i, stTransportName(c.tt), c.source, c07Keys(m.breaks), duplicate)
			r.Logf("%s -> model: v4 admitted=%v v6 admitted=%v", label, m.expect[0], m.expect[1])
			r.Cover(stTransportName(c.tt), c.source.String(), fmt.Sprint(c07Keys(m.breaks), duplicate, w.o.shareAPI))
			if len(m.breaks) > 0 || duplicate {
				r.Nontrivial()
			}

			w.mu.Lock()
			a0, p0, q0 := len(w.anns), len(w.probes), len(w.posts)
			w.mu.Unlock()
			w.register(m.bytes)
			for k := 0; k < 3; k++ {
				w.settle() // the share-over-API goroutine
			}
			w.mu.Lock()
			anns := append([]stAnn(nil), w.anns[a0:]...)
			probes := append([]stProbe(nil), w.probes[p0:]...)
			posts := append([]stPost(nil), w.posts[q0:]...)
			w.mu.Unlock()

			circ := stTransportName(c.tt) + "/" + c.source.String()
			// whatever the history of messages for a secret, a registration that a connection can be
			// matched to carries a covert address that passed the covert policy
			for fam := 0; fam < 2; fam++ {
				if m.phantom[fam] == nil || m.breaks["no-secret"] {
					continue
				}
				for _, rg := range w.rm.GetRegistrations(m.phantom[fam]) {
					d := rg.(*cj.DecoyRegistration)
					if ap, err := netip.ParseAddrPort(d.Covert); err != nil || netip.MustParsePrefix("10.0.0.0/8").Contains(ap.Addr().Unmap()) {
						r.Fail("C07/admitted/forbidden-covert/stored/"+circ, "%s: a registration connectable on %s carries the covert address %q, which is malformed or blocklisted", label, m.phantom[fam], d.Covert)
						return
					}
				}
			}
			if retry {
				// whether the corrected registration is taken or ignored as a duplicate is not
				// specified; what is connectable must have been announced
				for fam := 0; fam < 2; fam++ {
					if c07Visible(w, m, fam) {
						seen := false
						w.mu.Lock()
						for _, a := range w.anns {
							if a.kind == "new" && a.phantom == m.phantom[fam].String() {
								seen = true
							}
						}
						w.mu.Unlock()
						if !seen {
							r.Fail("C07/valid-but-never-announced/retry/"+circ, "%s: connectable on %s but never announced", label, m.phantom[fam])
							return
						}
					}
				}
				prev = m
				prevAdmitted = [2]bool{c07Visible(w, m, 0), c07Visible(w, m, 1)}
				continue
			}
			if duplicate {
				// a repeat: admitted registrations stay admitted without a second announcement, no post;
				// repeats of rejected registrations are don't-cares
				for fam := 0; fam < 2; fam++ {
					if !prevAdmitted[fam] {
						continue
					}
					if !c07Visible(w, m, fam) {
						r.Fail("C07/duplicate-revoked/"+circ, "%s: the repeat of an admitted registration made it unusable (family %d)", label, 4+2*fam)
						return
					}
				}
				if prevAdmitted[0] || prevAdmitted[1] {
					for _, a := range anns {
						if a.kind == "new" && (prevAdmitted[0] && a.phantom == m.phantom[0].String() || prevAdmitted[1] && a.phantom == m.phantom[1].String()) {
							r.Fail("C07/announced-twice/"+circ, "%s: a duplicate of an admitted registration was announced again for %s", label, a.phantom)
							return
						}
					}
				}
				if prevAdmitted[0] && prevAdmitted[1] && len(posts) > 0 {
					r.Fail("C07/shared-twice/"+circ, "%s: a duplicate delivery was posted to the peer API again", label)
					return
				}
				if prevAdmitted[0] && len(probes) > 0 {
					r.Fail("C07/unneeded-probe/duplicate/"+circ, "%s: a duplicate of an admitted registration was probed again", label)
					return
				}
				continue
			}
			news := 0
			for fam := 0; fam < 2; fam++ {
				vis := false
				if m.phantom[fam] != nil && !m.breaks["no-secret"] {
					vis = c07Visible(w, m, fam)
				}
				ann := 0
				for _, a := range anns {
					if a.kind == "new" && m.phantom[fam] != nil && a.phantom == m.phantom[fam].String() {
						ann++
					}
				}
				news += ann
				if m.expect[fam] && !vis {
					r.Fail("C07/not-admitted/"+circ, "%s: every admission condition holds for the IPv%d registration, yet it is not connectable on %s", label, 4+2*fam, m.phantom[fam])
					return
				}
				if !m.expect[fam] && vis {
					r.Fail("C07/admitted/"+c07First(m.breaks)+"/"+circ, "%s: the IPv%d registration is connectable on %s although an admission condition does not hold", label, 4+2*fam, m.phantom[fam])
					return
				}
				if m.expect[fam] && ann != 1 {
					r.Fail("C07/announcement-count/"+circ, "%s: %d New announcements for the admitted IPv%d registration (exactly one expected)", label, ann, 4+2*fam)
					return
				}
				if !m.expect[fam] && ann != 0 {
					r.Fail("C07/announced-unadmitted/"+c07First(m.breaks)+"/"+circ, "%s: a New announcement was sent for the IPv%d registration although it must not be admitted", label, 4+2*fam)
					return
				}
			}
			for _, a := range anns {
				if a.kind == "new" {
					known := false
					for fam := 0; fam < 2; fam++ {
						if m.phantom[fam] != nil && a.phantom == m.phantom[fam].String() {
							known = true
						}
					}
					if !known {
						r.Fail("C07/announced-other-phantom/"+circ, "%s: New announcement for %s, which is neither of the registration's phantoms %v", label, a.phantom, m.phantom)
						return
					}
				}
			}
			// probes: only of a phantom that is an IPv4 address (an IPv4-mapped value in the IPv6 field
			// is one), only when licensed, at most one per registration
			nprobes := [2]int{}
			for _, p := range probes {
				fam := -1
				for f := 0; f < 2; f++ {
					if m.phantom[f] != nil && p.addr == m.phantom[f].String() {
						fam = f
					}
				}
				if fam < 0 {
					r.Fail("C07/probe-other-address/"+circ, "%s: probe of %s, not the registration's phantom", label, p.addr)
					return
				}
				if m.phantom[fam].To4() == nil {
					r.Fail("C07/unneeded-probe/ipv6/"+circ, "%s: an IPv6 phantom was probed", label)
					return
				}
				if !m.probeOK[fam] {
					r.Fail("C07/unneeded-probe/"+c07First(m.breaks)+"/"+circ, "%s: a liveness probe was sent although none is required (prescanned=%v, or another condition already fails)", label, prescanned)
					return
				}
				nprobes[fam]++
			}
			for fam := 0; fam < 2; fam++ {
				if nprobes[fam] > 1 {
					r.Fail("C07/probed-twice/"+circ, "%s: %d probes for one registration", label, nprobes[fam])
					return
				}
				if m.expect[fam] && m.needs[fam] && nprobes[fam] != 1 {
					r.Fail("C07/admitted-without-probe/"+circ, "%s: the registration on the IPv4 phantom %s was admitted without the liveness probe it needs", label, m.phantom[fam])
					return
				}
			}
			// peer API
			if len(posts) > 1 {
				r.Fail("C07/shared-twice/"+circ, "%s: %d posts to the peer API for one client registration", label, len(posts))
				return
			}
			if len(posts) == 1 {
				if !m.share {
					r.Fail("C07/shared-unlicensed/"+circ, "%s: posted to the peer API although the registration is not detector-sourced or sharing is off", label)
					return
				}
				// only after passing the liveness probe
				passed := false
				for fam := 0; fam < 2; fam++ {
					pre := m.expect[fam] || (m.probeOK[fam] && !live) // blocklisted-locally detector registrations still pass the probe
					if fam == 1 && c.v4 && !m.breaks["station-v4-off"] && registrantV4 {
						continue // the IPv6 twin of a dual-stack registration must not share
					}
					if pre || (c07PreOK(m, fam, complete, transportOK, genOK, covertOK) && (!m.needs[fam] || !live)) {
						passed = true
					}
				}
				if !passed {
					r.Fail("C07/shared-before-liveness/"+circ, "%s: posted to the peer API although the registration did not pass the liveness probe / admission", label)
					return
				}
				var wr pb.C2SWrapper
				if err := proto.Unmarshal(posts[0].body, &wr); err != nil {
					r.Fail("C07/share-body-unparseable/"+circ, "%s: %v", label, err)
					return
				}
				if !wr.GetRegistrationPayload().GetFlags().GetPrescanned() || wr.GetRegistrationSource() != pb.RegistrationSource_DetectorPrescan {
					r.Fail("C07/share-not-marked-prescanned/"+circ, "%s: shared registration has prescanned=%v source=%v", label, wr.GetRegistrationPayload().GetFlags().GetPrescanned(), wr.GetRegistrationSource())
					return
				}
				if !bytes.Equal(wr.GetSharedSecret(), c.keys.SharedSecret) {
					r.Fail("C07/share-wrong-secret/"+circ, "%s: shared registration carries another secret", label)
					return
				}
			}
			prev = m
			prevAdmitted = m.expect
			_ = news
		}
		finished = true
	})
	st := sim.Drive(r, s, sim.DriveOpt{Horizon: time.Hour, MaxSteps: 100000, Until: func() bool { return finished }})
	r.CoverU(s.SigHash)
	if st == sim.Failed || r.Failed() {
		return
	}
	if !finished {
		r.Fail("harness/c07-stuck", "scenario did not finish (%v): %v", st, s.LiveNames())
	}
}

func c07PreOK(m *c07Msg, fam int, complete, transportOK, genOK, covertOK bool) bool {
	c := m.c
	famOK := false
	if fam == 0 {
		famOK = c.v4 && !m.breaks["station-v4-off"] && !m.breaks["ipv6-registrant"]
	} else {
		famOK = c.v6 && !m.breaks["station-v6-off"]
	}
	return complete && transportOK && genOK && famOK && covertOK
}

// c07Visible reports whether a connection to the family's phantom would find the registration.
func c07Visible(w *stWorld, m *c07Msg, fam int) bool {
	if m.phantom[fam] == nil {
		return false
	}
	for _, rg := range w.rm.GetRegistrations(m.phantom[fam]) {
		d := rg.(*cj.DecoyRegistration)
		if bytes.Equal(d.Keys.SharedSecret, m.c.keys.SharedSecret) {
			return true
		}
	}
	return false
}

func c07Keys(m map[string]bool) []string {
	var ks []string
	for _, b := range c07Breaks {
		if m[b] {
			ks = append(ks, b)
		}
	}
	return ks
}

func c07First(m map[string]bool) string {
	ks := c07Keys(m)
	if len(ks) == 0 {
		return "none"
	}
	return ks[0]
}
