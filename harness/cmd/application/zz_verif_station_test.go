package main

// Station world (DESIGN.md 3.1): the real connection manager, registration
// manager, ingest pipeline, transports (station and client side) and relay,
// wired to a simulated network, covert hosts, resolver, phantom liveness table,
// peer API and detector recorder. Shared by C02, C03, C04, C06, C07, C10, C17.

import (
	"bufio"
	"bytes"
	"context"
	"errors"
	"fmt"
	"io"
	"net"
	"net/http"
	"net/netip"
	"os"
	"syscall"
	"path/filepath"
	"sort"
	"strings"
	"sync"
	"sync/atomic"
	"time"

	"github.com/go-redis/redis/v8"
	"github.com/refraction-networking/conjure/pkg/core"
	"github.com/refraction-networking/conjure/pkg/core/interfaces"
	"github.com/refraction-networking/conjure/pkg/phantoms"
	cj "github.com/refraction-networking/conjure/pkg/station/lib"
	"github.com/refraction-networking/conjure/pkg/station/liveness"
	"github.com/refraction-networking/conjure/pkg/station/log"
	"github.com/refraction-networking/conjure/pkg/transports/wrapping/min"
	"github.com/refraction-networking/conjure/pkg/transports/wrapping/obfs4"
	"github.com/refraction-networking/conjure/pkg/transports/wrapping/prefix"
	pb "github.com/refraction-networking/conjure/proto"
	"golang.org/x/crypto/curve25519"
	"google.golang.org/protobuf/proto"
	"google.golang.org/protobuf/types/known/anypb"

	"verif/sim"
	"verif/sim/hook"
	"verif/sim/simnet"
)

type stSubnetGroup struct {
	weight    int
	randomize bool
	subnets   []string
}

type stOpts struct {
	workers      int
	enable4      bool
	enable6      bool
	covertBlock  []string
	covertAllow  []string
	domainBlock  []string
	phantomBlock []string
	shareAPI     bool
	groups       []stSubnetGroup // generation 1
	noIngest     bool
	panicSig     string // signature for a panic in one of the station's own goroutines ("" = the process crashes, as before)
	geo          int    // GeoIP database: 0 = none (empty database), 1 = every address has a country code and an ASN, 2 = country "unk" (no ASN lookup), 3 = lookups fail, 4 = IPv4-only database (IPv6 lookups fail with the MaxMind reader's error, which quotes the address)
	extraKeys    int    // the station holds this many other private keys BEFORE its current one (key rotation: privkey_path names a directory); clients use the current key
	ownRedis     bool   // with realDetector: the station builds its go-redis client itself (real getRedisClient / initRedisClient on first use); the world only adds a dialer into the simulated network to the station's options
	redisDown    int    // with ownRedis: the first redisDown dials are refused (redis-server is not up yet when the station first uses the channel)
	realDetector bool   // keep the real sendToDetector / clearDetector and give them a go-redis client over a simulated connection
}

type stAnn struct {
	kind    string
	phantom string
	port    uint16
	proto   pb.IPProto
	client  string
	at      time.Duration
	reg     *cj.DecoyRegistration
}

type stDial struct {
	addr string
	at   time.Duration
	task string
}

type stProbe struct {
	addr string
	port uint16
	live bool
	at   time.Duration
}

type stPost struct {
	url  string
	body []byte
	at   time.Duration
}

type stCovert struct {
	addr string
	H, S *simnet.Conn
}

type stWorld struct {
	r           *sim.Run
	tp          *sim.Tape
	s           *hook.Sched
	o           stOpts
	rm          *cj.RegistrationManager
	holdProbes  atomic.Bool // liveness probes do not return while set
	failDials   int         // the next failDials dials fail with failDialErr
	failDialErr error
	cm          *connManager
	priv        [32]byte
	pub         [32]byte
	subnets     *pb.PhantomSubnetsList
	regChan     chan interface{}
	ctx         context.Context
	cancel      context.CancelFunc
	wg          *sync.WaitGroup

	mu         sync.Mutex
	live       map[string]bool
	probes     []stProbe
	anns       []stAnn
	dials      []stDial
	posts      []stPost
	coverts    []*stCovert
	conns      []*stConn
	names      map[string][]string // scripted resolver: host -> successive answers ("" = NXDOMAIN, "timeout", or an IP)
	lookups    map[string]int
	dialFault  map[string]error // covert addr -> dial error
	postErr    error
	covertMode map[string]string // addr -> "echo" (default) | "sink" | "drip" | "close"
	nconn      int
	captureOff int64
	ingestDone bool
	covertPlan func(S *simnet.Conn) // optional: fault plan for covert connections
	liveCached bool                 // live verdicts are reported as cached ones
	redis      *redis.Client
	redisConns []*simnet.Conn
	published  []stPublished
	mnSig      chan<- os.Signal      // main world: the channel main() handed to signal.Notify
	mnRegChan  chan<- interface{}    // main world: the channel main() created for the ZMQ ingester
	mnZMQMsg   chan struct{}         // main world: a message arrived at the subscriber (RunZMQ stand-in)
	mnZMQStop  chan struct{}         // main world: closed at teardown
}

func stDefaultOpts() stOpts {
	return stOpts{workers: 2, enable4: true, enable6: true,
		groups: []stSubnetGroup{{1, true, []string{"192.0.2.0/24", "2001:db8:1::/64"}}}}
}

func (w *stWorld) subnetToml() string {
	var b strings.Builder
	b.WriteString("[Networks]\n  [Networks.1]\n    Generation = 1\n")
	for _, g := range w.o.groups {
		fmt.Fprintf(&b, "    [[Networks.1.WeightedSubnets]]\n      Weight = %d\n      RandomizeDstPort = %v\n      Subnets = [", g.weight, g.randomize)
		for i, sn := range g.subnets {
			if i > 0 {
				b.WriteString(", ")
			}
			fmt.Fprintf(&b, "%q", sn)
		}
		b.WriteString("]\n")
	}
	return b.String()
}

func newStWorld(r *sim.Run, s *hook.Sched, tp *sim.Tape, o stOpts) *stWorld {
	w := &stWorld{r: r, s: s, tp: tp, o: o, live: map[string]bool{}, names: map[string][]string{}, lookups: map[string]int{},
		dialFault: map[string]error{}, covertMode: map[string]string{}}
	dir := os.Getenv("VERIF_SCRATCH")
	if dir == "" {
		dir = os.TempDir()
	}
	path := filepath.Join(dir, "st_subnets.toml")
	if err := os.WriteFile(path, []byte(w.subnetToml()), 0o644); err != nil {
		r.Fail("harness/station-subnets", "%v", err)
		return nil
	}
	os.Setenv("PHANTOM_SUBNET_LOCATION", path)
	w.subnets = &pb.PhantomSubnetsList{}
	for _, g := range o.groups {
		wt := uint32(g.weight)
		rnd := g.randomize
		w.subnets.WeightedSubnets = append(w.subnets.WeightedSubnets, &pb.PhantomSubnets{Weight: &wt, Subnets: g.subnets, RandomizeDstPort: &rnd})
	}

	// station key pair from the tape
	copy(w.priv[:], tp.Bytes("station-key", 32))
	w.priv[0] &= 248
	w.priv[31] &= 127
	w.priv[31] |= 64
	curve25519.ScalarBaseMult(&w.pub, &w.priv)

	conf := &cj.RegConfig{
		IngestWorkerCount:      o.workers,
		EnableIPv4:             o.enable4,
		EnableIPv6:             o.enable6,
		CovertBlocklistSubnets: o.covertBlock,
		CovertAllowlistSubnets: o.covertAllow,
		CovertBlocklistDomains: o.domainBlock,
		PhantomBlocklist:       o.phantomBlock,
		EnableShareOverAPI:     o.shareAPI,
		PreshareEndpoint:       "http://peer-station.invalid/register-bidirectional",
	}
	conf.ParseBlocklists()
	w.cm = newConnManager(nil)
	conf.ConnectingStats = w.cm
	w.rm = cj.NewRegistrationManager(conf)
	if w.rm == nil {
		r.Fail("harness/station-manager", "NewRegistrationManager returned nil")
		return nil
	}
	if o.geo != 0 {
		w.rm.GeoIP = stGeo{o.geo}
	}
	w.rm.LivenessTester = &stTester{w}
	sharedLogger = w.rm.Logger
	logClientIP = false
	if o.realDetector {
		w.startRedis()
	} else {
		cj.VerifSetDetector(w.rm,
			func(d *cj.DecoyRegistration) { w.announce("new", d) },
			func(d *cj.DecoyRegistration) { w.announce("update", d) })
	}
	w.rm.AddTransport(pb.TransportType_Min, min.Transport{})
	w.rm.AddTransport(pb.TransportType_Obfs4, obfs4.Transport{})
	var stationKeys [][32]byte
	for i := 0; i < o.extraKeys; i++ {
		var k [32]byte
		for j := range k {
			k[j] = byte(0x51*(i+1) + 7*j)
		}
		k[0] &= 248
		k[31] &= 127
		k[31] |= 64
		stationKeys = append(stationKeys, k)
	}
	pt, err := prefix.Default(append(stationKeys, w.priv))
	if err != nil {
		r.Fail("harness/station-prefix", "%v", err)
		return nil
	}
	w.rm.AddTransport(pb.TransportType_Prefix, pt)

	hook.SetNetSeams(w.dial, w.resolve, w.post)
	if o.panicSig != "" {
		s.OnTaskPanic = func(task string, v any) {
			r.Fail(o.panicSig, "a goroutine of the station (%s) panicked — the process is gone: %v", task, v)
		}
	}

	w.ctx, w.cancel = context.WithCancel(context.Background())
	w.wg = new(sync.WaitGroup)
	w.regChan = make(chan interface{}, 10000)
	if !o.noIngest {
		w.wg.Add(1)
		s.Spawn("ingest", func() {
			w.rm.HandleRegUpdates(w.ctx, w.regChan, w.wg)
			w.ingestDone = true
		})
	}
	w.captureOff = stCaptureSize()
	return w
}

// startRedis gives the package-level redis client of pkg/station/lib a real
// go-redis client whose connections are simulated and end at an in-process
// RESP stub that records every PUBLISH.
func (w *stWorld) startRedis() {
	n := 0
	if w.o.ownRedis {
		cj.VerifOwnRedis(func(opt *redis.Options) *redis.Client {
			opt.PoolSize = 4
			opt.IdleCheckFrequency = -1
			opt.MaxRetries = -1
			opt.Dialer = func(ctx context.Context, network, addr string) (net.Conn, error) {
				w.mu.Lock()
				n++
				k := n
				w.mu.Unlock()
				if k <= w.o.redisDown {
					w.r.Fault("detector/redis-unreachable-at-first-use")
					return nil, &net.OpError{Op: "dial", Net: "tcp", Addr: &net.TCPAddr{IP: net.IPv4(127, 0, 0, 1), Port: 6379}, Err: os.NewSyscallError("connect", syscall.ECONNREFUSED)}
				}
				c, srv := simnet.Pipe(w.r, fmt.Sprintf("redis%d.station", k), fmt.Sprintf("redis%d.stub", k), simnet.TCP("127.0.0.1", 50000+k), simnet.TCP("127.0.0.1", 6379))
				c.Quiet, srv.Quiet = true, true
				w.mu.Lock()
				w.redisConns = append(w.redisConns, c, srv)
				w.mu.Unlock()
				go w.respStub(srv)
				return c, nil
			}
			c := redis.NewClient(opt)
			w.mu.Lock()
			w.redis = c
			w.mu.Unlock()
			return c
		})
		return
	}
	w.redis = redis.NewClient(&redis.Options{
		Addr:               "detector.invalid:6379",
		PoolSize:           4,
		IdleCheckFrequency: -1,
		MaxRetries:         -1,
		Dialer: func(ctx context.Context, network, addr string) (net.Conn, error) {
			w.mu.Lock()
			n++
			k := n
			w.mu.Unlock()
			c, srv := simnet.Pipe(w.r, fmt.Sprintf("redis%d.station", k), fmt.Sprintf("redis%d.stub", k), simnet.TCP("127.0.0.1", 50000+k), simnet.TCP("127.0.0.1", 6379))
			c.Quiet, srv.Quiet = true, true
			w.mu.Lock()
			w.redisConns = append(w.redisConns, c, srv)
			w.mu.Unlock()
			go w.respStub(srv)
			return c, nil
		},
	})
	cj.VerifSetRedis(w.redis)
}

// respStub answers RESP commands: PUBLISH is recorded and answered with the
// number of subscribers (1), everything else with +OK / +PONG.
func (w *stWorld) respStub(c *simnet.Conn) {
	br := bufio.NewReader(c)
	readLine := func() (string, error) {
		l, err := br.ReadString('\n')
		return strings.TrimRight(l, "\r\n"), err
	}
	for {
		l, err := readLine()
		if err != nil {
			return
		}
		if !strings.HasPrefix(l, "*") {
			continue
		}
		var nargs int
		fmt.Sscanf(l[1:], "%d", &nargs)
		var args [][]byte
		for i := 0; i < nargs; i++ {
			h, err := readLine()
			if err != nil {
				return
			}
			var ln int
			fmt.Sscanf(h[1:], "%d", &ln)
			b := make([]byte, ln+2)
			if _, err := io.ReadFull(br, b); err != nil {
				return
			}
			args = append(args, b[:ln])
		}
		if len(args) == 0 {
			continue
		}
		switch strings.ToUpper(string(args[0])) {
		case "PUBLISH":
			if len(args) == 3 {
				w.mu.Lock()
				w.published = append(w.published, stPublished{channel: string(args[1]), payload: append([]byte(nil), args[2]...), at: w.r.Elapsed()})
				w.mu.Unlock()
			}
			c.Write([]byte(":1\r\n"))
		case "PING":
			c.Write([]byte("+PONG\r\n"))
		default:
			c.Write([]byte("+OK\r\n"))
		}
	}
}

type stPublished struct {
	channel string
	payload []byte
	at      time.Duration
}

// close tears the world down: stop the ingest pipeline, close every simulated
// connection end, abort what is left.
func (w *stWorld) close() {
	if w.redis != nil {
		w.redis.Close()
		for _, c := range w.redisConns {
			c.Close()
		}
	}
	w.cancel()
	close(w.regChan)
	if w.mnSig != nil {
		// main world: a main() that is still waiting for signals is told to stop
		select {
		case w.mnSig <- syscall.SIGTERM:
		default:
		}
	}
	w.s.Abort()
	w.mu.Lock()
	conns := append([]*stConn(nil), w.conns...)
	covs := append([]*stCovert(nil), w.coverts...)
	w.mu.Unlock()
	for _, c := range conns {
		c.H.Quiet, c.S.Quiet = true, true
		c.H.Close()
		c.S.Close()
	}
	for _, c := range covs {
		c.H.Quiet, c.S.Quiet = true, true
		c.H.Close()
		c.S.Close()
	}
	w.s.Finish()
	hook.ClearNetSeams()
}

func (w *stWorld) announce(kind string, d *cj.DecoyRegistration) {
	w.mu.Lock()
	w.anns = append(w.anns, stAnn{kind: kind, phantom: d.PhantomIp.String(), port: d.PhantomPort, proto: d.PhantomProto,
		client: cj.VerifRegistrationAddr(d).String(), at: w.r.Elapsed(), reg: d})
	w.mu.Unlock()
	w.r.Logf("detector %s phantom=%s port=%d", kind, d.PhantomIp, d.PhantomPort)
}

// ---- liveness -----------------------------------------------------------

type stTester struct{ w *stWorld }

func (t *stTester) PhantomIsLive(addr string, port uint16) (bool, error) {
	hook.Yield("liveness-probe")
	w := t.w
	for w.holdProbes.Load() {
		// the probe takes its time (a worker is in the middle of a registration)
		hook.Park(&hook.Op{Kind: "probe-held", Site: "tester", Enabled: func() bool { return !w.holdProbes.Load() }})
	}
	w.mu.Lock()
	live := w.live[addr]
	w.probes = append(w.probes, stProbe{addr, port, live, w.r.Elapsed()})
	w.mu.Unlock()
	w.r.Logf("probe %s:%d -> live=%v", addr, port, live)
	hook.Yield("liveness-probe-done")
	if live {
		if w.liveCached {
			// the verdict a caching tester gives for a phantom it already knows to be live
			return true, liveness.ErrCachedPhantom
		}
		return true, liveness.ErrLiveHost
	}
	return false, liveness.NotLive
}
func (t *stTester) PrintAndReset(*log.Logger) {}
func (t *stTester) PrintStats(*log.Logger)    {}
func (t *stTester) Reset()                    {}

// ---- seams --------------------------------------------------------------

func (w *stWorld) dial(network, addr string) (net.Conn, error) {
	w.mu.Lock()
	w.dials = append(w.dials, stDial{addr, w.r.Elapsed(), hook.TaskName()})
	ferr := w.dialFault[addr]
	if ferr == nil && w.failDials > 0 {
		// "the next n dials fail", whatever address they go to
		w.failDials--
		ferr = w.failDialErr
	}
	mode := w.covertMode[addr]
	n := len(w.coverts)
	w.mu.Unlock()
	w.r.Logf("dial %s %q", network, addr)
	if ferr != nil {
		w.r.Fault("dial/" + simnet.ErrName(ferr))
		return nil, ferr
	}
	ap, err := netip.ParseAddrPort(addr)
	var caddr *net.TCPAddr
	if err == nil {
		caddr = net.TCPAddrFromAddrPort(ap)
	} else {
		caddr = simnet.TCP("203.0.113.254", 9)
	}
	name := fmt.Sprintf("covert%d", n)
	S, H := simnet.Pipe(w.r, "st."+name, name, simnet.TCP("10.9.8.7", 40000+n), caddr)
	S.Sched, H.Sched = true, true
	if w.covertPlan != nil {
		w.covertPlan(S)
	}
	cv := &stCovert{addr: addr, H: H, S: S}
	w.mu.Lock()
	w.coverts = append(w.coverts, cv)
	w.mu.Unlock()
	switch mode {
	case "sink":
		w.s.Spawn(name, func() {
			buf := make([]byte, 65536)
			for {
				if _, err := H.Read(buf); err != nil {
					break
				}
			}
			H.Close()
		})
	case "drip":
		// a covert host that sends on its own, steadily, and never answers what it receives:
		// stDripN chunks of 100 bytes, 2 s apart (a one-way download that lasts a minute; the gaps
		// are short so that no plausible idle timeout is involved, only the total duration counts)
		w.s.Spawn(name, func() {
			buf := make([]byte, 65536)
			for {
				if _, err := H.Read(buf); err != nil {
					break
				}
			}
			H.Close()
		})
		w.s.Spawn(name+".drip", func() {
			for k := 0; k < stDripN; k++ {
				time.Sleep(stDripGap)
				if _, err := H.Write(stDripChunk(k)); err != nil {
					return
				}
			}
		})
	case "close":
		w.s.Spawn(name, func() { H.Close() })
	default:
		w.s.Spawn(name, func() {
			buf := make([]byte, 65536)
			for {
				n, err := H.Read(buf)
				if n > 0 {
					if _, werr := H.Write(buf[:n]); werr != nil {
						break
					}
				}
				if err != nil {
					break
				}
			}
			H.Close()
		})
	}
	return S, nil
}

// resolve is the scripted resolver. Literal addresses (and the empty host) are
// handled by the real net.ResolveIPAddr, which does no DNS for them; names get
// the scripted answers.
func (w *stWorld) resolve(network, host string) (*net.IPAddr, error) {
	if _, err := netip.ParseAddr(host); err == nil || host == "" {
		return net.ResolveIPAddr(network, host)
	}
	w.mu.Lock()
	k := w.lookups[host]
	w.lookups[host] = k + 1
	answers := w.names[host]
	w.mu.Unlock()
	ans := ""
	if len(answers) > 0 {
		if k < len(answers) {
			ans = answers[k]
		} else {
			ans = answers[len(answers)-1]
		}
	}
	w.r.Logf("resolve %q (lookup #%d) -> %q", host, k, ans)
	switch ans {
	case "":
		return nil, &net.DNSError{Err: "no such host", Name: host, IsNotFound: true}
	case "timeout":
		return nil, &net.DNSError{Err: "i/o timeout", Name: host, IsTimeout: true}
	}
	ip := net.ParseIP(ans)
	if ip == nil {
		return nil, &net.DNSError{Err: "no such host", Name: host, IsNotFound: true}
	}
	return &net.IPAddr{IP: ip}, nil
}

func (w *stWorld) post(url, contentType string, body io.Reader) (*http.Response, error) {
	hook.Yield("peer-api-post")
	b, _ := io.ReadAll(body)
	w.mu.Lock()
	w.posts = append(w.posts, stPost{url, b, w.r.Elapsed()})
	perr := w.postErr
	w.mu.Unlock()
	w.r.Logf("peer API POST %s (%d bytes)", url, len(b))
	if perr != nil {
		return nil, perr
	}
	return &http.Response{StatusCode: 200, Status: "200 OK", Body: io.NopCloser(bytes.NewReader(nil)), Header: http.Header{}}, nil
}

// ---- clients ------------------------------------------------------------

type stClient struct {
	w       *stWorld
	id      int
	tt      pb.TransportType
	libver  uint32
	gen     uint32
	v4, v6  bool
	covert  string
	regAddr net.IP
	source  pb.RegistrationSource
	flags   *pb.RegistrationFlags
	params  any // argument for ClientTransport.SetParams (nil = default)
	keys    *core.SharedKeys
	ct      interfaces.WrappingTransport
	pparams proto.Message
	ph4     *phantoms.PhantomIP
	ph6     *phantoms.PhantomIP
	port    uint16
}

func stTransportName(tt pb.TransportType) string {
	switch tt {
	case pb.TransportType_Min:
		return "min"
	case pb.TransportType_Obfs4:
		return "obfs4"
	case pb.TransportType_Prefix:
		return "prefix"
	}
	return tt.String()
}

// newClient creates a client session the way the client library does: fresh
// shared keys (seeded crypto/rand), client transport prepared with its
// parameters, phantom and port derived with the client-side functions.
func (w *stWorld) newClient(id int, tt pb.TransportType, params any) (*stClient, error) {
	c := &stClient{w: w, id: id, tt: tt, libver: core.CurrentClientLibraryVersion(), gen: 1, v4: true, v6: true,
		covert: fmt.Sprintf("203.0.113.%d:443", 10+id%200), regAddr: net.IPv4(198, 51, 100, byte(10+id%200)).To4(), source: pb.RegistrationSource_API, params: params}
	keys, err := core.GenerateClientSharedKeys(w.pub)
	if err != nil {
		return nil, err
	}
	c.keys = keys
	switch tt {
	case pb.TransportType_Min:
		c.ct = &min.ClientTransport{}
	case pb.TransportType_Obfs4:
		c.ct = &obfs4.ClientTransport{}
	case pb.TransportType_Prefix:
		c.ct = &prefix.ClientTransport{}
	default:
		return nil, fmt.Errorf("no client transport for %v", tt)
	}
	if err := c.ct.SetParams(params); err != nil {
		return nil, err
	}
	if err := c.ct.Prepare(context.Background(), nil); err != nil {
		return nil, err
	}
	if c.pparams, err = c.ct.GetParams(); err != nil {
		return nil, err
	}
	if c.port, err = c.ct.GetDstPort(keys.ConjureSeed); err != nil {
		return nil, err
	}
	if err := c.ct.PrepareKeys(w.pub, keys.SharedSecret, keys.Reader); err != nil {
		return nil, err
	}
	c.ph4, _ = phantoms.SelectPhantom(keys.ConjureSeed, w.subnets, phantoms.V4Only, true)
	c.ph6, _ = phantoms.SelectPhantom(keys.ConjureSeed, w.subnets, phantoms.V6Only, true)
	// the client library falls back to 443 when the chosen subnet does not allow port randomisation
	return c, nil
}

func (c *stClient) phantom(v6 bool) net.IP {
	if v6 {
		if c.ph6 == nil {
			return nil
		}
		return *c.ph6.IP()
	}
	if c.ph4 == nil {
		return nil
	}
	return *c.ph4.IP()
}

// dstPort is the port the client connects to for the given family.
func (c *stClient) dstPort(v6 bool) uint16 {
	ph := c.ph4
	if v6 {
		ph = c.ph6
	}
	if ph != nil && !ph.SupportRandomPort() {
		return 443
	}
	return c.port
}

// regMessage builds the C2SWrapper bytes that reach the station over ZMQ.
func (c *stClient) regMessage(mut func(*pb.C2SWrapper)) []byte {
	c2s := &pb.ClientToStation{
		ClientLibVersion:    proto.Uint32(c.libver),
		Transport:           c.tt.Enum(),
		CovertAddress:       proto.String(c.covert),
		DecoyListGeneration: proto.Uint32(c.gen),
		V4Support:           proto.Bool(c.v4),
		V6Support:           proto.Bool(c.v6),
		Flags:               c.flags,
	}
	if c.pparams != nil {
		if a, err := anypb.New(c.pparams); err == nil {
			c2s.TransportParams = a
		}
	}
	src := c.source
	wr := &pb.C2SWrapper{SharedSecret: c.keys.SharedSecret, RegistrationPayload: c2s, RegistrationSource: &src, RegistrationAddress: []byte(c.regAddr)}
	if mut != nil {
		mut(wr)
	}
	b, err := proto.Marshal(wr)
	if err != nil {
		panic(err)
	}
	return b
}

// flight returns the bytes the real client transport writes when it wraps a
// connection (min / prefix: not interactive).
func (c *stClient) flight() ([]byte, error) {
	cap := &stCaptureConn{}
	if _, err := c.ct.WrapConn(cap); err != nil {
		return nil, err
	}
	return cap.buf.Bytes(), nil
}

type stCaptureConn struct {
	buf    bytes.Buffer
	writes []int
}

func (c *stCaptureConn) Write(p []byte) (int, error) {
	c.writes = append(c.writes, len(p))
	return c.buf.Write(p)
}
func (c *stCaptureConn) Read(p []byte) (int, error)       { return 0, io.EOF }
func (c *stCaptureConn) Close() error                     { return nil }
func (c *stCaptureConn) LocalAddr() net.Addr              { return simnet.TCP("198.51.100.1", 1) }
func (c *stCaptureConn) RemoteAddr() net.Addr             { return simnet.TCP("192.0.2.1", 443) }
func (c *stCaptureConn) SetDeadline(time.Time) error      { return nil }
func (c *stCaptureConn) SetReadDeadline(time.Time) error  { return nil }
func (c *stCaptureConn) SetWriteDeadline(time.Time) error { return nil }

// publish hands one registration message to the station's ingest channel (what the ZMQ ingester does).
func (w *stWorld) publish(msg []byte) {
	hook.Yield("zmq-publish")
	w.r.Logf("publish registration message (%d bytes)", len(msg))
	if w.mnRegChan != nil {
		w.mnRegChan <- msg
		return
	}
	w.regChan <- msg
}

// register publishes a client's registration when the ingest pipeline is idle
// and waits until it has been digested. (The pipeline drops messages when no
// worker is free - by design, see C09 - so a director that wants a registration
// to be processed offers it to an idle pipeline.)
func (w *stWorld) register(msg []byte) {
	w.settle()
	w.publish(msg)
	w.settle()
}

// settle parks the calling director until the system has nothing left to do at this instant.
func (w *stWorld) settle() { hook.ParkIdle("settle") }

// ---- connections --------------------------------------------------------

type stConn struct {
	name     string
	phantom  net.IP
	H, S     *simnet.Conn
	start    time.Duration
	retAt    time.Duration
	returned bool
	task     string
}

// open creates a client connection to a phantom and starts the station's
// handler for it (what handleNewConn does after reading the original destination).
func (w *stWorld) open(phantom net.IP, cliAddr *net.TCPAddr) *stConn {
	return w.openWith(phantom, cliAddr, nil)
}

// openWith lets the caller prepare the station end (fault plan) before the handler starts.
func (w *stWorld) openWith(phantom net.IP, cliAddr *net.TCPAddr, prep func(S *simnet.Conn)) *stConn {
	w.mu.Lock()
	n := w.nconn
	w.nconn++
	w.mu.Unlock()
	name := fmt.Sprintf("conn%d", n)
	H, S := simnet.Pipe(w.r, name+".client", name+".station", cliAddr, &net.TCPAddr{IP: phantom, Port: 443})
	H.Sched, S.Sched = true, true
	if prep != nil {
		prep(S)
	}
	c := &stConn{name: name, phantom: phantom, H: H, S: S, start: w.r.Elapsed(), task: name + ".handler"}
	w.mu.Lock()
	w.conns = append(w.conns, c)
	w.mu.Unlock()
	w.r.Logf("%s: client %s -> phantom %s", name, cliAddr, phantom)
	w.s.Spawn(c.task, func() {
		w.cm.handleNewTCPConn(w.rm, S, phantom)
		c.retAt = w.r.Elapsed()
		c.returned = true
		w.r.Logf("%s: handler returned", name)
		S.Close()
	})
	return c
}

// writeSegments writes stream to the connection cut at the given offsets, pausing as told.
func stWriteSegments(h *simnet.Conn, stream []byte, cuts []int, pauses []time.Duration) error {
	cuts = append([]int(nil), cuts...)
	sort.Ints(cuts)
	prev := 0
	k := 0
	emit := func(to int) error {
		if to > prev {
			if _, err := h.Write(stream[prev:to]); err != nil {
				return err
			}
			prev = to
			if k < len(pauses) && pauses[k] > 0 {
				time.Sleep(pauses[k])
			}
			k++
		}
		return nil
	}
	for _, c := range cuts {
		if c <= 0 || c >= len(stream) {
			continue
		}
		if err := emit(c); err != nil {
			return err
		}
	}
	return emit(len(stream))
}

// segConn lets an interactive client (obfs4) run over a connection whose
// outgoing byte stream is re-segmented at absolute stream offsets: written
// bytes are held back until a cut point is passed or the client starts to read.
type segConn struct {
	*simnet.Conn
	cuts    []int
	off     int
	pending []byte
	pauses  []time.Duration
	k       int
	// tailCuts: distances from the end of the first flight (known when the client starts to read)
	tailCuts []int
}

func (s *segConn) flushTo(n int) error {
	if n <= 0 {
		return nil
	}
	_, err := s.Conn.Write(s.pending[:n])
	s.pending = s.pending[n:]
	s.off += n
	if s.k < len(s.pauses) && s.pauses[s.k] > 0 {
		time.Sleep(s.pauses[s.k])
	}
	s.k++
	return err
}

func (s *segConn) Write(p []byte) (int, error) {
	s.pending = append(s.pending, p...)
	for len(s.cuts) > 0 {
		c := s.cuts[0]
		if c <= s.off {
			s.cuts = s.cuts[1:]
			continue
		}
		if c-s.off > len(s.pending) {
			break
		}
		if err := s.flushTo(c - s.off); err != nil {
			return 0, err
		}
		s.cuts = s.cuts[1:]
	}
	return len(p), nil
}

func (s *segConn) Flush() error {
	if len(s.tailCuts) > 0 {
		tc := append([]int(nil), s.tailCuts...)
		s.tailCuts = nil
		sort.Sort(sort.Reverse(sort.IntSlice(tc)))
		total := len(s.pending)
		done := 0
		for _, d := range tc {
			at := total - d
			if at <= done || at >= total {
				continue
			}
			if err := s.flushTo(at - done); err != nil {
				return err
			}
			done = at
		}
	}
	return s.flushTo(len(s.pending))
}

func (s *segConn) Read(p []byte) (int, error) {
	if err := s.Flush(); err != nil {
		return 0, err
	}
	return s.Conn.Read(p)
}

func (s *segConn) Close() error {
	s.Flush()
	return s.Conn.Close()
}

// ---- captured station output ---------------------------------------------

func stCaptureSize() int64 {
	if verifCapturePath == "" {
		return 0
	}
	if fi, err := os.Stat(verifCapturePath); err == nil {
		return fi.Size()
	}
	return 0
}

// logSince returns what the station wrote to its log writers since the world was created.
func (w *stWorld) logSince() []byte {
	if verifCapturePath == "" {
		return nil
	}
	f, err := os.Open(verifCapturePath)
	if err != nil {
		return nil
	}
	defer f.Close()
	f.Seek(w.captureOff, io.SeekStart)
	b, _ := io.ReadAll(f)
	return b
}

// ---- helpers --------------------------------------------------------------

func stIsTimeout(err error) bool {
	var ne net.Error
	return errors.As(err, &ne) && ne.Timeout()
}

// readN reads exactly n bytes (or until error / the given simulated deadline).
// stDripChunk is the k-th chunk a "drip" covert sends (and a one-way uploading client, too).
const stDripN, stDripGap = 32, 2 * time.Second

func stDripChunk(k int) []byte {
	b := make([]byte, 100)
	for i := range b {
		b[i] = byte(0x40 + (k*37+i*11)%0x3f)
	}
	return b
}

func stReadN(c net.Conn, n int, deadline time.Duration) ([]byte, error) {
	c.SetReadDeadline(time.Now().Add(deadline))
	buf := make([]byte, n)
	got := 0
	for got < n {
		k, err := c.Read(buf[got:])
		got += k
		if err != nil {
			return buf[:got], err
		}
	}
	return buf, nil
}

// stGeo stands in for the MaxMind databases (the per-country / per-ASN statistics paths of the
// connection handler only run for addresses the database knows).
type stGeo struct{ kind int }

// errV4Only is what the MaxMind reader answers when an IPv6 address is looked up in an IPv4-only
// database (maxminddb-golang reader.go): the text quotes the address.
func errV4Only(ip net.IP) error {
	return fmt.Errorf("error looking up '%s': you attempted to look up an IPv6 address in an IPv4-only database", ip.String())
}

func (g stGeo) CC(ip net.IP) (string, error) {
	if g.kind == 4 {
		if ip.To4() == nil {
			return "", errV4Only(ip)
		}
		return "US", nil
	}
	switch g.kind {
	case 1:
		return []string{"US", "DE", "IR"}[int(ip[len(ip)-1])%3], nil
	case 2:
		return "unk", nil
	}
	return "", errors.New("geoip: lookup failed")
}

func (g stGeo) ASN(ip net.IP) (uint, error) {
	if g.kind == 4 && ip.To4() == nil {
		return 0, errV4Only(ip)
	}
	if g.kind == 3 {
		return 0, errors.New("geoip: lookup failed")
	}
	return 64500 + uint(ip[len(ip)-1])%4, nil
}
