//go:debug asynctimerchan=0
package main

// Harness entry of the conjure simulator for package cmd/application
// (station world). Overlaid into the package by /verif/bin/check.

import (
	golog "log"
	"os"
	"testing"

	cj "github.com/refraction-networking/conjure/pkg/station/lib"
)

var verifStdout *os.File
var verifCapturePath string

func TestMain(m *testing.M) {
	if os.Getenv("VERIF_PROP") != "" {
		verifStdout = os.Stdout
		if p := os.Getenv("VERIF_CAPTURE"); p != "" {
			f, err := os.Create(p)
			if err != nil {
				panic(err)
			}
			verifCapturePath = p
			// every logger of the station is created with os.Stdout / os.Stderr
			// at creation time, and the std logger writes to os.Stderr
			os.Stdout = f
			os.Stderr = f
			golog.SetOutput(f)
		}
		cj.VerifInitStatsNoTickers()
	}
	os.Exit(m.Run())
}
