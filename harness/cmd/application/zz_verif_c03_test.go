package main

// C03 — unauthenticated connections get no bytes and no early close.
// A simulated prober that never holds a valid tag sends generated streams under
// generated segmentation and pacing to a phantom of the real station
// (handleNewTCPConn + real transports + real registry).

import (
	"fmt"
	"math/rand"
	"net"
	"testing"
	"time"

	"github.com/refraction-networking/conjure/pkg/transports/wrapping/prefix"
	pb "github.com/refraction-networking/conjure/proto"

	"verif/sim"
	"verif/sim/hook"
	"verif/sim/simnet"
)

var c03Lens = []int{0, 1, 31, 32, 33, 63, 64, 65, 69, 70, 71, 72, 80, 85, 86, 100, 1000, 4095, 4096, 4097, 8191, 8192, 8193, 16384}
var c03Pauses = []time.Duration{0, 0, 0, time.Millisecond, 100 * time.Millisecond, time.Second, 3 * time.Second, 4900 * time.Millisecond}

var c03Lookalikes = [][]byte{
	[]byte("GET / HTTP/1.1\r\nHost: example.com\r\nUser-Agent: curl/8.0\r\n\r\n"),
	[]byte("POST / HTTP/1.1\r\nHost: example.com\r\nContent-Length: 0\r\n\r\n"),
	[]byte("HTTP/1.1 200\r\nServer: x\r\n\r\n"),
	[]byte("\x16\x03\x01\x02\x00\x01\x00\x01\xfc\x03\x03"),
	[]byte("\x16\x03\x03\x40\x00\x01"),
	[]byte("\x16\x03\x03\x40\x00\x02\r\n"),
	[]byte("\x15\x03\x01\x00\x02"),
	[]byte("\x15\x03\x02\x00\x02"),
	[]byte("\x05\xDC\x5F\xE0\x01\x20"),
	[]byte("SSH-2.0-OpenSSH_8.9p1"),
	[]byte("SSH-2.0-OpenSSH_8.9p1 Ubuntu-3\r\n"),
}

// forced tape prefixes in the order the scenario draws: workers, registry, [nclients], family, content, len
var c03Enum = func() [][]int {
	var out [][]int
	for reg := 0; reg < 3; reg++ {
		for fam := 0; fam < 4; fam += 3 {
			for content := 0; content < 6; content++ {
				for l := range c03Lens {
					// workers, station key (any value), registry kind, (clients), family, content kind, length
					p := []int{1, 4242, reg}
					if reg > 0 {
						p = append(p, 2)
					}
					out = append(out, append(p, fam, content, l))
				}
			}
		}
	}
	return out
}()

type c03Obs struct {
	sent      int
	returned  bool
	retAt     time.Duration
	closedAt  time.Duration
	peerEnded bool
	stopped   string
	// regOnPhantom: registrations existed on the probed phantom
	regOnPhantom bool
}

func TestVerifC03(t *testing.T) {
	sim.Main(t, sim.Config{
		Prop:     "C03",
		Scenario: c03Scenario,
		// systematic part: registry kind x family x content kind x every threshold length; the
		// remaining choices (cuts, pacing, prober behaviour, clients, schedule) are drawn from the seed
		EnumN:   func(string) int { return len(c03Enum) },
		EnumAt:  func(_ string, i int) []int { return c03Enum[i] },
		EnumLabels: func(_ string, i int) []string {
			if len(c03Enum[i]) == 7 {
				return []string{"workers", "station-key", "registry", "nclients", "family", "content", "len"}
			}
			return []string{"workers", "station-key", "registry", "family", "content", "len"}
		},
		Runs:    map[string]int{"quick": 25000, "thorough": 800000},
		LeakSig: "",
		Real:    []string{"cmd/application connManager.handleNewTCPConn (read loop, classification deadline, discard paths)", "min / prefix (all default prefixes) / obfs4 station transports", "RegistrationManager + ingest pipeline (registrations are ingested through HandleRegUpdates)", "client transports producing the genuine flights that are then corrupted"},
		Stub:    []string{"TCP connection (simnet: segmentation, pacing, FIN/RST by the prober)", "liveness probes (table)", "detector (recorder)", "ZMQ (harness writes into the ingest channel)", "accept loop / original-destination lookup of handleNewConn (harness passes the phantom and closes the connection when the handler returns)"},
		Rule: "enumerated: registry kind (3) x family (2) x content kind (6) x each of the 24 threshold lengths, other choices seeded; random: probe stream = {random bytes, constant fills (00/ff/80/40/7f/01) alone and after a static prefix, every default static prefix + garbage, protocol look-alikes, genuine min/prefix/obfs4-sized flights of a REGISTERED client with one bit flipped inside the tag, threshold lengths} x 24 lengths 0..16 KiB x random k-cut segmentation x pacing (0..4.9 s pauses) x prober behaviour {hold, FIN, RST} x registry {empty, registrations on other phantoms only, 1-4 registrations (all transports) on the probed phantom}. " +
			"Each run is executed twice (twin): once with the generated content and once with uniformly random bytes of the same lengths, same schedule, same seeded deadline; the observable reaction must be identical. Runs with registrations on the probed phantom are executed a third time with an empty registry and must again react identically. non-trivial = the probe reached the read loop with at least one registration on the probed phantom; distinct = (content kind, length, registry kind, prober behaviour, cuts, schedule) signatures",
		Assume: []string{"harness test files built with //go:debug asynctimerchan=0", "the prober never holds a valid tag: bit flips are applied inside the tag / mark bytes only"},
	})
}

func c03Scenario(r *sim.Run) {
	p0 := len(r.Tape.Rec)
	a := c03Run(r, r.Tape, 0)
	if r.Failed() || a == nil {
		return
	}
	rec := append([]sim.Draw(nil), r.Tape.Rec[p0:]...)
	r.Reseed(0)
	r.Logf("---- twin run: same tape, random content ----")
	b := c03Run(r, sim.NewReplayTape(rec), 1)
	if r.Failed() || b == nil {
		return
	}
	if a.regOnPhantom {
		// second twin: the same probe of the same phantom, but no registration was ever made
		// ("whether or not registrations exist for that phantom")
		r.Reseed(0)
		r.Logf("---- twin run: same tape, same probe, empty registry ----")
		c := c03Run(r, sim.NewReplayTape(rec), 2)
		if r.Failed() || c == nil {
			return
		}
		// When the prober itself ends the connection, the moment the handler returns is set by the
		// prober and by scheduling (the two variants run different code paths, so their
		// schedules differ); the deadline decides only while the prober holds the connection open.
		if a.sent != c.sent || a.returned != c.returned || (!a.peerEnded && !c.peerEnded && a.retAt != c.retAt) {
			r.Fail("C03/registry-dependent-reaction", "the station reacted differently to the same probe depending on whether registrations exist for the phantom: with registrations{written=%d returned=%v at=%v} without{written=%d returned=%v at=%v}",
				a.sent, a.returned, a.retAt, c.sent, c.returned, c.retAt)
			return
		}
	}
	if a.sent != b.sent || a.returned != b.returned || a.retAt != b.retAt || a.closedAt != b.closedAt {
		r.Fail("C03/content-dependent-reaction", "the station reacted differently to the generated probe and to random bytes of the same lengths and pacing: probe{written=%d returned=%v at=%v closed=%v} random{written=%d returned=%v at=%v closed=%v}",
			a.sent, a.returned, a.retAt, a.closedAt, b.sent, b.returned, b.retAt, b.closedAt)
	}
}

func c03Run(r *sim.Run, tp *sim.Tape, variant int) *c03Obs {
	randomContent := variant == 1
	emptyRegistry := variant == 2
	s := hook.Install(tp)
	defer s.Uninstall()
	s.StayNum, s.StayDen = 1, 2
	o := stDefaultOpts()
	// small subnets so that several registrations share the probed phantom
	o.groups = []stSubnetGroup{{1, true, []string{"192.0.2.4/31", "2001:db8:1::4/127"}}}
	o.workers = 1 + tp.Choose("workers", 3)
	w := newStWorld(r, s, tp, o)
	if w == nil {
		return nil
	}
	defer w.close()
	t0 := r.Elapsed()

	regKind := tp.Choose("registry", 3) // 0 empty, 1 other phantoms only, 2 on the probed phantom
	nclients := 0
	if regKind > 0 {
		nclients = 1 + tp.Choose("nclients", 4)
	}
	v6 := tp.Choose("family", 4) == 3
	contentKind := tp.Choose("content", 6)
	length := c03Lens[tp.Choose("len", len(c03Lens))]
	ncuts := tp.Choose("ncuts", 6)
	var cuts []int
	var pauses []time.Duration
	for i := 0; i < ncuts; i++ {
		cuts = append(cuts, tp.Choose("cut", 16385))
	}
	for i := 0; i <= ncuts; i++ {
		pauses = append(pauses, c03Pauses[tp.Choose("pause", len(c03Pauses))])
	}
	behaviour := tp.Choose("prober", 4) // 0,1 hold; 2 FIN after sending; 3 RST after sending
	lookIdx := tp.Choose("lookalike", len(c03Lookalikes))
	flipBit := tp.Choose("flipbit", 64*8)
	garbage := tp.Bytes("garbage", 16400)
	victim := tp.Choose("victim", 4)
	// GeoIP: the handler's per-country / per-ASN statistics paths only run for known addresses
	// (failing lookups are not generated: the handler returns at once when a lookup fails, which
	// closes the connection early, but C03 quantifies over probe streams and registries, not over
	// faults of the station's own databases; DESIGN.md section 10 lists it as an observation)
	if g := tp.Choose("geoip", 3); g != 0 {
		w.rm.GeoIP = stGeo{g}
	}

	obs := &c03Obs{}
	var pc *stConn
	var probePhantom net.IP
	s.Spawn("director", func() {
		var clients []*stClient
		for i := 0; i < nclients; i++ {
			var tt pb.TransportType
			var params any
			switch tp.Choose("transport", 3) {
			case 0:
				tt = pb.TransportType_Min
			case 1:
				tt = pb.TransportType_Prefix
				params = &prefix.ClientParams{PrefixID: int32(tp.Choose("prefixid", 10)), RandomizeDstPort: tp.Bool("rand-port")}
			default:
				tt = pb.TransportType_Obfs4
			}
			c, err := w.newClient(i, tt, params)
			if err != nil {
				r.Fail("harness/c03-client", "%v", err)
				return
			}
			clients = append(clients, c)
			if !emptyRegistry {
				w.register(c.regMessage(nil))
			}
		}
		w.settle()
		// choose the probed phantom
		switch regKind {
		case 0:
			probePhantom = net.ParseIP("192.0.2.4").To4()
			if v6 {
				probePhantom = net.ParseIP("2001:db8:1::4")
			}
		case 1:
			// a phantom that has no registration: outside the configured subnets
			probePhantom = net.ParseIP("192.0.2.77").To4()
			if v6 {
				probePhantom = net.ParseIP("2001:db8:1::77")
			}
		default:
			probePhantom = clients[victim%len(clients)].phantom(v6)
		}
		// content
		var content []byte
		kindName := ""
		switch contentKind {
		case 0:
			kindName = "random"
			content = garbage[:length]
		case 1:
			kindName = "static-prefix+garbage"
			pre := prefix.DefaultPrefixes[prefix.PrefixID(lookIdx%10)].Bytes()
			content = append(append([]byte(nil), pre...), garbage...)
			if len(content) > length {
				content = content[:length]
			}
		case 2:
			kindName = "look-alike"
			content = append(append([]byte(nil), c03Lookalikes[lookIdx]...), garbage...)
			if len(content) > length {
				content = content[:length]
			}
		case 3, 4:
			kindName = "bit-flipped-genuine-flight"
			if len(clients) == 0 {
				kindName = "random(no client)"
				content = garbage[:length]
				break
			}
			c := clients[victim%len(clients)]
			if c.tt == pb.TransportType_Obfs4 {
				// the obfs4 handshake is interactive and its mark depends on fresh
				// randomness; a near miss is a random representative + padding of handshake size
				kindName = "obfs4-sized-random-handshake"
				n := length
				if n < 200 {
					n = 200
				}
				content = garbage[:n]
				break
			}
			fl, err := c.flight()
			if err != nil {
				r.Fail("harness/c03-flight", "%v", err)
				return
			}
			// flip one bit inside the tag (the last 32 / 64 bytes of the flight)
			tagLen := 32
			if c.tt == pb.TransportType_Prefix {
				tagLen = 64
			}
			fb := flipBit % (tagLen * 8)
			if tagLen == 64 && fb/8 == 31 && fb%8 >= 6 {
				// the two high bits of the Elligator representative are random padding that the
				// station masks off: flipping them leaves the tag valid, so that would not be a
				// connection "that never presents a valid tag"
				fb -= 2
			}
			pos := len(fl) - tagLen + fb/8
			fl[pos] ^= 1 << (fb % 8)
			content = append(fl, garbage[:length]...)
			r.Probe("bitflipped_genuine_flight")
		default:
			// constant fill (zeros, ones, sign bits ...), alone or after a static prefix: degenerate
			// values for every parser and for the tag de-obfuscation (low-order curve points)
			fill := []byte{0x00, 0xff, 0x80, 0x40, 0x7f, 0x01}[flipBit%6]
			kindName = fmt.Sprintf("constant-fill-%02x", fill)
			var pre []byte
			if lookIdx%2 == 1 {
				pre = prefix.DefaultPrefixes[prefix.PrefixID((lookIdx/2)%10)].Bytes()
				kindName += "+static-prefix"
			}
			content = append([]byte(nil), pre...)
			for len(content) < length {
				content = append(content, fill)
			}
			r.Probe("constant_fill_probe")
		}
		if randomContent {
			// twin: uniformly random bytes of the same length (not from the tape)
			x := r.Seed | 1
			rc := make([]byte, len(content))
			for i := range rc {
				x ^= x << 13
				x ^= x >> 7
				x ^= x << 17
				rc[i] = byte(x >> 24)
			}
			content = rc
			kindName = "twin-random"
		}
		r.Logf("C03 probe: registry=%d clients=%d phantom=%s content=%s len=%d cuts=%v pauses=%v prober=%d", regKind, nclients, probePhantom, kindName, len(content), cuts, pauses, behaviour)
		if !randomContent {
			r.Cover(kindName, fmt.Sprint(len(content), regKind, behaviour, cuts, v6))
			if regKind == 2 {
				r.Nontrivial()
			}
		}
		cliAddr := simnet.TCP("198.51.100.213", 50123)
		if v6 {
			cliAddr = simnet.TCP("2001:db8:77::d5", 50123)
		}
		obs.regOnPhantom = regKind == 2 && !emptyRegistry
		// the classification deadline is drawn from the process-global math/rand source when the
		// handler starts: put the source into the same state in every variant of this run
		rand.Seed(int64(r.Seed & 0x7fffffffffff))
		pc = w.open(probePhantom, cliAddr)
		err := stWriteSegments(pc.H, content, cuts, pauses)
		switch {
		case err != nil:
			// the station closed on us while we were still sending (legal after its deadline)
		case behaviour == 2:
			pc.H.CloseWrite()
			obs.peerEnded = true
		case behaviour == 3:
			pc.H.Reset()
			obs.peerEnded = true
			return
		}
		// hold: read until the station ends the connection
		buf := make([]byte, 4096)
		for {
			if _, err := pc.H.Read(buf); err != nil {
				break
			}
		}
		pc.H.Close()
	})

	// At a quiescent point a handler that is neither parked at a scheduling point (about to read,
	// waiting to be scheduled) nor finished is blocked natively, i.e. sleeping or waiting for
	// something other than the peer's data.
	handlerParkedOnRead := func() bool {
		for _, p := range s.Snapshot() {
			if p.Task.Name == pc.task {
				return true
			}
		}
		return false
	}
	st := sim.Drive(r, s, sim.DriveOpt{Horizon: t0 + 40*time.Second, MaxSteps: 20000,
		Each: func() {
			if pc == nil {
				return
			}
			if pc.S.SentN > 0 {
				r.Fail("C03/bytes-written", "the station wrote %d bytes to an unauthenticated peer", pc.S.SentN)
				return
			}
			// keeps reading: while the connection is open and the earliest possible deadline has
			// not passed, unread data must find the handler reading
			if !pc.returned && !pc.S.IsClosed() && !pc.H.IsClosed() && pc.S.Queued() > 0 && r.Elapsed()-pc.start < 5*time.Second {
				if !handlerParkedOnRead() && obs.stopped == "" {
					obs.stopped = fmt.Sprintf("at t=%v with %d unread bytes the handler is not reading (tasks: %v)", r.Elapsed()-pc.start, pc.S.Queued(), s.LiveNames())
				}
			}
		},
		Until: func() bool { return pc != nil && pc.returned && w.handlersIdle() }})
	if st == sim.Failed {
		return nil
	}
	if pc == nil {
		r.Fail("harness/c03-no-probe", "probe connection was never opened (%v)", st)
		return nil
	}
	if obs.stopped != "" {
		if r.Fail("C03/stopped-reading", "%s", obs.stopped) {
			return nil
		}
	}
	obs.sent = pc.S.SentN
	obs.returned = pc.returned
	obs.retAt = pc.retAt - pc.start
	if !pc.S.ClosedAt.IsZero() {
		obs.closedAt = pc.S.ClosedAt.Sub(sim.Epoch) - pc.start
	}
	r.Logf("observation: written=%d returned=%v after=%v closed-after=%v peer-ended=%v", obs.sent, obs.returned, obs.retAt, obs.closedAt, obs.peerEnded)
	if !pc.returned {
		r.Fail("C03/never-closed", "the handler had not returned %v after the connection was opened (%v)", r.Elapsed()-pc.start, st)
		return nil
	}
	if !obs.peerEnded && !pc.H.IsClosed() || (!obs.peerEnded && obs.retAt < 5*time.Second) {
		if obs.retAt < 5*time.Second {
			r.Fail("C03/early-close", "the station ended an unauthenticated connection after %v (< 5 s) although the peer kept its side open", obs.retAt)
			return nil
		}
	}
	if obs.retAt > 10*time.Second {
		r.Fail("C03/late-close", "the station kept an unauthenticated connection for %v (> 10 s classification deadline)", obs.retAt)
		return nil
	}
	if len(w.dials) > 0 {
		r.Fail("C03/dialed-covert", "an unauthenticated connection caused a dial to %q", w.dials[0].addr)
		return nil
	}
	return obs
}

// handlersIdle reports whether every connection handler has returned.
func (w *stWorld) handlersIdle() bool {
	w.mu.Lock()
	defer w.mu.Unlock()
	for _, c := range w.conns {
		if !c.returned {
			return false
		}
	}
	return true
}
