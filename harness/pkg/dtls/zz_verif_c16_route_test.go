package dtls

// C16 scenario (b): routing under concurrency. Many dial/accept pairs on ONE
// shared Listener with distinct, equal and unregistered secrets. Every
// goroutine of the package (acceptLoop, its per-connection goroutines, the
// heartbeat loops) and of the harness (acceptors, clients, cancellers, the
// delivery of each datagram direction) is a task of the simulator's
// scheduler; the listener's mutexes are emulated locks and every acquisition
// is a scheduling point. pion's own goroutines run freely between two
// quiescent points; when one of them enters the listener (certificate
// selection, peer verification) it becomes a task for that lock operation.

import (
	"context"
	"errors"
	"fmt"
	"io"
	"net"
	"os"
	"strings"
	"sync"
	"time"

	"verif/sim"
	"verif/sim/hook"
)

type c16Acceptor struct {
	id       int
	secret   int
	kind     int // 0 cleanup only, 1 cancel any time, 2 cancel once a server flight left for a client of this secret, 3 cancel once the client's second flight arrived, 4 cancel after Accept returned, 5 deadline
	delay    time.Duration
	deadline time.Duration
	ctx      context.Context
	cancel   context.CancelFunc

	started       bool
	returned      bool
	conn          net.Conn
	err           error
	returnedAt    time.Duration
	cancelled     bool // cancel() called by a canceller task (not by cleanup)
	cancelledAt   time.Duration
	cancelClean   bool // at the cancellation no client of this secret had started and the acceptor had not returned
	cleanupCancel bool
	peerPort      int
	tag           string
	tagErr        error
	closed        bool
}

type c16Client struct {
	id     int
	secret int
	delay  time.Duration
	cc, cs *c16PConn

	started    bool
	regAtStart bool // an acceptor for this secret was fully registered when the client started
	returned   bool
	conn       net.Conn
	err        error
	returnedAt time.Duration
	echo       string
	echoErr    error
}

func c16Tag(secret, client int) string { return fmt.Sprintf("C16 s=%04d c=%04d\n", secret, client) }

func c16RouteSecret(base []byte, id int) []byte {
	b := append([]byte(nil), base...)
	return append(b, byte(id), byte(id>>8), 0xc1, 0x6b)
}

func c16ScenarioRouting(r *sim.Run) {
	tp := r.Tape
	s := hook.Install(tp)
	defer s.Uninstall()
	s.LockYield = true
	maxPairs := 8
	if os.Getenv("VERIF_TIER") == "thorough" {
		maxPairs = 32
	}
	if tp.Bool("staybias") {
		s.StayNum, s.StayDen = 2, 3
	}
	n := 2 + tp.Choose("pairs", maxPairs-1)
	base := tp.Bytes("secretbase", 28)
	// the parameters of all maxPairs slots are drawn whatever n is, so that the layout of the tape
	// does not depend on n and the minimiser can drop pairs by lowering one draw
	accs := make([]*c16Acceptor, 0, n)
	clis := make([]*c16Client, 0, n)
	for i := 0; i < maxPairs; i++ {
		a := &c16Acceptor{id: i, secret: i}
		eq, eqid := tp.Choose("asecret", 4) == 3, tp.Choose("asecret-id", maxPairs)
		if eq {
			a.secret = eqid % n // equal to another acceptor's
		}
		a.kind = tp.Choose("akind", 6)
		a.delay = []time.Duration{0, 0, 0, 500 * time.Millisecond, 3 * time.Second}[tp.Choose("adelay", 5)]
		a.deadline = []time.Duration{time.Second, 3 * time.Second, 6 * time.Second, 9 * time.Second}[tp.Choose("adeadline", 4)]
		if i < n {
			accs = append(accs, a)
		}
	}
	for j := 0; j < maxPairs; j++ {
		c := &c16Client{id: j, secret: j}
		k, eqid := tp.Choose("csecret", 5), tp.Choose("csecret-id", maxPairs)
		switch k {
		case 3:
			c.secret = eqid % n // equal to another client's
		case 4:
			c.secret = n + j // nobody waits for it
		}
		c.delay = []time.Duration{0, 0, 100 * time.Millisecond, time.Second, 4 * time.Second, 6 * time.Second}[tp.Choose("cdelay", 6)]
		if j < n {
			clis = append(clis, c)
		}
	}
	r.Probe("mode/routing")
	{
		var sa, sc []string
		for _, a := range accs {
			sa = append(sa, fmt.Sprintf("acc%02d{s=%d kind=%d delay=%v ddl=%v}", a.id, a.secret, a.kind, a.delay, a.deadline))
		}
		for _, c := range clis {
			sc = append(sc, fmt.Sprintf("cli%02d{s=%d delay=%v}", c.id, c.secret, c.delay))
		}
		r.Logf("C16(b) pairs=%d stay=%v %s %s", n, s.StayNum > 0, strings.Join(sa, " "), strings.Join(sc, " "))
	}
	// pion's DTLS/SCTP goroutines run freely between quiescent points from here on
	r.FreeRunning()
	s.Trace = func(line string) {
		if strings.Contains(line, " deliver:") || strings.Contains(line, "sctpconn.go") || strings.Contains(line, "heartbeat.go") {
			return
		}
		r.Logf("step %s", line)
	}

	lst := newC16Listener()
	authFail := 0
	hsFailed := map[int]bool{} // client id -> the listener reported a failed handshake for its address
	var hsMu sync.Mutex
	l, err := NewListener(lst, &Config{LogAuthFail: func(ip *net.IP) {
		hsMu.Lock()
		defer hsMu.Unlock()
		authFail++
		if v4 := ip.To4(); v4 != nil {
			hsFailed[int(v4[3])-10] = true
		}
	}, LogOther: func(*net.IP) {}})
	if err != nil {
		r.Fail("harness/c16-listener", "%v", err)
		return
	}
	registered := func(secret int) bool {
		id, _ := clientHelloRandomFromSeed(c16RouteSecret(base, secret))
		// read at a quiescent point / from a running task while all others are parked
		return l.connMap[id] != nil && l.connToCert[id] != nil
	}
	stopFlag := false
	release := make(chan struct{})
	cleanup := false
	// tasks log only while the scenario is judged: during the cleanup several calls may return at
	// the same simulated instant (equal timeouts) and the order of their lines would be the runtime's
	tlog := func(format string, a ...any) {
		if !cleanup {
			r.Logf(format, a...)
		}
	}
	stopFn := func() bool { return stopFlag }

	for _, c := range clis {
		c := c
		c.cc, c.cs = c16Pipe(r, fmt.Sprintf("p%02d", c.id), &net.UDPAddr{IP: net.IPv4(198, 51, 100, byte(10+c.id)), Port: 40000 + c.id}, &net.UDPAddr{IP: net.IPv4(192, 0, 2, 53), Port: 443})
		c.cc.spawnDelivery(s, stopFn)
		c.cs.spawnDelivery(s, stopFn)
		s.Spawn(fmt.Sprintf("cli%02d", c.id), func() {
			if c.delay > 0 {
				dl := sim.Epoch.Add(c.delay)
				hook.Park(&hook.Op{Kind: "wait", Site: "client-arrival", Enabled: func() bool { return cleanup || !time.Now().Before(dl) }, Deadline: func() time.Time { return dl }})
			}
			if cleanup {
				return
			}
			c.started = true
			c.regAtStart = registered(c.secret)
			tlog("cli%02d dials (secret %d; acceptor registered=%v)", c.id, c.secret, c.regAtStart)
			lst.offer(c.cs)
			ctx, cancel := context.WithTimeout(context.Background(), 60*time.Second)
			defer cancel()
			conn, err := ClientWithContext(ctx, c.cc, &Config{PSK: c16RouteSecret(base, c.secret), SCTP: ClientOpen})
			c.returned, c.conn, c.err, c.returnedAt = true, conn, err, r.Elapsed()
			tlog("cli%02d dial returned ok=%v", c.id, err == nil)
			if err != nil {
				return
			}
			if _, err := conn.Write([]byte(c16Tag(c.secret, c.id))); err != nil {
				c.echoErr = err
			} else {
				buf := make([]byte, 5+len(c16Tag(0, 0)))
				_, c.echoErr = io.ReadFull(conn, buf)
				c.echo = string(buf)
				tlog("cli%02d echo received ok=%v", c.id, c.echoErr == nil)
			}
			<-release
			conn.Close()
		})
	}
	for _, a := range accs {
		a := a
		switch a.kind {
		case 5:
			// the deadline starts when the acceptor starts
		default:
			a.ctx, a.cancel = context.WithCancel(context.Background())
		}
		s.Spawn(fmt.Sprintf("acc%02d", a.id), func() {
			if a.delay > 0 {
				dl := sim.Epoch.Add(a.delay)
				hook.Park(&hook.Op{Kind: "wait", Site: "acceptor-start", Enabled: func() bool { return cleanup || !time.Now().Before(dl) }, Deadline: func() time.Time { return dl }})
			}
			if cleanup {
				a.returned = true
				a.err = context.Canceled
				return
			}
			if a.kind == 5 {
				a.ctx, a.cancel = context.WithTimeout(context.Background(), a.deadline)
			}
			a.started = true
			tlog("acc%02d accepts (secret %d)", a.id, a.secret)
			conn, err := l.AcceptWithContext(a.ctx, &Config{PSK: c16RouteSecret(base, a.secret), SCTP: ServerAccept})
			a.conn, a.err, a.returnedAt = conn, err, r.Elapsed()
			if err == nil {
				if ua, ok := conn.RemoteAddr().(*net.UDPAddr); ok {
					a.peerPort = ua.Port
				}
			}
			a.returned = true
			tlog("acc%02d accept returned ok=%v err=%s peer=%d", a.id, err == nil, c16AcceptErr(err), a.peerPort)
			if err != nil {
				return
			}
			buf := make([]byte, len(c16Tag(0, 0)))
			_, a.tagErr = io.ReadFull(conn, buf)
			a.tag = string(buf)
			if a.tagErr == nil {
				tlog("acc%02d read tag %q", a.id, strings.TrimSpace(a.tag))
				conn.Write([]byte("ECHO " + a.tag))
			}
			<-release
			conn.Close()
			a.closed = true
		})
		if a.kind >= 1 && a.kind <= 4 {
			s.Spawn(fmt.Sprintf("cancel%02d", a.id), func() {
				hook.Park(&hook.Op{Kind: "wait", Site: "cancel-point", Enabled: func() bool {
					if cleanup {
						return true
					}
					if !a.started {
						return false
					}
					switch a.kind {
					case 1:
						return true
					case 2, 3:
						for _, c := range clis {
							if c.secret != a.secret || !c.started {
								continue
							}
							_, _, w, d := c.cs.status()
							if (a.kind == 2 && w >= 1) || (a.kind == 3 && d >= 2) {
								return true
							}
						}
						return false
					case 4:
						return a.returned
					}
					return false
				}})
				if cleanup {
					return
				}
				a.cancelled, a.cancelledAt = true, r.Elapsed()
				a.cancelClean = !a.returned
				for _, c := range clis {
					if c.secret == a.secret && c.started {
						a.cancelClean = false
					}
				}
				r.Logf("cancel%02d cancels the context of acc%02d (accept returned=%v, no client of its secret yet=%v)", a.id, a.id, a.returned, a.cancelClean)
				if a.returned {
					r.Probe("routing/cancel-after-return")
					r.Fault("accept-cancelled/after-return")
				} else if a.cancelClean {
					r.Probe("routing/cancel-before-hello")
					r.Fault("accept-cancelled/before-hello")
				} else {
					r.Probe("routing/cancel-during-handshake")
					r.Fault("accept-cancelled/client-in-flight")
				}
				a.cancel()
			})
		}
	}

	// listener-internal tasks: the acceptLoop task and its children
	listenerLive := func() int {
		k := 0
		for _, nme := range s.LiveNames() {
			if strings.HasPrefix(nme, "listener.go:") && strings.Contains(strings.SplitN(nme, " ", 2)[0], "/") {
				k++
			}
		}
		return k
	}
	owned := func(port int) *c16Acceptor {
		for _, a := range accs {
			if a.returned && a.err == nil && a.peerPort == port {
				return a
			}
		}
		return nil
	}
	// invariant at every quiescent point: a returned connection carries the acceptor's own secret
	each := func() {
		for _, a := range accs {
			if a.returned && a.err == nil && a.tagErr == nil && a.tag != "" {
				var sid, cid int
				if _, err := fmt.Sscanf(a.tag, "C16 s=%04d c=%04d\n", &sid, &cid); err != nil || sid != a.secret {
					r.Fail("C16/listener/cross-delivery", "acc%02d waited for secret %d but its connection carries the message %q (peer port %d)", a.id, a.secret, strings.TrimSpace(a.tag), a.peerPort)
					return
				}
				if cid != a.peerPort-40000 {
					r.Fail("C16/listener/cross-delivery", "acc%02d: message %q arrived on the connection of client %d", a.id, strings.TrimSpace(a.tag), a.peerPort-40000)
					return
				}
			}
		}
		for _, c := range clis {
			if c.returned && c.err == nil && c.echoErr == nil && c.echo != "" && c.echo != "ECHO "+c16Tag(c.secret, c.id) {
				r.Fail("C16/listener/cross-delivery", "cli%02d (secret %d) received the echo %q on its connection", c.id, c.secret, strings.TrimSpace(c.echo))
				return
			}
		}
	}
	const t1 = 16 * time.Second
	st := sim.Drive(r, s, sim.DriveOpt{Horizon: t1, MaxSteps: 200000, Each: each})
	r.CoverU(s.SigHash)
	if st == sim.Failed {
		c16RouteTeardown(r, s, l, accs, clis, &stopFlag, &cleanup, release)
		return
	}
	if st == sim.Deadlock {
		r.Fail("C16/listener/deadlock", "listener blocked: %s", s.WaitForGraph())
		c16RouteTeardown(r, s, l, accs, clis, &stopFlag, &cleanup, release)
		return
	}
	if st != sim.Horizon {
		r.Fail("harness/c16-routing", "main phase ended with %v after %d steps: %v", st, s.Steps, s.LiveNames())
		c16RouteTeardown(r, s, l, accs, clis, &stopFlag, &cleanup, release)
		return
	}
	r.Nontrivial()

	// ---- judgement at t1: every client arrived at least 10 s ago, the listener's own 5 s limit has passed
	nAccepted, nOrphan := 0, 0
	var summary []string
	for _, a := range accs {
		switch {
		case !a.returned:
			summary = append(summary, fmt.Sprintf("acc%02d:waiting", a.id))
		case a.err == nil:
			nAccepted++
			summary = append(summary, fmt.Sprintf("acc%02d:conn(cli%02d)", a.id, a.peerPort-40000))
		default:
			summary = append(summary, fmt.Sprintf("acc%02d:%s", a.id, c16AcceptErr(a.err)))
		}
	}
	for _, c := range clis {
		summary = append(summary, fmt.Sprintf("cli%02d:ok=%v", c.id, c.returned && c.err == nil))
	}
	r.Logf("t1: %s; listener tasks live=%d connMap=%d connToCert=%d authFail=%d", strings.Join(summary, " "), listenerLive(), len(l.connMap), len(l.connToCert), authFail)
	r.Cover(summary...)
	if nAccepted > 0 {
		r.Probe("routing/accepted")
	}
	bySecretA, bySecretC := map[int][]*c16Acceptor{}, map[int][]*c16Client{}
	for _, a := range accs {
		bySecretA[a.secret] = append(bySecretA[a.secret], a)
	}
	for _, c := range clis {
		bySecretC[c.secret] = append(bySecretC[c.secret], c)
	}
	for _, a := range accs {
		if len(bySecretA[a.secret]) > 1 {
			r.Probe("routing/equal-secrets-acceptors")
			break
		}
	}
	for _, c := range clis {
		if len(bySecretC[c.secret]) > 1 && len(bySecretA[c.secret]) > 0 {
			r.Probe("routing/equal-secrets-clients")
			break
		}
	}
	unreg := false
	for _, c := range clis {
		if len(bySecretA[c.secret]) == 0 {
			unreg = true
			if c.returned && c.err == nil {
				r.Fail("C16/listener/unregistered-secret-connected", "cli%02d used secret %d, which no acceptor ever waited for, and its dial succeeded", c.id, c.secret)
				break
			}
		}
	}
	if unreg {
		r.Probe("routing/unregistered-secret")
	}
	// cancelled before any client of the secret arrived: must not return a connection
	for _, a := range accs {
		if a.cancelled && a.cancelClean {
			if !a.returned {
				r.Fail("C16/listener/cancelled-accept-still-waiting", "acc%02d: context cancelled at t=%v, AcceptWithContext has not returned at t=%v", a.id, a.cancelledAt, r.Elapsed())
			} else if a.err == nil {
				r.Fail("C16/listener/cancelled-accept-returned-connection", "acc%02d: context cancelled at t=%v before any client of its secret arrived, yet it returned a connection (client %d)", a.id, a.cancelledAt, a.peerPort-40000)
			}
		}
		if a.cancelled && !a.returned && a.started {
			// cancelled while waiting for the DTLS connection: must have returned; cancelled during the
			// SCTP set-up it is allowed to go on
			id, _ := clientHelloRandomFromSeed(c16RouteSecret(base, a.secret))
			if l.connMap[id] != nil && len(bySecretA[a.secret]) == 1 {
				r.Fail("C16/listener/cancelled-accept-still-waiting", "acc%02d: context cancelled at t=%v, at t=%v it is still registered and has not returned", a.id, a.cancelledAt, r.Elapsed())
			}
		}
	}
	// clean pairs must be connected to each other
	for _, a := range accs { // (in acceptor order: the first failure found is the one reported)
		sec := a.secret
		// acceptors that the listener REFUSED because the secret was already registered never
		// waited for a connection; the one that was registered is still "the caller waiting for
		// that secret" and must get the session
		var as []*c16Acceptor
		for _, x := range bySecretA[sec] {
			if x.returned && x.err != nil && strings.Contains(x.err.Error(), "already registered") {
				if x == a {
					as = nil
					break
				}
				r.Probe("routing/duplicate-accept-refused")
				continue
			}
			as = append(as, x)
		}
		cs := bySecretC[sec]
		if len(as) != 1 || as[0] != a || len(cs) != 1 {
			continue
		}
		c := cs[0]
		if !c.started || !c.regAtStart || a.cancelled || a.kind == 5 {
			continue
		}
		r.Probe("routing/clean-pair")
		if !(a.returned && a.err == nil && a.peerPort == 40000+c.id && c.returned && c.err == nil) {
			r.Fail("C16/listener/not-delivered", "acc%02d was registered for secret %d when cli%02d (the only client with that secret) dialled and was never cancelled, but: accept returned=%v err=%s peer=%d; dial returned=%v err=%s", a.id, sec, c.id, a.returned, c16AcceptErr(a.err), a.peerPort, c.returned, c16ErrText(c.err))
		} else if a.tagErr != nil || c.echoErr != nil || c.echo != "ECHO "+c16Tag(c.secret, c.id) {
			r.Fail("C16/listener/echo-failed", "acc%02d/cli%02d are connected but the tagged message did not make the round trip: tag=%q tagErr=%v echo=%q echoErr=%v", a.id, c.id, a.tag, a.tagErr, c.echo, c.echoErr)
		}
	}
	if r.Failed() {
		c16RouteTeardown(r, s, l, accs, clis, &stopFlag, &cleanup, release)
		return
	}
	// sessions whose DTLS handshake completed on the listener's side, which no acceptor owns and
	// which the listener did not close: live pion goroutines reading a connection nobody will use
	if listenerLive() == 0 {
		for _, c := range clis {
			closed, _, _, _ := c.cs.status()
			if !c.started || closed || hsFailed[c.id] || owned(40000+c.id) != nil {
				continue
			}
			pending, afterCancel := false, false
			for _, a := range bySecretA[c.secret] {
				if a.started && !a.returned {
					pending = true // may hold the connection and still be setting up SCTP
				}
				if a.returned && a.err != nil && (a.cancelled || a.kind == 5) {
					afterCancel = true
				}
			}
			if pending && !registered(c.secret) {
				r.Probe("routing/unowned-session-with-pending-accept")
				continue
			}
			nOrphan++
			r.Logf("orphan: the listener completed the DTLS handshake with cli%02d (secret %d) and its goroutine has ended, but the connection was handed to no acceptor and was not closed", c.id, c.secret)
			stop := false
			switch {
			case afterCancel:
				r.Probe("routing/orphan-after-cancel")
				stop = r.Fail("C16/listener/orphaned-session-after-cancel", "cli%02d completed the DTLS handshake for secret %d, an accept for that secret was cancelled / timed out and returned an error, and the established server-side connection was neither handed to anyone nor closed: its goroutines and its entry in the UDP listener stay for ever (the client hangs in the SCTP set-up)", c.id, c.secret)
			case pending:
				// no accept for the secret was cancelled; one is still registered and waits for a
				// connection that the listener has already dropped
				r.Probe("routing/session-dropped-while-acceptor-waits")
				stop = r.Fail("C16/listener/session-dropped-while-acceptor-waits", "cli%02d completed the DTLS handshake for secret %d (the acceptor's certificate registration was in place) before the acceptor had registered its channel: the listener dropped the established connection without closing it, the acceptor waits for ever and the client hangs in the SCTP set-up", c.id, c.secret)
			default:
				r.Probe("routing/orphan-no-waiter")
				stop = r.Fail("C16/listener/orphaned-session-no-waiter", "cli%02d completed the DTLS handshake for secret %d (an acceptor's certificate registration was in place when its hello arrived), but when the connection was ready no channel was registered for the secret (the acceptor had not registered its channel yet, or had already left with another client's connection): the established server-side connection was neither handed to anyone nor closed; its goroutines stay for ever", c.id, c.secret)
			}
			if stop {
				c16RouteTeardown(r, s, l, accs, clis, &stopFlag, &cleanup, release)
				return
			}
		}
	} else {
		r.Probe("routing/listener-tasks-still-live-at-t1")
	}

	// ---- cleanup: cancel what is still waiting, close everything, then the maps must be empty
	c16RouteTeardown(r, s, l, accs, clis, &stopFlag, &cleanup, release)
}

func c16AcceptErr(err error) string {
	switch {
	case err == nil:
		return "<nil>"
	case errors.Is(err, context.Canceled):
		return "canceled"
	case errors.Is(err, context.DeadlineExceeded):
		return "deadline"
	case strings.Contains(err.Error(), "already registered"):
		return "already-registered"
	}
	return "other"
}

// c16RouteTeardown cancels every acceptor, closes every connection, checks that nothing stays
// registered and that every call returns, and ends the run without leaving goroutines behind.
func c16RouteTeardown(r *sim.Run, s *hook.Sched, l *Listener, accs []*c16Acceptor, clis []*c16Client, stop, cleanup *bool, release chan struct{}) {
	failed := r.Failed()
	*cleanup = true
	for _, a := range accs {
		if a.cancel != nil {
			if a.started && !a.returned {
				a.cleanupCancel = true
			}
			a.cancel()
		}
	}
	close(release)
	acceptsDone := func() bool {
		for _, a := range accs {
			if !a.returned {
				return false
			}
		}
		return true
	}
	// first every accept must return (cancellation alone must be enough)
	sim.Drive(r, s, sim.DriveOpt{Horizon: r.Elapsed() + 20*time.Second, MaxSteps: 100000, Until: acceptsDone})
	if !failed && !r.Failed() {
		if !acceptsDone() {
			var w []string
			for _, a := range accs {
				if !a.returned {
					w = append(w, fmt.Sprintf("acc%02d", a.id))
				}
			}
			r.Probe("routing/accept-stuck-after-cancel")
			r.Logf("accepts that did not return within 20 s of their cancellation: %v (SCTP set-up has no cancellation; not judged)", w)
		} else if len(l.connMap) != 0 || len(l.connToCert) != 0 {
			r.Fail("C16/listener/registration-leaked", "every AcceptWithContext call has returned, but the listener still holds %d channel registration(s) and %d certificate registration(s)", len(l.connMap), len(l.connToCert))
		} else {
			r.Probe("routing/maps-empty-after-all-returned")
		}
	}
	// now the world goes away: clients and the raw connections close
	for _, c := range clis {
		c := c
		s.Spawn(fmt.Sprintf("zclose%02d", c.id), func() {
			c.cc.Close()
			c.cs.Close()
		})
	}
	harnessDone := func() bool {
		for _, nme := range s.LiveNames() {
			if strings.HasPrefix(nme, "acc") || strings.HasPrefix(nme, "cli") || strings.HasPrefix(nme, "zclose") || strings.HasPrefix(nme, "cancel") {
				return false
			}
		}
		return true
	}
	sim.Drive(r, s, sim.DriveOpt{Horizon: r.Elapsed() + 90*time.Second, MaxSteps: 100000, Until: harnessDone})
	if !failed && !r.Failed() && !harnessDone() {
		r.Fail("C16/listener/call-never-returns", "after cancelling every context and closing every connection these calls are still blocked: %v", s.LiveNames())
	}
	*stop = true
	l.Close()
	// let the listener's goroutines, the delivery tasks and pion's timers run out
	sim.Drive(r, s, sim.DriveOpt{Horizon: r.Elapsed() + 3*time.Minute, MaxSteps: 100000})
	s.Abort()
	time.Sleep(2 * time.Minute)
}
