package dtls

// C16 — DTLS sessions: same secret on both ends, right acceptor, faithful byte
// stream, bounded buffering, heartbeat timeout.
//
// Four scenarios, selected by the first draw of the tape ("mode"); each is its
// own population (probe mode/<name> counts the runs of each):
//
//	0 stream    (c) scripted msgStream below the real hbConn/hbClient + SCTPConn      zz_verif_c16_stream_test.go
//	1 flow      (d) write flow control, heartbeat watchdog, heartbeat sender          zz_verif_c16_flow_test.go
//	2 routing   (b) many dial/accept pairs on one Listener under the lock scheduler   zz_verif_c16_sess_test.go
//	3 handshake (a) one dial/accept pair over a faulty datagram network, real pion    zz_verif_c16_sess_test.go
//
// VERIF_C16_ONLY=stream|flow|routing|handshake makes the runs of the other
// scenarios return at once (development aid; the systematic part belongs to
// "stream" and is switched off for the other three).

import (
	"os"
	"testing"

	"verif/sim"
)

var c16Modes = []string{"stream", "flow", "routing", "handshake"}

func c16Only() int {
	o := os.Getenv("VERIF_C16_ONLY")
	for i, m := range c16Modes {
		if m == o {
			return i
		}
	}
	return -1
}

func TestVerifC16(t *testing.T) {
	only := c16Only()
	cfg := sim.Config{
		Prop:     "C16",
		Scenario: c16Scenario,
		Runs:     map[string]int{"quick": 8000, "thorough": 200000},
		LeakSig:  "C16/goroutine-leak",
		Real: []string{"pkg/dtls.SCTPConn (Read/Write/Close, flow control)", "pkg/dtls.hbConn (recvLoop, hbLoop, Read)", "pkg/dtls.hbClient (sendLoop)",
			"pkg/dtls.Listener (NewListener, acceptLoop, AcceptWithContext, registration maps)", "pkg/dtls.ClientWithContext / ServerWithContext / certsFromSeed / clientHelloRandomFromSeed / verifyCert",
			"pion/dtls (mingyech fork) handshakes and record layer", "pion/sctp associations and streams (scenarios a, b)"},
		Stub: []string{"UDP sockets and the pion udp listener (in-memory datagram pipes with loss / duplication / delay; a net.Listener whose Accept blocks until a connection is offered)",
			"the SCTP stream below hbConn/SCTPConn in scenarios c and d (scripted msgStream with pion's buffered-amount callback rule)", "peers (scripted clients / acceptors)",
			"goroutine scheduling of the package's own goroutines and its mutexes in scenario b (simulator; pion's internal goroutines run freely between quiescent points)"},
		Rule: "systematic (scenario c): every message script of <= M messages over {0,1,2,max-1,max bytes, heartbeat} x every cyclic read-size sequence of <= R reads over {1,2,max-1,max,max+1} x every error variant " +
			"(none / bare error at each boundary / error together with each message / failing SetReadDeadline before each read) x {reader keeps up, burst before first read} x {server stack, client stack}; M,R = 3,3 quick, 4,4 thorough (thorough: 16 consecutive cases per kernel run). " +
			"random: scenario chosen uniformly per run. non-trivial = the scenario reached its decision point (script fully played / handshake outcome known / all accepts returned / flow script finished); " +
			"distinct = distinct (scenario, parameters, schedule signature, outcome) tuples",
		Assume: []string{"harness test files built with //go:debug asynctimerchan=0 (required by testing/synctest)",
			"lock operations and go statements of pkg/dtls are redirected to the simulator by a build-time source overlay generated from the current working tree",
			"data messages never equal the heartbeat payload (in-band heartbeats make such a message indistinguishable by design)",
			"scenario c/d: the scripted stream follows pion/sctp's Stream contract (one message per Read, io.EOF after Close, OnBufferedAmountLow fires on the downward crossing of the threshold)",
			"watchdog clauses assume an application that keeps reading (hbConn stops looking at heartbeats while its 64-message receive queue is full)",
			"pion's internal goroutines are not instrumented; in scenarios a/b the event log holds simulator-level events only"},
	}
	if only <= 0 {
		cfg.EnumN = c16EnumCount
		cfg.EnumAt = c16EnumAt
		cfg.EnumLabels = func(tier string, i int) []string {
			v := c16EnumAt(tier, i)
			if tier == "thorough" {
				return []string{"mode", "enumerated", "batch"}
			}
			l := []string{"mode", "enumerated", "stack", "nmsg"}
			if len(v) < 4 {
				return l[:len(v)]
			}
			for k := 0; k < v[3]; k++ {
				l = append(l, "kind")
			}
			l = append(l, "nreads")
			for k := 0; k <= v[4+v[3]]; k++ {
				l = append(l, "read")
			}
			return append(l, "errv", "pace")
		}
	}
	sim.Main(t, cfg)
}

func c16Scenario(r *sim.Run) {
	mode := r.Tape.Choose("mode", len(c16Modes))
	if o := c16Only(); o >= 0 && mode != o {
		// development aid: runs of the other scenarios are skipped (not redirected), so that a tape
		// recorded with the restriction replays identically without it
		return
	}
	switch mode {
	case 0:
		c16ScenarioStream(r)
	case 1:
		c16ScenarioFlow(r)
	case 2:
		c16ScenarioRouting(r)
	case 3:
		c16ScenarioHandshake(r)
	}
}
