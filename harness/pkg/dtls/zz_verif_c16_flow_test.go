package dtls

// C16 scenario (d): write flow control of the real SCTPConn against a scripted
// stream whose buffered amount drains at a tape-chosen rate, and the heartbeat
// watchdog (real hbClient -> jittery link -> real hbConn).

import (
	"fmt"
	"sync"
	"sync/atomic"
	"testing/synctest"
	"time"

	"verif/sim"
	"verif/sim/hook"
)

func c16ScenarioFlow(r *sim.Run) {
	switch r.Tape.Choose("sub", 3) {
	case 0:
		c16ScenarioWrite(r)
	case 1:
		c16ScenarioWatchdog(r)
	default:
		c16ScenarioWriters(r)
	}
}

var c16WriteSizes = []int{1, 1000, 16 << 10, 64 << 10, 100 << 10, 128 << 10, 0, 128<<10 + 1}
var c16Drains = []uint64{0, 1 << 10, 64 << 10, 128 << 10, 256 << 10, 1 << 30}

// c16ScenarioWrite: "a writer that outpaces the network is held back so that buffered data stays
// bounded" and the blocked writer is released when the stream drains or the connection closes.
func c16ScenarioWrite(r *sim.Run) {
	tp := r.Tape
	stack := tp.Choose("stack", 2)
	nw := 4 + tp.Choose("nwrites", 60)
	type wr struct {
		n     int
		pause time.Duration
	}
	plan := make([]wr, nw)
	for i := range plan {
		// biased to large writes: the writer must outpace the network
		k := tp.Choose("wsize", len(c16WriteSizes)+4)
		if k >= len(c16WriteSizes) {
			k = 3 + k%3
		}
		plan[i].n = c16WriteSizes[k]
		plan[i].pause = []time.Duration{0, 0, 0, 10 * time.Millisecond, time.Second}[tp.Choose("wpause", 5)]
	}
	closeAt := -1 // drain step at which the application closes the connection
	if tp.Choose("closes", 3) == 2 {
		closeAt = tp.Choose("closeat", 40)
	}
	r.Probe("mode/flow-write")
	r.Logf("C16(d/write) stack=%s writes=%d closeAt=%d", []string{"server(hbConn)", "client(hbClient)"}[stack], nw, closeAt)

	hbp := defaultConfig.Heartbeat
	st := newC16Stream(r, "s", hbp)
	if k := tp.Choose("drain-races-check", 12); k > 0 {
		st.raceOn, st.raceAt = true, k-1
	}
	var mid msgStream
	if stack == 0 {
		h, err := heartbeatServer(st, &heartbeatConfig{Interval: 1000 * time.Hour}, 65536)
		if err != nil {
			r.Fail("harness/c16-hbserver", "%v", err)
			return
		}
		mid = h
	} else {
		m, err := heartbeatClient(st, &heartbeatConfig{Interval: 1000 * time.Hour})
		if err != nil {
			r.Fail("harness/c16-hbclient", "%v", err)
			return
		}
		mid = m
	}
	dummy := &c16Dummy{}
	conn := newSCTPConn(mid, dummy, 65536)
	// let the heartbeat goroutines reach their first blocking point (the client sends its first
	// heartbeat at once) before the writer starts: otherwise the two write to the stream at the same
	// simulated instant in an order only the Go scheduler decides
	synctest.Wait()
	closed := false
	defer func() {
		if !closed {
			conn.Close()
		}
		synctest.Wait()
	}()

	var mu sync.Mutex
	state := "idle" // idle | in-write | done
	pending := 0
	idx := 0
	var largest uint64
	var wErr error
	var acceptedData uint64
	go func() {
		for i, w := range plan {
			if w.pause > 0 {
				time.Sleep(w.pause)
			}
			mu.Lock()
			state, pending, idx = "in-write", w.n, i
			mu.Unlock()
			b := make([]byte, w.n)
			n, err := conn.Write(b)
			mu.Lock()
			state = "idle"
			if err == nil && uint64(n) > largest {
				largest = uint64(n)
			}
			acceptedData += uint64(n)
			if err != nil && w.n > 0 && w.n <= 128<<10 {
				// an error for a write of permitted size: only legitimate after Close
				wErr = err
				state = "done"
				mu.Unlock()
				return
			}
			mu.Unlock()
		}
		mu.Lock()
		state = "done"
		mu.Unlock()
	}()
	get := func() (string, int, int, uint64, error) {
		mu.Lock()
		defer mu.Unlock()
		return state, pending, idx, largest, wErr
	}
	bound := func() uint64 {
		_, _, _, lg, _ := get()
		// the property: buffered data stays bounded. The bound is stated relative to the package's own
		// flow-control limit: limit + 2 x the largest write the connection accepted.
		return writeMaxBufferedAmount + 2*lg
	}
	check := func(where string) bool {
		st.mu.Lock()
		mb, b := st.maxBuffered, st.buffered
		st.mu.Unlock()
		if mb > bound() {
			return !r.Fail("C16/flow/buffer-unbounded", "%s: %d bytes buffered in the stream (now %d); flow-control limit %d, largest accepted write %d, bound %d", where, mb, b, writeMaxBufferedAmount, bound()-writeMaxBufferedAmount, bound())
		}
		s, p, i, _, _ := get()
		if s == "in-write" && b == 0 && !closed {
			return !r.Fail("C16/flow/lost-wakeup", "%s: the stream is fully drained (0 bytes buffered) but write #%d of %d bytes is still blocked", where, i, p)
		}
		return true
	}
	synctest.Wait()
	blockedSeen, overshoot := false, false
	steps := 0
	for ; steps < 1000; steps++ {
		sim.Tick()
		if !check(fmt.Sprintf("step %d", steps)) {
			return
		}
		s, _, _, _, _ := get()
		if s == "done" {
			break
		}
		if s == "in-write" {
			if !blockedSeen {
				r.Probe("flow/writer-held-back")
				st.mu.Lock()
				r.Logf("writer held back at write #%d with %d bytes buffered", idx, st.buffered)
				st.mu.Unlock()
			}
			blockedSeen = true
		}
		if steps == closeAt {
			r.Logf("application closes the connection (writer state %s)", s)
			if s == "in-write" {
				r.Probe("flow/close-while-writer-blocked")
			}
			closed = true
			conn.Close()
			synctest.Wait()
			if s2, p, i, _, _ := get(); s2 == "in-write" {
				r.Fail("C16/flow/writer-stuck-after-close", "the connection was closed but write #%d of %d bytes is still blocked", i, p)
				return
			}
			continue
		}
		var d uint64
		var dt time.Duration
		if steps >= 200 {
			// liveness phase: the network drains everything, one second per step (the writer's own
			// pauses add up to about a minute at most)
			d, dt = 1<<30, time.Second
		} else {
			d = c16Drains[tp.Choose("drain", len(c16Drains))]
			dt = []time.Duration{time.Millisecond, 10 * time.Millisecond, 300 * time.Millisecond}[tp.Choose("dt", 3)]
		}
		if d > 0 {
			st.Drain(d)
		}
		time.Sleep(dt)
		synctest.Wait()
	}
	sim.Tick()
	r.Nontrivial()
	s, p, i, lg, werr := get()
	st.mu.Lock()
	mb := st.maxBuffered
	acc := st.accepted
	st.mu.Unlock()
	if mb > writeMaxBufferedAmount {
		overshoot = true
		r.Probe("flow/overshoot-above-limit")
	}
	r.Logf("writer %s after %d steps: accepted %d bytes, max buffered %d, largest write %d, blocked seen=%v overshoot=%v", s, steps, acc, mb, lg, blockedSeen, overshoot)
	r.Cover("flow-write", fmt.Sprint(stack, nw, closeAt >= 0, blockedSeen, overshoot, s))
	if s != "done" {
		r.Fail("C16/flow/writer-starved", "after %d drain steps (the last 800 draining everything, one simulated second apart) the writer has not finished: write #%d of %d bytes, state %s", steps, i, p, s)
		return
	}
	if werr != nil && !closed {
		r.Fail("C16/flow/write-error", "a write of permitted size failed on an open connection: %v", werr)
		return
	}
	if !check("end") {
		return
	}
}

// ---------------------------------------------------------------------------
// watchdog

// c16ScenarioWatchdog: real hbClient (its sendLoop) on one scripted stream, a link that forwards
// every message in order after a tape-chosen delay to a second scripted stream below the real
// hbConn + SCTPConn with an application that keeps reading. From a tape-chosen instant the link
// loses heartbeats (or everything).
func c16ScenarioWatchdog(r *sim.Run) {
	tp := r.Tape
	isKind := tp.Choose("interval", 3)
	var scfg *heartbeatConfig
	var is time.Duration
	switch isKind {
	case 0:
		is = defaultConfig.Interval
		scfg = nil
	case 1:
		is = 3 * time.Second
		scfg = &heartbeatConfig{Interval: is}
	case 2:
		is = time.Second
		scfg = &heartbeatConfig{Interval: is}
	}
	ic := is
	if tp.Bool("fastclient") {
		ic = is / 4 // production uses an even faster client: 10 s against the server's 30 s
	}
	// delivery jitter per message, in 1/16 of the largest jitter J = interval/4
	jmax := is / 4
	var jit []time.Duration
	for i := 0; i < 8; i++ {
		jit = append(jit, time.Duration(tp.Choose("jitter", 17))*jmax/16)
	}
	// phase of the client's heartbeat period relative to the server's watchdog ticks
	phase := time.Duration(tp.Choose("phase", 16)) * is / 32
	// loss: 0 = none (the client is closed by the application at the end), 1 = heartbeats lost from the cut on (data still flows), 2 = everything lost
	loss := tp.Choose("loss", 3)
	cutAfter := time.Duration(1+tp.Choose("cut", 80)) * is / 8 // instant of the cut
	if loss == 0 {
		cutAfter = 10 * is // instant at which the client application closes
	}
	ndata := tp.Choose("ndata", 6)
	type dmsg struct {
		at time.Duration
		n  int
	}
	var data []dmsg
	for i := 0; i < ndata; i++ {
		data = append(data, dmsg{time.Duration(tp.Choose("dat", 120)) * is / 8, 1 + tp.Choose("dlen", 100)})
	}
	// steady application data (one message every interval/2, also after the cut when only heartbeats
	// are lost): the stream's read deadline then never expires and only the heartbeat count can
	// close the connection
	steady := tp.Choose("steady", 3) == 2
	if steady {
		data = data[:0]
		for k := 0; k < 40; k++ {
			data = append(data, dmsg{time.Duration(k) * is / 2, 1 + k%7})
		}
		r.Probe("watchdog/steady-data")
	}
	r.Probe("mode/flow-watchdog")
	r.Logf("C16(d/watchdog) server interval=%v client interval=%v phase=%v loss=%d cut=%v jitter=%v steady=%v data=%v", is, ic, phase, loss, cutAfter, jit, steady, data)
	r.Cover("watchdog", fmt.Sprint(isKind, ic, phase, loss, cutAfter, jit, data))

	hbp := defaultConfig.Heartbeat
	sS := newC16Stream(r, "server", hbp)
	sC := newC16Stream(r, "client", hbp)

	// the link (per-message delay; FIFO among heartbeats and FIFO among data messages). Heartbeats and
	// data are written by different goroutines, possibly at the same simulated instant: the delay
	// of a message depends only on its own kind and sequence number, never on which writer got to
	// the link first, and data arrivals are shifted by half a microsecond so that they never tie
	// with a heartbeat arrival (every other quantity is a whole number of microseconds).
	var lmu sync.Mutex
	var lastDeliverK [2]time.Time
	var nsentK [2]int
	var lastHBArrival time.Duration = -1
	nHBdelivered, nHBlost := 0, 0
	type arrival struct {
		at time.Duration
		n  int
	}
	var dataArr []arrival
	start := time.Now()
	forward := func(b []byte, hb bool, off time.Duration) {
		lmu.Lock()
		kind := 0
		if !hb {
			kind = 1
			off += 500 * time.Nanosecond
		}
		k := nsentK[kind] + 3*kind
		nsentK[kind]++
		now := time.Now()
		el := now.Sub(start)
		if loss != 0 && el >= cutAfter && (hb || loss == 2) {
			if hb {
				nHBlost++
			}
			lmu.Unlock()
			return
		}
		at := now.Add(jit[k%len(jit)] + off)
		if !at.After(lastDeliverK[kind]) {
			at = lastDeliverK[kind].Add(time.Microsecond)
		}
		lastDeliverK[kind] = at
		lmu.Unlock()
		time.AfterFunc(at.Sub(now), func() {
			lmu.Lock()
			if hb {
				nHBdelivered++
				lastHBArrival = time.Since(start)
			} else {
				dataArr = append(dataArr, arrival{time.Since(start), len(b)})
			}
			lmu.Unlock()
			sS.Feed(c16Item{data: b, hb: hb})
		})
	}
	sC.onWrite = func(b []byte, hb bool) { forward(b, hb, 0) }

	// server side first (t = 0), client 137 us later so that no arrival coincides with a watchdog tick
	hS, err := heartbeatServer(sS, scfg, 65536)
	if err != nil {
		r.Fail("harness/c16-hbserver", "%v", err)
		return
	}
	connS := newSCTPConn(hS, &c16Dummy{}, 65536)
	var rmu sync.Mutex
	var rdErr error
	var rdAt time.Duration
	rdBytes := 0
	rdDone := make(chan struct{})
	go func() {
		defer close(rdDone)
		buf := make([]byte, 4096)
		for {
			n, err := connS.Read(buf)
			rmu.Lock()
			rdBytes += n
			if err != nil {
				rdErr, rdAt = err, time.Since(start)
				rmu.Unlock()
				return
			}
			rmu.Unlock()
		}
	}()
	time.Sleep(137*time.Microsecond + phase)
	mC, err := heartbeatClient(sC, &heartbeatConfig{Interval: ic})
	if err != nil {
		r.Fail("harness/c16-hbclient", "%v", err)
		return
	}
	connC := newSCTPConn(mC, &c16Dummy{}, 65536)
	defer func() {
		connC.Close()
		connS.Close()
		time.Sleep(2 * is)
		synctest.Wait()
	}()
	// application data of the client, each message at its own sub-millisecond phase (no two events of
	// the scenario fall on the same instant, so the order of timer callbacks never matters)
	var timers []*time.Timer
	defer func() {
		for _, t := range timers {
			t.Stop()
		}
	}()
	for i, d := range data {
		i, d := i, d
		timers = append(timers, time.AfterFunc(d.at+time.Duration(411+7*i)*time.Microsecond-time.Since(start), func() {
			connC.Write(c16Payload(i, d.n))
		}))
	}

	// the server-side application may be writing too (data towards the client, one message every
	// interval/2 for the whole run): what the local side sends says nothing about the peer's health
	if tp.Bool("server-writes") {
		r.Probe("watchdog/server-side-writes")
		for k := 0; k < 60; k++ {
			k := k
			timers = append(timers, time.AfterFunc(time.Duration(k)*is/2+733*time.Microsecond-time.Since(start), func() {
				connS.Write([]byte{byte(k)})
			}))
		}
	}

	closedEarly := func(where string) bool {
		if c, at := sS.isClosed(); c {
			lmu.Lock()
			lh := lastHBArrival
			lmu.Unlock()
			r.Fail("C16/watchdog/closed-while-heartbeats-arrive", "%s: the server side closed the stream at t=%v although heartbeats keep arriving (last one at t=%v, next due within %v; server interval %v)", where, at, lh, ic/2+jmax, is)
			return true
		}
		return false
	}
	// phase 1: heartbeats flow. Look at the connection every interval/8.
	horizon := cutAfter
	for time.Since(start) < horizon-is/8 {
		time.Sleep(is / 8)
		synctest.Wait()
		sim.Tick()
		if closedEarly(fmt.Sprintf("t=%v", time.Since(start))) {
			return
		}
	}
	if loss == 0 {
		// the peer goes away: the application closes the client connection; heartbeats stop
		time.Sleep(horizon - time.Since(start))
		synctest.Wait()
		if closedEarly("before the client closes") {
			return
		}
		r.Logf("client closes at t=%v", time.Since(start))
		connC.Close()
	}
	// phase 2: heartbeats have stopped. The last heartbeat that reached the server is known once the
	// link is empty (jitter <= interval/4 after the cut).
	time.Sleep(cutAfter + jmax + time.Millisecond - time.Since(start))
	synctest.Wait()
	lmu.Lock()
	last := lastHBArrival
	nd, nl := nHBdelivered, nHBlost
	lmu.Unlock()
	if last < 0 {
		// every heartbeat was lost: the connection's start is the reference
		last = 0
		r.Probe("watchdog/no-heartbeat-ever")
	}
	if c, at := sS.isClosed(); c && at < last {
		r.Fail("C16/watchdog/closed-while-heartbeats-arrive", "the server side closed the stream at t=%v, before the last heartbeat arrived (t=%v)", at, last)
		return
	}
	deadline := last + 2*is + time.Millisecond
	r.Logf("heartbeats delivered=%d lost=%d; last heartbeat arrived at t=%v; the server must close by t=%v", nd, nl, last, deadline)
	if nl > 0 {
		r.Fault("heartbeat-loss")
	}
	if d := deadline - time.Since(start); d > 0 {
		time.Sleep(d)
	}
	synctest.Wait()
	sim.Tick()
	r.Nontrivial()
	c, at := sS.isClosed()
	rmu.Lock()
	e, eat, nb := rdErr, rdAt, rdBytes
	rmu.Unlock()
	r.Logf("server stream closed=%v at t=%v; application read %d bytes, error=%v at t=%v", c, at, nb, e != nil, eat)
	if !c {
		r.Fail("C16/watchdog/not-closed-after-heartbeat-loss", "the last heartbeat arrived at t=%v; at t=%v (2 x interval %v later) the server side has not closed the stream", last, time.Since(start), is)
		return
	}
	if e == nil {
		r.Fail("C16/watchdog/reader-not-released", "the watchdog closed the stream at t=%v but the application's Read is still blocked at t=%v", at, time.Since(start))
		return
	}
	if loss == 1 && at > last+is+time.Millisecond {
		r.Probe("watchdog/closed-by-hbLoop-only")
	}
	// data that reached the server side clearly before the close must have come through (and nothing else)
	lmu.Lock()
	wantMin, wantMax := 0, 0
	for _, a := range dataArr {
		wantMax += a.n
		if a.at+time.Millisecond < at {
			wantMin += a.n
		}
	}
	lmu.Unlock()
	if nb < wantMin || nb > wantMax {
		r.Fail("C16/watchdog/data-lost", "application read %d bytes; %d bytes of data arrived before the close at t=%v (%d in total): heartbeats surfaced or data was lost", nb, wantMin, at, wantMax)
		return
	}
	<-rdDone
}


// ---------------------------------------------------------------------------
// several writers on one connection

// c16ScenarioWriters: 2-6 application goroutines write to ONE SCTPConn (net.Conn permits concurrent
// Write calls; the station's relay and a keep-alive may share a connection). The writers are tasks
// of the cooperative scheduler, so every interleaving of their lock operations is a tape decision;
// the network (a task of its own) drains the scripted stream at pre-drawn instants. The property is
// the same as for one writer: the data buffered in the stream stays bounded (limit + 2 x the
// largest accepted write, whatever the number of writers), and every writer finishes once the
// network drains.
func c16ScenarioWriters(r *sim.Run) {
	tp := r.Tape
	stack := tp.Choose("stack", 2)
	nwr := 2 + tp.Choose("writers", 5)
	plans := make([][]int, nwr)
	total := 0
	for i := range plans {
		plans[i] = make([]int, 1+tp.Choose("writes-each", 5))
		for k := range plans[i] {
			j := tp.Choose("wsize", len(c16WriteSizes)+6)
			if j >= len(c16WriteSizes) {
				j = 3 + j%3 // biased to large writes: the writers must outpace the network
			}
			plans[i][k] = c16WriteSizes[j]
			total++
		}
	}
	type drain struct {
		d  uint64
		dt time.Duration
	}
	net := make([]drain, 8+tp.Choose("drains", 40))
	for i := range net {
		net[i].d = c16Drains[tp.Choose("drain", len(c16Drains))]
		net[i].dt = []time.Duration{time.Millisecond, 10 * time.Millisecond, 300 * time.Millisecond}[tp.Choose("dt", 3)]
	}
	prefill := []uint64{0, 0, 100 << 10, 128 << 10, 200 << 10}[tp.Choose("prefill", 5)]
	r.Probe("mode/flow-writers")
	r.Logf("C16(d/writers) stack=%s writers=%d plans=%v prefill=%d drains=%d", []string{"server(hbConn)", "client(hbClient)"}[stack], nwr, plans, prefill, len(net))

	hbp := defaultConfig.Heartbeat
	st := newC16Stream(r, "s", hbp)
	var mid msgStream
	if stack == 0 {
		h, err := heartbeatServer(st, &heartbeatConfig{Interval: 1000 * time.Hour}, 65536)
		if err != nil {
			r.Fail("harness/c16-hbserver", "%v", err)
			return
		}
		mid = h
	} else {
		m, err := heartbeatClient(st, &heartbeatConfig{Interval: 1000 * time.Hour})
		if err != nil {
			r.Fail("harness/c16-hbclient", "%v", err)
			return
		}
		mid = m
	}
	conn := newSCTPConn(mid, &c16Dummy{}, 65536)
	synctest.Wait() // the heartbeat goroutines reach their first blocking point
	defer func() {
		conn.Close()
		synctest.Wait()
	}()
	if prefill > 0 {
		// data an earlier burst left in the stream
		st.mu.Lock()
		st.buffered = prefill
		st.mu.Unlock()
	}

	s := hook.Install(tp)
	defer s.Uninstall()
	s.LockYield = true
	s.UnlockYield = true
	if tp.Bool("staybias") {
		s.StayNum, s.StayDen = 2, 3
	}

	var mu sync.Mutex
	var largest uint64
	var wErr error
	var wErrBy string
	inWrite := make([]int, nwr) // size of the write the writer is in, -1 = idle, -2 = finished
	var left atomic.Int32
	left.Store(int32(nwr))
	var stop atomic.Bool
	for i := range plans {
		i := i
		inWrite[i] = -1
		s.Spawn(fmt.Sprintf("writer%d", i), func() {
			defer left.Add(-1)
			for k, n := range plans[i] {
				mu.Lock()
				inWrite[i] = n
				mu.Unlock()
				got, err := conn.Write(make([]byte, n))
				mu.Lock()
				inWrite[i] = -1
				if err == nil && uint64(got) > largest {
					largest = uint64(got)
				}
				if err != nil && n > 0 && n <= 128<<10 && wErr == nil {
					wErr, wErrBy = err, fmt.Sprintf("writer%d write #%d of %d bytes", i, k, n)
				}
				mu.Unlock()
			}
			mu.Lock()
			inWrite[i] = -2
			mu.Unlock()
		})
	}
	s.Spawn("network", func() {
		// no tape draws and no log lines here: a writer released by a drain runs beside this loop
		for k := 0; !stop.Load() && left.Load() > 0; k++ {
			d, dt := uint64(1<<30), time.Second // liveness phase: everything drains, one second apart
			if k < len(net) {
				d, dt = net[k].d, net[k].dt
			}
			time.Sleep(dt)
			if d > 0 {
				st.Drain(d)
			}
		}
	})
	bound := func() uint64 {
		mu.Lock()
		defer mu.Unlock()
		return writeMaxBufferedAmount + 2*largest
	}
	over := false
	each := func() {
		st.mu.Lock()
		mb, b := st.maxBuffered, st.buffered
		st.mu.Unlock()
		if mb > writeMaxBufferedAmount && !over {
			over = true
			r.Probe("flow/writers/overshoot-above-limit")
		}
		if bd := bound(); mb > bd {
			r.Fail("C16/flow/buffer-unbounded/several-writers", "%d bytes buffered in the stream (now %d) with %d writers on one connection; flow-control limit %d, largest accepted write %d, bound %d",
				mb, b, nwr, writeMaxBufferedAmount, (bd-writeMaxBufferedAmount)/2, bd)
		}
	}
	dst := sim.Drive(r, s, sim.DriveOpt{Horizon: 10 * time.Minute, MaxSteps: 6000, Each: each, Until: func() bool { return left.Load() == 0 }})
	stop.Store(true)
	defer s.Finish()
	r.CoverU(s.SigHash)
	mu.Lock()
	states := append([]int(nil), inWrite...)
	werr, by := wErr, wErrBy
	mu.Unlock()
	st.mu.Lock()
	mb, acc := st.maxBuffered, st.accepted
	st.mu.Unlock()
	r.Logf("drive ended %v: writer states %v, accepted %d bytes, max buffered %d", dst, states, acc, mb)
	r.Cover("flow-writers", fmt.Sprint(stack, nwr, total, prefill, over, dst))
	switch dst {
	case sim.Failed:
		return
	case sim.Done, sim.AllExited:
	case sim.Deadlock:
		r.Fail("C16/flow/writers-deadlock", "the writers block each other for ever: %s", s.WaitForGraph())
		return
	case sim.Horizon:
		r.Fail("C16/flow/writer-starved/several-writers", "after 10 simulated minutes (the network draining everything once a second) not every writer has finished: states %v (-2 = finished, otherwise the size of the write it is in)", states)
		return
	default:
		r.Fail("harness/c16-writers-drive", "drive ended with %v: %v", dst, s.LiveNames())
		return
	}
	r.Nontrivial()
	if werr != nil {
		r.Fail("C16/flow/write-error/several-writers", "%s failed on an open connection: %v", by, werr)
		return
	}
	each()
}
