package dtls

// Datagram flavour of the simulated network for the DTLS world: in-memory
// datagram pipes (message boundaries preserved, never blocking writers, a peer
// that goes away is not noticed) and a net.Listener whose Accept blocks until
// the world offers a connection.
//
// Two delivery disciplines:
//   - auto:   a datagram written by one end is handed to the peer at once, or
//     lost / duplicated / delayed according to a fault plan drawn from the tape
//     before the connection carries traffic (so the number of draws does not
//     depend on how many datagrams third-party code decides to send);
//   - manual: written datagrams wait in flight until the simulator's scheduler
//     runs the direction's delivery task (scenario b: the order in which
//     flights of different sessions reach the listener is a tape choice).

import (
	"fmt"
	"net"
	"os"
	"sync"
	"time"

	"verif/sim"
	"verif/sim/hook"
)

type c16Fate struct {
	kind  string // "drop", "dup", "delay"
	delay time.Duration
}

type c16PConn struct {
	r      *sim.Run
	name   string
	local  *net.UDPAddr
	remote *net.UDPAddr
	peer   *c16PConn

	mu         sync.Mutex
	inbox      [][]byte
	wake       chan struct{}
	closed     bool
	closeCalls int
	rdl        time.Time
	readers    int // goroutines blocked in Read
	nWritten   int
	nDelivered int // datagrams put into this end's inbox
	nRead      int

	manual bool
	flight [][]byte        // manual mode: written by this end, not yet delivered to the peer
	plan   map[int]c16Fate // auto mode: fate of the k-th datagram written by this end
	vanish bool            // everything written from now on is lost
	fired  map[string]int  // faults that actually hit a datagram
	timers []*time.Timer
}

// c16Pipe returns the two ends of a datagram pipe.
func c16Pipe(r *sim.Run, name string, a, b *net.UDPAddr) (*c16PConn, *c16PConn) {
	x := &c16PConn{r: r, name: name + "/c", local: a, remote: b, wake: make(chan struct{}), fired: map[string]int{}}
	y := &c16PConn{r: r, name: name + "/s", local: b, remote: a, wake: make(chan struct{}), fired: map[string]int{}}
	x.peer, y.peer = y, x
	return x, y
}

func (c *c16PConn) bcast() {
	close(c.wake)
	c.wake = make(chan struct{})
}

func (c *c16PConn) opErr(op string, err error) error {
	return &net.OpError{Op: op, Net: "udp", Source: c.local, Addr: c.remote, Err: err}
}

func (c *c16PConn) Read(b []byte) (int, error) {
	for {
		c.mu.Lock()
		if c.closed {
			c.mu.Unlock()
			return 0, c.opErr("read", net.ErrClosed)
		}
		if len(c.inbox) > 0 {
			d := c.inbox[0]
			c.inbox = c.inbox[1:]
			c.nRead++
			c.mu.Unlock()
			return copy(b, d), nil
		}
		dl, w := c.rdl, c.wake
		if !dl.IsZero() && !time.Now().Before(dl) {
			c.mu.Unlock()
			return 0, c.opErr("read", os.ErrDeadlineExceeded)
		}
		c.readers++
		c.mu.Unlock()
		if dl.IsZero() {
			<-w
		} else {
			tm := time.NewTimer(time.Until(dl))
			select {
			case <-w:
				tm.Stop()
			case <-tm.C:
			}
		}
		c.mu.Lock()
		c.readers--
		c.mu.Unlock()
	}
}

func (c *c16PConn) deliver(d []byte) {
	p := c.peer
	p.mu.Lock()
	if !p.closed {
		p.inbox = append(p.inbox, d)
		p.nDelivered++
		p.bcast()
	}
	p.mu.Unlock()
}

func (c *c16PConn) Write(b []byte) (int, error) {
	d := append([]byte(nil), b...)
	c.mu.Lock()
	if c.closed {
		c.mu.Unlock()
		return 0, c.opErr("write", net.ErrClosed)
	}
	k := c.nWritten
	c.nWritten++
	if c.vanish {
		c.fired["vanish"]++
		c.mu.Unlock()
		return len(b), nil
	}
	if c.manual {
		c.flight = append(c.flight, d)
		c.mu.Unlock()
		return len(b), nil
	}
	f, planned := c.plan[k]
	if planned {
		c.fired[f.kind]++
	}
	c.mu.Unlock()
	switch {
	case !planned:
		c.deliver(d)
	case f.kind == "drop":
	case f.kind == "dup":
		c.deliver(d)
		c.deliver(append([]byte(nil), d...))
	case f.kind == "delay":
		t := time.AfterFunc(f.delay, func() { c.deliver(d) })
		c.mu.Lock()
		c.timers = append(c.timers, t)
		c.mu.Unlock()
	}
	return len(b), nil
}

// inFlight reports whether the manual end has datagrams waiting for its delivery task.
func (c *c16PConn) inFlight() int {
	c.mu.Lock()
	defer c.mu.Unlock()
	return len(c.flight)
}

// flush delivers everything in flight, in order (manual mode; called by the delivery task).
func (c *c16PConn) flush() int {
	c.mu.Lock()
	fl := c.flight
	c.flight = nil
	c.mu.Unlock()
	for _, d := range fl {
		c.deliver(d)
	}
	return len(fl)
}

func (c *c16PConn) Close() error {
	c.mu.Lock()
	c.closeCalls++
	if !c.closed {
		c.closed = true
		c.bcast()
	}
	ts := c.timers
	c.timers = nil
	c.mu.Unlock()
	for _, t := range ts {
		t.Stop()
	}
	return nil
}

func (c *c16PConn) LocalAddr() net.Addr  { return c.local }
func (c *c16PConn) RemoteAddr() net.Addr { return c.remote }
func (c *c16PConn) SetDeadline(t time.Time) error {
	return c.SetReadDeadline(t)
}
func (c *c16PConn) SetReadDeadline(t time.Time) error {
	c.mu.Lock()
	defer c.mu.Unlock()
	if c.closed {
		return c.opErr("set", net.ErrClosed)
	}
	c.rdl = t
	c.bcast()
	return nil
}
func (c *c16PConn) SetWriteDeadline(t time.Time) error { return nil }

func (c *c16PConn) status() (closed bool, readers, written, delivered int) {
	c.mu.Lock()
	defer c.mu.Unlock()
	return c.closed, c.readers, c.nWritten, c.nDelivered
}

// spawnDelivery starts the delivery task of a manual end: every run of the task hands the
// datagrams in flight to the peer.
func (c *c16PConn) spawnDelivery(s *hook.Sched, stop func() bool) {
	c.manual = true
	s.Spawn("net/"+c.name, func() {
		for {
			hook.Park(&hook.Op{Kind: "deliver", Site: c.name, Enabled: func() bool { return stop() || c.inFlight() > 0 }})
			if stop() {
				return
			}
			c.flush()
		}
	})
}

// c16Listener is the net.Listener below the DTLS listener.
type c16Listener struct {
	mu      sync.Mutex
	queue   []net.Conn
	wake    chan struct{}
	closed  bool
	offered int
	taken   int
}

func newC16Listener() *c16Listener { return &c16Listener{wake: make(chan struct{})} }

func (l *c16Listener) offer(c net.Conn) {
	l.mu.Lock()
	l.queue = append(l.queue, c)
	l.offered++
	close(l.wake)
	l.wake = make(chan struct{})
	l.mu.Unlock()
}

func (l *c16Listener) Accept() (net.Conn, error) {
	for {
		l.mu.Lock()
		if l.closed {
			l.mu.Unlock()
			return nil, fmt.Errorf("c16 listener closed")
		}
		if len(l.queue) > 0 {
			c := l.queue[0]
			l.queue = l.queue[1:]
			l.taken++
			l.mu.Unlock()
			return c, nil
		}
		w := l.wake
		l.mu.Unlock()
		<-w
	}
}

func (l *c16Listener) Close() error {
	l.mu.Lock()
	if !l.closed {
		l.closed = true
		close(l.wake)
		l.wake = make(chan struct{})
	}
	l.mu.Unlock()
	return nil
}

func (l *c16Listener) Addr() net.Addr { return &net.UDPAddr{IP: net.IPv4(192, 0, 2, 53), Port: 443} }
