package dtls

// C16 scenarios (a) handshake and secret agreement and (b) routing under
// concurrency: real pion DTLS + SCTP + the package's heartbeat layer over the
// in-memory datagram network of zz_verif_c16_net_test.go.

import (
	"bytes"
	"context"
	"crypto/ecdsa"
	"crypto/x509"
	"errors"
	"fmt"
	"net"
	"sync"
	"sync/atomic"
	"testing/synctest"
	"time"

	"verif/sim"
)

func c16Secret(tp *sim.Tape, label string, n int) []byte {
	return tp.Bytes(label, n)
}

// c16CertFacts extracts what "identical certificates" means for two ends that each derive their
// own copy: same key pair and same to-be-signed certificate (the ECDSA signature over it is
// randomised per derivation and therefore not compared).
func c16CertFacts(seed []byte) (clientTBS, serverTBS []byte, clientKey, serverKey *ecdsa.PrivateKey, random [28]byte, err error) {
	cc, sc, err := certsFromSeed(seed)
	if err != nil {
		return
	}
	pc, err := x509.ParseCertificate(cc.Certificate[0])
	if err != nil {
		return
	}
	ps, err := x509.ParseCertificate(sc.Certificate[0])
	if err != nil {
		return
	}
	rnd, err := clientHelloRandomFromSeed(seed)
	if err != nil {
		return
	}
	return pc.RawTBSCertificate, ps.RawTBSCertificate, cc.PrivateKey.(*ecdsa.PrivateKey), sc.PrivateKey.(*ecdsa.PrivateKey), rnd, nil
}

type c16DialRes struct {
	conn net.Conn
	err  error
	at   time.Duration
}

var c16XferSizes = []int{1, 2, 1000, 1200, 16384, 65535, 65536}
var c16XferReads = []int{1, 100, 1199, 4096, 65535, 65536, 65537}

// c16ScenarioHandshake: one dial/accept pair.
func c16ScenarioHandshake(r *sim.Run) {
	tp := r.Tape
	path := tp.Choose("path", 2) // 0 = Server(conn) ; 1 = Listener.Accept
	rel := tp.Choose("secrets", 6)
	slen := []int{32, 1, 64, 200, 0}[tp.Choose("secretlen", 5)]
	clock := tp.Choose("clock", 4)
	faulty := tp.Choose("net", 3) == 2
	type flt struct {
		dir, idx int
		f        c16Fate
	}
	var faults []flt
	if faulty {
		nf := 1 + tp.Choose("nfaults", 6)
		for i := 0; i < nf; i++ {
			k := []string{"drop", "dup", "delay"}[tp.Choose("fkind", 3)]
			faults = append(faults, flt{tp.Choose("fdir", 2), tp.Choose("fidx", 30), c16Fate{kind: k, delay: time.Duration(1+tp.Choose("fdelay", 40)) * 50 * time.Millisecond}})
		}
	}
	nmsg := [2]int{1 + tp.Choose("nmsgC", 4), tp.Choose("nmsgS", 3)}
	var sizes [2][]int
	for d := 0; d < 2; d++ {
		for i := 0; i < nmsg[d]; i++ {
			sizes[d] = append(sizes[d], c16XferSizes[tp.Choose("xsize", len(c16XferSizes))])
		}
	}
	var reads [2][]int
	for d := 0; d < 2; d++ {
		nr := 1 + tp.Choose("nreads", 3)
		for i := 0; i < nr; i++ {
			reads[d] = append(reads[d], c16XferReads[tp.Choose("xread", len(c16XferReads))])
		}
	}
	secC := c16Secret(tp, "secret", slen)
	secS := append([]byte(nil), secC...)
	same := true
	relName := "equal"
	switch rel {
	case 0, 1, 2:
	case 3:
		secS = c16Secret(tp, "secret2", slen)
		secS = append(secS, 0x5a) // never equal, also for length 0
		same, relName = false, "unrelated"
	case 4:
		secS = append(secS, 0x00)
		same, relName = false, "server=client+00"
	case 5:
		if len(secC) == 0 {
			secS = []byte{0}
		} else {
			secS[len(secS)-1] ^= 1
		}
		same, relName = false, "last-bit-flipped"
	}
	r.Probe("mode/handshake")
	r.Probe("handshake/secrets-" + relName)
	r.Logf("C16(a) path=%s secrets=%s len=%d clock=%d faulty-net=%v faults=%v c->s msgs=%v reads=%v s->c msgs=%v reads=%v", []string{"Server", "Listener"}[path], relName, slen, clock, faulty, faults, sizes[0], reads[1], sizes[1], reads[0])
	r.Cover("handshake", fmt.Sprint(path, rel, slen, clock, faulty, faults, sizes, reads))
	// pion's DTLS/SCTP goroutines run freely between quiescent points from here on
	r.FreeRunning()

	// clock: 0,1 = both ends derive their certificates on the same UTC day; 2,3 = midnight passes
	// between the first and the second end's derivation
	if clock >= 2 {
		time.Sleep(24*time.Hour - 300*time.Millisecond)
		r.Probe("handshake/midnight-between-derivations")
	}

	// direct comparison of what both ends derive (same instant, hence same validity dates)
	aC, aS, kC, kS, rndA, err := c16CertFacts(secC)
	if err != nil {
		r.Fail("C16/derive/error", "certificate derivation failed for a %d-byte secret: %v", len(secC), err)
		return
	}
	bC, bS, kC2, kS2, rndB, err := c16CertFacts(secS)
	if err != nil {
		r.Fail("C16/derive/error", "certificate derivation failed for a %d-byte secret: %v", len(secS), err)
		return
	}
	ident := bytes.Equal(aC, bC) && bytes.Equal(aS, bS) && kC.Equal(kC2) && kS.Equal(kS2) && rndA == rndB
	anyEq := bytes.Equal(aC, bC) || bytes.Equal(aS, bS) || kC.Equal(kC2) || kS.Equal(kS2) || rndA == rndB
	if same && !ident {
		r.Fail("C16/derive/not-identical", "two derivations from the same secret differ (client cert %v, server cert %v, client key %v, server key %v, hello random %v)", bytes.Equal(aC, bC), bytes.Equal(aS, bS), kC.Equal(kC2), kS.Equal(kS2), rndA == rndB)
		return
	}
	if !same && anyEq {
		r.Fail("C16/derive/collision", "derivations from different secrets (%s) share material (client cert %v, server cert %v, client key %v, server key %v, hello random %v)", relName, bytes.Equal(aC, bC), bytes.Equal(aS, bS), kC.Equal(kC2), kS.Equal(kS2), rndA == rndB)
		return
	}
	if kC.Equal(kS) || bytes.Equal(aC, aS) {
		r.Fail("C16/derive/client-equals-server", "client and server certificate derived from one secret are the same")
		return
	}

	cc, cs := c16Pipe(r, "p0", &net.UDPAddr{IP: net.IPv4(198, 51, 100, 7), Port: 40000}, &net.UDPAddr{IP: net.IPv4(192, 0, 2, 53), Port: 443})
	cc.plan, cs.plan = map[int]c16Fate{}, map[int]c16Fate{}
	for _, f := range faults {
		[]*c16PConn{cc, cs}[f.dir].plan[f.idx] = f.f
	}
	ctxC, cancelC := context.WithTimeout(context.Background(), 40*time.Second)
	defer cancelC()
	ctxS, cancelS := context.WithTimeout(context.Background(), 40*time.Second)
	defer cancelS()
	resC, resS := make(chan c16DialRes, 1), make(chan c16DialRes, 1)
	var authFail, logOther atomic.Int32
	var lst *c16Listener
	var l *Listener
	startServer := func() {
		if path == 0 {
			go func() {
				c, err := ServerWithContext(ctxS, cs, &Config{PSK: secS, SCTP: ServerAccept})
				resS <- c16DialRes{c, err, r.Elapsed()}
			}()
			return
		}
		lst = newC16Listener()
		var err error
		l, err = NewListener(lst, &Config{LogAuthFail: func(*net.IP) { authFail.Add(1) }, LogOther: func(*net.IP) { logOther.Add(1) }})
		if err != nil {
			r.Fail("harness/c16-listener", "%v", err)
			return
		}
		go func() {
			c, err := l.AcceptWithContext(ctxS, &Config{PSK: secS, SCTP: ServerAccept})
			resS <- c16DialRes{c, err, r.Elapsed()}
		}()
	}
	startClient := func() {
		if path == 1 {
			lst.offer(cs)
		}
		go func() {
			c, err := ClientWithContext(ctxC, cc, &Config{PSK: secC, SCTP: ClientOpen})
			resC <- c16DialRes{c, err, r.Elapsed()}
		}()
	}
	var conns []net.Conn
	defer func() {
		for _, c := range conns {
			c.Close()
		}
		cancelC()
		cancelS()
		if l != nil {
			l.Close()
		}
		cc.Close()
		cs.Close()
		// let every timer-driven goroutine of pion notice the closes
		time.Sleep(3 * time.Minute)
		synctest.Wait()
	}()
	if clock == 3 && path == 0 {
		startClient()
		time.Sleep(time.Second)
		startServer()
	} else {
		startServer()
		if r.Failed() {
			return
		}
		synctest.Wait() // the acceptor is registered before the hello arrives
		if clock >= 2 {
			time.Sleep(time.Second)
		}
		startClient()
	}
	// both calls carry a 40 s context: the root never waits without a bound of its own
	wait := func(ch chan c16DialRes, who string) (c16DialRes, bool) {
		tm := time.NewTimer(2 * time.Minute)
		defer tm.Stop()
		select {
		case x := <-ch:
			return x, true
		case <-tm.C:
			r.Fail("C16/handshake/call-ignores-context", "%s: the context expired / was cancelled more than a minute ago and the call has not returned", who)
			return c16DialRes{err: context.DeadlineExceeded}, false
		}
	}
	rc, ok := wait(resC, "ClientWithContext")
	sim.Tick()
	if !ok {
		return
	}
	// a failed client never completes the server side: do not wait 40 simulated seconds for nothing
	if rc.err != nil {
		cancelS()
	}
	rs, ok := wait(resS, []string{"ServerWithContext", "Listener.AcceptWithContext"}[path])
	sim.Tick()
	if !ok {
		return
	}
	if rc.conn != nil && rc.err == nil {
		conns = append(conns, rc.conn)
	}
	if rs.conn != nil && rs.err == nil {
		conns = append(conns, rs.conn)
	}
	okC, okS := rc.err == nil, rs.err == nil
	nf := 0
	for _, e := range []*c16PConn{cc, cs} {
		e.mu.Lock()
		for k, v := range e.fired {
			nf += v
			for i := 0; i < v; i++ {
				r.Fault("datagram-" + k)
			}
		}
		e.mu.Unlock()
	}
	r.Logf("client: ok=%v at t=%v; server: ok=%v at t=%v; datagram faults fired=%d", okC, rc.at, okS, rs.at, nf)
	r.Nontrivial()
	if !same {
		if okC || okS {
			r.Fail("C16/handshake/completed-with-different-secrets", "secrets differ (%s) but the session was established: client ok=%v (err %v), server ok=%v (err %v)", relName, okC, rc.err, okS, rs.err)
		}
		r.Probe("handshake/refused-different-secrets")
		return
	}
	if !(okC && okS) {
		if nf == 0 {
			r.Fail("C16/handshake/same-secret-failed", "both ends used the same %d-byte secret over a lossless network, path %s, clock case %d: client err=%v, server err=%v", slen, []string{"Server", "Listener"}[path], clock, c16ErrText(rc.err), c16ErrText(rs.err))
			return
		}
		// with datagram faults a failure within the time limits is licensed (5 s accept timeout)
		r.Probe("handshake/failed-under-datagram-faults")
		return
	}
	r.Probe("handshake/established")
	if nf > 0 {
		r.Probe("handshake/established-under-datagram-faults")
	}

	// byte stream through the real SCTP, both directions at once
	ends := [2]net.Conn{rc.conn, rs.conn} // 0 = client, 1 = server
	var want [2][]byte                    // by sender
	for d := 0; d < 2; d++ {
		for i, n := range sizes[d] {
			want[d] = append(want[d], c16Payload(d*8+i, n)...)
		}
	}
	var mu sync.Mutex
	var got [2][]byte // by sender (read at the other end)
	var rerr, werr [2]error
	var wg sync.WaitGroup
	for d := 0; d < 2; d++ {
		d := d
		wg.Add(2)
		go func() { // writer at end d
			defer wg.Done()
			for i, n := range sizes[d] {
				if _, err := ends[d].Write(c16Payload(d*8+i, n)); err != nil {
					mu.Lock()
					werr[d] = err
					mu.Unlock()
					return
				}
			}
		}()
		go func() { // reader at the other end
			defer wg.Done()
			rd := reads[1-d]
			for i := 0; ; i++ {
				mu.Lock()
				done := len(got[d]) >= len(want[d])
				mu.Unlock()
				if done {
					return
				}
				buf := make([]byte, rd[i%len(rd)])
				ends[1-d].SetReadDeadline(time.Now().Add(2 * time.Minute))
				n, err := ends[1-d].Read(buf)
				mu.Lock()
				got[d] = append(got[d], buf[:n]...)
				if err != nil {
					rerr[d] = err
					mu.Unlock()
					return
				}
				mu.Unlock()
			}
		}()
	}
	xferDone := make(chan struct{})
	go func() { wg.Wait(); close(xferDone) }()
	select {
	case <-xferDone:
	case <-time.After(5 * time.Minute):
		// hbConn.Read has no deadline: end the transfer by closing, the amounts are judged below
		r.Probe("session/transfer-timeout")
		rc.conn.Close()
		rs.conn.Close()
		<-xferDone
	}
	sim.Tick()
	for d := 0; d < 2; d++ {
		dir := []string{"client->server", "server->client"}[d]
		g, w := got[d], want[d]
		r.Logf("%s: wrote %d bytes (write error=%v), peer read %d bytes (read error=%v)", dir, len(w), werr[d] != nil, len(g), rerr[d] != nil)
		if len(g) > len(w) || !bytes.Equal(g, w[:len(g)]) {
			k := 0
			for k < len(g) && k < len(w) && g[k] == w[k] {
				k++
			}
			sig := "C16/session/bytes-differ"
			if bytes.HasPrefix(g[k:], defaultConfig.Heartbeat) {
				sig = "C16/session/heartbeat-surfaced"
			}
			r.Fail(sig, "%s: bytes read are not a prefix of the bytes written (first difference at offset %d of %d read / %d written)", dir, k, len(g), len(w))
			return
		}
		if len(g) < len(w) {
			if nf == 0 {
				r.Fail("C16/session/data-missing", "%s over a lossless network: %d of %d bytes arrived (write error %v, read error %v)", dir, len(g), len(w), werr[d], rerr[d])
				return
			}
			r.Probe("session/incomplete-under-datagram-faults")
		}
	}
	r.Probe("session/byte-stream-checked")
}

func c16ErrText(err error) string {
	if err == nil {
		return "<nil>"
	}
	switch {
	case errors.Is(err, context.DeadlineExceeded):
		return "context deadline exceeded"
	case errors.Is(err, context.Canceled):
		return "context canceled"
	}
	s := err.Error()
	if len(s) > 160 {
		s = s[:160]
	}
	return s
}
