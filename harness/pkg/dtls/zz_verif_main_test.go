//go:debug asynctimerchan=0
package dtls

// Harness entry of the conjure simulator for package pkg/dtls. This file is
// overlaid into the package by /verif/bin/check; it is never part of /repo.

import (
	"os"
	"testing"
)

func TestMain(m *testing.M) {
	os.Exit(m.Run())
}
