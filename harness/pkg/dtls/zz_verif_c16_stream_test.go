package dtls

// C16, scenarios (c) byte stream and (d) flow control / watchdog: a scripted
// message stream (the msgStream interface of sctpconn.go) below the REAL
// hbConn / hbClient and the REAL SCTPConn.

import (
	"bytes"
	"errors"
	"fmt"
	"io"
	"net"
	"sync"
	"testing/synctest"
	"time"

	"verif/sim"
)

// ---------------------------------------------------------------------------
// scripted msgStream

type c16Item struct {
	data []byte
	err  error
	hb   bool
}

type c16TimeoutErr struct{}

func (c16TimeoutErr) Error() string   { return "c16 stream: read deadline exceeded" }
func (c16TimeoutErr) Timeout() bool   { return true }
func (c16TimeoutErr) Temporary() bool { return true }

var errC16Scripted = errors.New("c16 stream: scripted stream error")
var errC16Deadline = errors.New("c16 stream: scripted SetReadDeadline failure")

type c16Write struct {
	n  int
	hb bool
	at time.Duration
}

// c16Stream implements msgStream. The receive side is fed by the harness
// (Feed); the send side keeps a buffered amount that the harness drains
// (Drain) and fires the low-threshold callback exactly like pion/sctp's
// Stream.onBufferReleased: when the amount goes from above the threshold to at
// or below it.
type c16Stream struct {
	nBA    int  // BufferedAmount calls so far
	raceAt int  // the call after which the network drains everything (see BufferedAmount)
	raceOn bool
	r    *sim.Run
	name string
	hbp  []byte // heartbeat payload, to classify writes

	mu         sync.Mutex
	inbox      []c16Item
	sticky     error
	rdl        time.Time
	wake       chan struct{}
	closed     bool
	closeCalls int
	closedAt   time.Duration
	blocked    int // goroutines blocked in Read
	short      int // Read with a buffer shorter than the message
	nSetDL     int
	dlErrAt    int // the k-th SetReadDeadline call fails (-1 = never)
	nRead      int // messages handed out

	buffered    uint64
	lowTh       uint64
	onLow       func()
	maxBuffered uint64
	accepted    uint64 // bytes accepted by Write
	writes      []c16Write
	onWrite     func(b []byte, hb bool)
}

func newC16Stream(r *sim.Run, name string, hbp []byte) *c16Stream {
	return &c16Stream{r: r, name: name, hbp: hbp, wake: make(chan struct{}), dlErrAt: -1}
}

func (s *c16Stream) bcast() {
	close(s.wake)
	s.wake = make(chan struct{})
}

// Feed makes one message (and/or an error) available to Read.
func (s *c16Stream) Feed(it c16Item) {
	s.mu.Lock()
	s.inbox = append(s.inbox, it)
	s.bcast()
	s.mu.Unlock()
}

func (s *c16Stream) Read(b []byte) (int, error) {
	for {
		s.mu.Lock()
		if s.closed {
			s.mu.Unlock()
			return 0, io.EOF
		}
		if len(s.inbox) > 0 {
			it := s.inbox[0]
			s.inbox = s.inbox[1:]
			s.nRead++
			if it.err != nil {
				s.sticky = it.err
			}
			if len(b) < len(it.data) {
				s.short++
				s.mu.Unlock()
				return 0, io.ErrShortBuffer
			}
			n := copy(b, it.data)
			s.mu.Unlock()
			return n, it.err
		}
		if s.sticky != nil {
			err := s.sticky
			s.mu.Unlock()
			return 0, err
		}
		dl, w := s.rdl, s.wake
		if !dl.IsZero() && !time.Now().Before(dl) {
			s.mu.Unlock()
			return 0, c16TimeoutErr{}
		}
		s.blocked++
		s.mu.Unlock()
		if dl.IsZero() {
			<-w
		} else {
			tm := time.NewTimer(time.Until(dl))
			select {
			case <-w:
				tm.Stop()
			case <-tm.C:
			}
		}
		s.mu.Lock()
		s.blocked--
		s.mu.Unlock()
	}
}

func (s *c16Stream) Write(b []byte) (int, error) {
	s.mu.Lock()
	if s.closed {
		s.mu.Unlock()
		return 0, io.ErrClosedPipe
	}
	hb := bytes.Equal(b, s.hbp)
	s.buffered += uint64(len(b))
	s.accepted += uint64(len(b))
	if s.buffered > s.maxBuffered {
		s.maxBuffered = s.buffered
	}
	s.writes = append(s.writes, c16Write{len(b), hb, s.r.Elapsed()})
	cb := s.onWrite
	s.mu.Unlock()
	if cb != nil {
		cb(append([]byte(nil), b...), hb)
	}
	return len(b), nil
}

// Drain releases up to n buffered bytes (the network sent them).
func (s *c16Stream) Drain(n uint64) {
	s.mu.Lock()
	from := s.buffered
	if n > s.buffered {
		n = s.buffered
	}
	s.buffered -= n
	f := s.onLow
	fire := f != nil && from > s.lowTh && s.buffered <= s.lowTh
	s.mu.Unlock()
	if fire {
		f()
	}
}

func (s *c16Stream) Close() error {
	s.mu.Lock()
	s.closeCalls++
	if !s.closed {
		s.closed = true
		s.closedAt = s.r.Elapsed()
		s.bcast()
	}
	s.mu.Unlock()
	return nil
}

// BufferedAmount reports the buffered amount. If raceAt selects this call and the buffer is above
// the low threshold, the network drains everything (firing the low-threshold callback) right
// AFTER the value was sampled: the caller acts on a value that is already stale, which is what a
// real SCTP association does whenever acknowledgements arrive between a check and a wait.
func (s *c16Stream) BufferedAmount() uint64 {
	s.mu.Lock()
	v := s.buffered
	k := s.nBA
	s.nBA++
	race := s.raceOn && k == s.raceAt && v > s.lowTh
	s.mu.Unlock()
	if race {
		s.r.Probe("flow/drain-between-check-and-wait")
		s.Drain(1 << 62)
	}
	return v
}

func (s *c16Stream) SetReadDeadline(t time.Time) error {
	s.mu.Lock()
	defer s.mu.Unlock()
	k := s.nSetDL
	s.nSetDL++
	if k == s.dlErrAt {
		return errC16Deadline
	}
	s.rdl = t
	s.bcast()
	return nil
}

func (s *c16Stream) SetBufferedAmountLowThreshold(th uint64) {
	s.mu.Lock()
	s.lowTh = th
	s.mu.Unlock()
}

func (s *c16Stream) OnBufferedAmountLow(f func()) {
	s.mu.Lock()
	s.onLow = f
	s.mu.Unlock()
}

func (s *c16Stream) isClosed() (bool, time.Duration) {
	s.mu.Lock()
	defer s.mu.Unlock()
	return s.closed, s.closedAt
}

// c16Dummy is the net.Conn below SCTPConn in the scripted worlds (SCTPConn only
// closes it and forwards address / deadline calls to it).
type c16Dummy struct {
	mu     sync.Mutex
	closes int
}

func (d *c16Dummy) Read(b []byte) (int, error)  { return 0, io.EOF }
func (d *c16Dummy) Write(b []byte) (int, error) { return len(b), nil }
func (d *c16Dummy) Close() error {
	d.mu.Lock()
	d.closes++
	d.mu.Unlock()
	return nil
}
func (d *c16Dummy) LocalAddr() net.Addr                { return &net.UDPAddr{IP: net.IPv4(192, 0, 2, 1), Port: 1} }
func (d *c16Dummy) RemoteAddr() net.Addr               { return &net.UDPAddr{IP: net.IPv4(192, 0, 2, 2), Port: 2} }
func (d *c16Dummy) SetDeadline(t time.Time) error      { return nil }
func (d *c16Dummy) SetReadDeadline(t time.Time) error  { return nil }
func (d *c16Dummy) SetWriteDeadline(t time.Time) error { return nil }

// ---------------------------------------------------------------------------
// (c) byte stream

// message kinds of a script: five sizes relative to the maximum message size, or a heartbeat
const c16KindHB = 5

func c16MsgSize(kind, max int) int {
	return []int{0, 1, 2, max - 1, max}[kind]
}

func c16ReadSize(kind, max int) int {
	return []int{1, 2, max - 1, max, max + 1}[kind]
}

// number of error variants of a script with n messages:
// 0 = no error; 1..n+1 = bare error at boundary p=v-1 (before message p; p=n: after the last);
// n+2..2n+1 = error returned together with message p=v-n-2; 2n+2..3n+2 = SetReadDeadline fails before read p=v-2n-2
func c16ErrVariants(n int) int { return 3*n + 3 }

type c16StreamCase struct {
	stack int // 0 = server side (hbConn), 1 = client side (hbClient)
	max   int
	kinds []int
	reads []int
	errv  int
	pace  int // 0 = lock step (the reader keeps up), 1 = burst (everything arrives before the application reads)
}

// c16EnumSpace describes the systematic part of (c) for a tier.
func c16EnumBounds(tier string) (maxMsgs, maxReads int) {
	if tier == "thorough" {
		return 4, 4
	}
	return 3, 3
}

func ipow(b, e int) int {
	p := 1
	for i := 0; i < e; i++ {
		p *= b
	}
	return p
}

// c16EnumCount / c16EnumPrefix enumerate: stack x message script x read-size sequence x error variant x pace.
// c16EnumCount is the number of enumerated kernel runs: one per case in the quick tier, one per
// batch of c16Batch cases in the thorough tier.
func c16EnumCount(tier string) int {
	if tier == "thorough" {
		return (c16EnumCases(tier) + c16Batch - 1) / c16Batch
	}
	return c16EnumCases(tier)
}

func c16EnumAt(tier string, i int) []int {
	if tier == "thorough" {
		return []int{0, 2, i}
	}
	return c16EnumPrefix(tier, i)
}

func c16EnumCases(tier string) int {
	M, R := c16EnumBounds(tier)
	rs := 0
	for k := 1; k <= R; k++ {
		rs += ipow(5, k)
	}
	total := 0
	for stack := 0; stack < 2; stack++ {
		nk := 6 - stack
		for n := 0; n <= M; n++ {
			total += ipow(nk, n) * c16ErrVariants(n) * rs * 2
		}
	}
	return total
}

func c16EnumPrefix(tier string, i int) []int {
	M, R := c16EnumBounds(tier)
	rs := 0
	for k := 1; k <= R; k++ {
		rs += ipow(5, k)
	}
	for stack := 0; stack < 2; stack++ {
		nk := 6 - stack
		for n := 0; n <= M; n++ {
			block := ipow(nk, n) * c16ErrVariants(n) * rs * 2
			if i >= block {
				i -= block
				continue
			}
			pace := i % 2
			i /= 2
			errv := i % c16ErrVariants(n)
			i /= c16ErrVariants(n)
			ri := i % rs
			i /= rs
			// mode=0 (stream), enumerated=1, stack, nmsg, kinds..., nreads, reads..., errv, pace
			out := []int{0, 1, stack, n}
			for k := 0; k < n; k++ {
				out = append(out, i%nk)
				i /= nk
			}
			nr := 1
			for ; nr <= R; nr++ {
				if ri < ipow(5, nr) {
					break
				}
				ri -= ipow(5, nr)
			}
			out = append(out, nr-1)
			for k := 0; k < nr; k++ {
				out = append(out, ri%5)
				ri /= 5
			}
			out = append(out, errv, pace)
			return out
		}
	}
	return []int{0, 1}
}

var c16HBShort = []byte{0xf0, 0xf1, 0xf2}

const c16Amplify = 40

// c16Payload: data bytes all have the high bit set and stay below 0xf0, so they can be told from
// both heartbeat payloads (the default one is ASCII, the short one is f0 f1 f2).
func c16Payload(idx, n int) []byte {
	b := make([]byte, n)
	for i := range b {
		b[i] = 0x80 | byte((idx*29+i*3+1)%0x60)
	}
	return b
}

// c16CaseFromPrefix turns an enumeration prefix (as produced by c16EnumPrefix, without the two
// leading selector draws) into a case without touching the tape.
func c16CaseFromPrefix(p []int) c16StreamCase {
	var c c16StreamCase
	c.max = 5
	c.stack = p[0]
	n := p[1]
	p = p[2:]
	c.kinds = append(c.kinds, p[:n]...)
	p = p[n:]
	nr := 1 + p[0]
	c.reads = append(c.reads, p[1:1+nr]...)
	p = p[1+nr:]
	c.errv, c.pace = p[0], p[1]
	return c
}

const c16Batch = 16

func c16DrawStreamCase(r *sim.Run, enumKind int) c16StreamCase {
	tp := r.Tape
	var c c16StreamCase
	enumerated := enumKind == 1
	c.stack = tp.Choose("stack", 2)
	nk := 6 - c.stack
	if enumerated {
		c.max = 5
		n := tp.Choose("nmsg", 5)
		for k := 0; k < n; k++ {
			c.kinds = append(c.kinds, tp.Choose("kind", nk))
		}
		nr := 1 + tp.Choose("nreads", 4)
		for k := 0; k < nr; k++ {
			c.reads = append(c.reads, tp.Choose("read", 5))
		}
		c.errv = tp.Choose("errv", c16ErrVariants(n))
		c.pace = tp.Choose("pace", 2)
		return c
	}
	c.max = []int{5, 8, 64, 1200}[tp.Choose("max", 4)]
	n := tp.Choose("nmsg", 13)
	for k := 0; k < n; k++ {
		c.kinds = append(c.kinds, tp.Choose("kind", nk))
	}
	nr := 1 + tp.Choose("nreads", 6)
	for k := 0; k < nr; k++ {
		c.reads = append(c.reads, tp.Choose("read", 5))
	}
	c.errv = 0
	if tp.Bool("witherr") {
		c.errv = 1 + tp.Choose("errv", c16ErrVariants(n)-1)
	}
	c.pace = tp.Choose("pace", 2)
	return c
}

func c16ScenarioStream(r *sim.Run) {
	// 0 = generated case, 1 = one enumerated case (its parameters are the following draws),
	// 2 = a batch of c16Batch consecutive cases of the thorough tier's enumeration in one run (the
	// kernel keeps about 2 KB per run, which rules out 5*10^7 separate runs)
	enumKind := r.Tape.Choose("enumerated", 3)
	r.Probe("mode/stream")
	if enumKind != 2 {
		c16RunStreamCase(r, c16DrawStreamCase(r, enumKind), r.Logf)
		return
	}
	total := c16EnumCases("thorough")
	b := r.Tape.Choose("batch", 1<<30) % ((total + c16Batch - 1) / c16Batch)
	for k := 0; k < c16Batch; k++ {
		idx := b*c16Batch + k
		if idx >= total {
			break
		}
		var lines []string
		c16RunStreamCase(r, c16CaseFromPrefix(c16EnumPrefix("thorough", idx)[2:]), func(f string, a ...any) {
			lines = append(lines, fmt.Sprintf(f, a...))
		})
		if r.Failed() {
			r.Logf("batch %d, case %d (enumeration index %d of %d), log of the failing case:", b, k, idx, total)
			for _, l := range lines {
				r.Logf("  %s", l)
			}
			return
		}
	}
	r.Probe("stream/batched-run")
}

func c16RunStreamCase(r *sim.Run, c c16StreamCase, logf func(string, ...any)) {
	n := len(c.kinds)
	hbp := c16HBShort
	if c.max >= 64 {
		hbp = defaultConfig.Heartbeat
	}
	// decode the error variant
	errKind, errPos := "none", -1
	switch {
	case c.errv == 0:
	case c.errv <= n+1:
		errKind, errPos = "bare", c.errv-1
	case c.errv <= 2*n+1:
		errKind, errPos = "with-data", c.errv-n-2
	default:
		errKind, errPos = "deadline", c.errv-2*n-2
	}
	st := newC16Stream(r, "s", hbp)
	if errKind == "deadline" {
		if c.stack == 1 {
			// the client side never sets a read deadline on its own: same case as a bare error
			errKind = "bare"
		} else {
			st.dlErrAt = errPos
		}
	}
	// the script and the expected byte stream
	var items []c16Item
	var want []byte
	nData, nHB := 0, 0
	// Burst + error on the server stack: hbConn.Read selects between "closed" and its receive queue,
	// and when both are ready the runtime flips a coin per Read, which no tape controls. To make the
	// verdict a function of the code and not of those coins, the script is preceded by 40 one-byte
	// messages: code that can lose queued data then loses some with probability 1 - 2^-40, code that
	// cannot lose it never does.
	amplified := c.pace == 1 && c.stack == 0 && errKind != "none"
	nAmp := 0
	if amplified {
		nAmp = c16Amplify
		for i := 0; i < c16Amplify; i++ {
			it := c16Item{data: c16Payload(100+i, 1)}
			items = append(items, it)
			want = append(want, it.data...)
			nData++
		}
		if st.dlErrAt >= 0 {
			st.dlErrAt += c16Amplify
		}
	}
	for i := 0; i <= n; i++ {
		if errKind == "bare" && errPos == i {
			items = append(items, c16Item{err: errC16Scripted})
			break
		}
		if errKind == "deadline" && errPos == i {
			// the failing SetReadDeadline precedes read i: nothing after it is ever read
			break
		}
		if i == n {
			break
		}
		var it c16Item
		if c.kinds[i] == c16KindHB {
			it = c16Item{data: append([]byte(nil), hbp...), hb: true}
			nHB++
		} else {
			it = c16Item{data: c16Payload(i, c16MsgSize(c.kinds[i], c.max))}
			want = append(want, it.data...)
			nData++
		}
		if errKind == "with-data" && errPos == i {
			it.err = errC16Scripted
			items = append(items, it)
			break
		}
		items = append(items, it)
	}
	hasErr := errKind != "none"
	var rs []int
	for _, k := range c.reads {
		rs = append(rs, c16ReadSize(k, c.max))
	}
	logf("C16(c) stack=%s max=%d script=%s reads=%v error=%s@%d pace=%s", []string{"server(hbConn)", "client(hbClient)"}[c.stack], c.max,
		c16DescribeItems(items[nAmp:]), rs, errKind, errPos, []string{"lockstep", "burst"}[c.pace]+map[bool]string{true: fmt.Sprintf(" (preceded by %d x D1)", c16Amplify), false: ""}[amplified])
	r.Cover("stream", fmt.Sprint(c.stack, c.max, c.kinds, c.reads, c.errv, c.pace))
	if hasErr {
		r.Fault("stream-error/" + errKind)
	}
	if nHB > 0 {
		r.Probe("stream/heartbeat-interleaved")
	}

	// the real stack
	var mid msgStream
	if c.stack == 0 {
		h, err := heartbeatServer(st, &heartbeatConfig{Interval: time.Hour, Heartbeat: hbp}, c.max)
		if err != nil {
			r.Fail("harness/c16-hbserver", "%v", err)
			return
		}
		mid = h
	} else {
		m, err := heartbeatClient(st, &heartbeatConfig{Interval: time.Hour, Heartbeat: hbp})
		if err != nil {
			r.Fail("harness/c16-hbclient", "%v", err)
			return
		}
		mid = m
	}
	dummy := &c16Dummy{}
	conn := newSCTPConn(mid, dummy, uint64(c.max))
	defer func() {
		conn.Close()
		synctest.Wait()
	}()

	// the application's reader
	type rdEvent struct {
		n   int
		err error
	}
	var mu sync.Mutex
	var got []byte
	var evs []rdEvent
	var rdErr error
	rdDone := false
	startReader := func() {
		go func() {
			zero := 0
			for i := 0; ; i++ {
				buf := make([]byte, rs[i%len(rs)])
				k, err := conn.Read(buf)
				mu.Lock()
				got = append(got, buf[:k]...)
				evs = append(evs, rdEvent{k, err})
				if err != nil {
					rdErr = err
					rdDone = true
					mu.Unlock()
					return
				}
				if len(got) > len(want) || !bytes.Equal(got, want[:len(got)]) {
					// already wrong (judged by checkPrefix): stop, a broken stack may return bytes for ever
					rdDone = true
					mu.Unlock()
					return
				}
				if k == 0 {
					zero++
				} else {
					zero = 0
				}
				if zero > 64 {
					rdDone = true
					mu.Unlock()
					return
				}
				mu.Unlock()
			}
		}()
	}
	snapshot := func() ([]byte, error, bool, int) {
		mu.Lock()
		defer mu.Unlock()
		return append([]byte(nil), got...), rdErr, rdDone, len(evs)
	}
	// safety clause, checked at every quiescent point: what the application has read is a prefix of
	// the concatenation of the non-heartbeat messages
	checkPrefix := func() bool {
		g, _, _, _ := snapshot()
		if len(g) <= len(want) && bytes.Equal(g, want[:len(g)]) {
			return true
		}
		k := 0
		for k < len(g) && k < len(want) && g[k] == want[k] {
			k++
		}
		rest := g[k:]
		if len(rest) > len(hbp) {
			rest = rest[:len(hbp)]
		}
		if nHB > 0 && len(rest) > 0 && bytes.HasPrefix(hbp, rest) {
			return !r.Fail("C16/stream/heartbeat-surfaced", "bytes returned by Read diverge from the peer's data at offset %d where a heartbeat payload begins: read %s, peer sent %s", k, sim.Hex(g, 48), sim.Hex(want, 48))
		}
		return !r.Fail("C16/stream/bytes-differ", "bytes returned by Read are not a prefix of the peer's messages (first difference at offset %d): read %s, peer sent %s", k, sim.Hex(g, 48), sim.Hex(want, 48))
	}

	if c.pace == 0 {
		startReader()
		synctest.Wait()
		for i, it := range items {
			logf("feed #%d %s", i, c16DescribeItems([]c16Item{it}))
			st.Feed(it)
			synctest.Wait()
			sim.Tick()
			if !checkPrefix() {
				return
			}
		}
	} else {
		for _, it := range items {
			st.Feed(it)
		}
		logf("fed all %d items before the application reads", len(items))
		synctest.Wait()
		startReader()
		synctest.Wait()
		if !checkPrefix() {
			return
		}
	}
	sim.Tick()
	r.Nontrivial()
	g, e, done, nev := snapshot()
	if amplified && len(g) < len(want) {
		logf("application got an error before all %d bytes", len(want))
	} else {
		logf("application read %d bytes in %d reads, error=%v", len(g), nev, e != nil)
	}
	if st.short > 0 {
		r.Fail("C16/stream/short-internal-buffer", "the stack read the message stream with a buffer smaller than a message of permitted size (%d times): the message is lost", st.short)
		return
	}
	if hasErr {
		r.Probe("stream/error-" + errKind)
		if len(g) < len(want) {
			missing := len(want) - len(g)
			if e != nil && amplified && !(errKind == "with-data" && missing == len(items[len(items)-1].data)) {
				// how much was lost depends on the runtime's select: keep numbers out of the message
				r.Probe("stream/closed-with-queued-data")
				if r.Fail("C16/stream/error-overtakes-queued-data", "the stream failed after %d data messages that were queued for the application; Read reported an error before it had returned all of the %d data bytes that arrived before the error (hbConn.Read chooses at random between its closed signal and its receive queue)", nData, len(want)) {
					return
				}
				return
			}
			if e != nil {
				sig := "C16/stream/data-before-error-lost"
				if errKind == "with-data" && errPos >= 0 && errPos < n && c.kinds[errPos] != c16KindHB && missing == c16MsgSize(c.kinds[errPos], c.max) {
					sig = "C16/stream/data-with-error-dropped"
				}
				if r.Fail(sig, "Read reported the stream error after %d of %d data bytes: %d bytes that arrived before / together with the error were never returned (error seen by the application: %v)", len(g), len(want), missing, e) {
					return
				}
			} else if r.Fail("C16/stream/stalled-before-error", "after the stream failed the application has %d of %d data bytes and no error (reader blocked)", len(g), len(want)) {
				return
			}
		}
		if e == nil && len(g) == len(want) {
			if r.Fail("C16/stream/error-not-reported", "the stream failed but Read neither returned the error nor any other error (reader blocked=%v)", !done) {
				return
			}
		}
		return
	}
	// no stream error: everything must have been delivered, and no error reported
	if e != nil {
		r.Fail("C16/stream/spurious-error", "no stream error was injected, but Read returned %v after %d of %d bytes", e, len(g), len(want))
		return
	}
	if len(g) != len(want) {
		r.Fail("C16/stream/data-missing", "all messages were delivered to the stack, the application read only %d of %d bytes (reader stalled=%v)", len(g), len(want), !done)
		return
	}
	if closed, _ := st.isClosed(); closed {
		r.Fail("C16/stream/spurious-close", "the stack closed the stream although no error occurred")
		return
	}
}

func c16DescribeItems(items []c16Item) string {
	s := "["
	for i, it := range items {
		if i > 0 {
			s += " "
		}
		switch {
		case it.hb:
			s += "HB"
		case it.data != nil:
			s += fmt.Sprintf("D%d", len(it.data))
		}
		if it.err != nil {
			if it.data != nil {
				s += "+"
			}
			s += "ERR"
		}
	}
	return s + "]"
}
