package liveness

// Auxiliary run for C18's capacity / eviction clauses under real concurrency.
//
// The deterministic worlds park tasks BEFORE lock acquisitions only, so an
// interleaving that needs one goroutine to be inside a critical section while
// another one runs (a TryLock that fails, an unlocked access) is out of their
// reach. This run lets goroutines run freely (no scheduler, real time, outside
// any bubble) against caches of small capacity and judges the quiescent state:
// statistical, reported separately from the deterministic part, never the only
// evidence for a clause.

import (
	"fmt"
	"os"
	"strconv"
	"sync"
	"testing"
)

func TestVerifC18Aux(t *testing.T) {
	if os.Getenv("VERIF_PROP") != "C18AUX" {
		t.Skip("auxiliary stress run is driven by /verif/bin/check C18")
	}
	iters, _ := strconv.Atoi(os.Getenv("VERIF_RUNS"))
	if iters == 0 {
		iters = 200
	}
	for it := 0; it < iters; it++ {
		capLive, capNon := 1+it%4, 1+(it/4)%4
		// every other iteration: verdicts expire while the goroutines run (real time), so that the clean-up
		// really removes entries beside the insertions and evictions
		life := "1h"
		if it%2 == 1 {
			// (capacities just below the 20 hosts of each kind: entries live long enough to expire, and
			// insertions still evict)
			life = "4ms"
			capLive, capNon = 6+it%8, 6+(it/8)%8
		}
		conf := &Config{CacheDuration: life, CacheCapacity: capLive, CacheDurationNonLive: life, CacheCapacityNonLive: capNon}
		blt := &CachedLivenessTester{stats: &stats{}}
		if err := blt.Init(conf); err != nil {
			t.Fatalf("Init: %v", err)
		}
		// hosts with an even index are live
		blt.phantomIsLive = func(address string) (bool, error) {
			var i int
			fmt.Sscanf(address, "10.0.0.%d:", &i)
			if i%2 == 0 {
				return true, ErrLiveHost
			}
			return false, NotLive
		}
		var wg sync.WaitGroup
		// readers that keep asking for one cached host: somebody is inside a read-locked section of a
		// cache nearly all the time while the others insert and evict
		stop := make(chan struct{})
		var hot sync.WaitGroup
		blt.PhantomIsLive("10.0.0.38", 443)
		blt.PhantomIsLive("10.0.0.39", 443)
		for g := 0; g < 4; g++ {
			g := g
			hot.Add(1)
			go func() {
				defer hot.Done()
				for {
					select {
					case <-stop:
						return
					default:
						blt.PhantomIsLive(fmt.Sprintf("10.0.0.%d", 38+g%2), 443)
					}
				}
			}()
		}
		if it%2 == 1 {
			// the clean-up runs all the time beside the insertions (the station's ticker calls it while
			// registrations arrive); it stops with the readers, so what it did last is still there
			for g := 0; g < 2; g++ {
				hot.Add(1)
				go func() {
					defer hot.Done()
					for {
						select {
						case <-stop:
							return
						default:
							blt.ClearExpiredCache()
						}
					}
				}()
			}
		}
		for g := 0; g < 6; g++ {
			g := g
			wg.Add(1)
			go func() {
				defer wg.Done()
				nq := 60
				if it%2 == 1 {
					nq = 400 // the run outlasts the lifetime several times
				}
				for k := 0; k < nq; k++ {
					blt.PhantomIsLive(fmt.Sprintf("10.0.0.%d", (g*7+k*3)%40), 443)
					if k%16 == 15 || (it%2 == 1 && k%3 == 2) {
						blt.ClearExpiredCache()
					}
				}
			}()
		}
		wg.Wait()
		close(stop)
		hot.Wait()
		// quiescent: nothing in flight
		for name, c := range map[string]cache{"live": blt.ipCacheLive, "nonlive": blt.ipCacheNonLive} {
			limit := map[string]int{"live": capLive, "nonlive": capNon}[name]
			if c != nil && c.Len() > limit {
				fmt.Printf("C18AUX-VIOLATION C18/bound/%s/aux-concurrent: with nothing in flight the %s cache holds %d verdicts, its configured capacity is %d (6 goroutines x 60 queries over 40 hosts, 4 readers spinning on two cached hosts)\n", name, name, c.Len(), limit)
				return
			}
		}
	}
}
