package liveness

// C18 — liveness world: the real CachedLivenessTester / UncachedLivenessTester,
// the real map and LRU caches and the real New(Config) / Init(Config) under the
// bubble's clock, with a scripted probe function (the testers' unexported
// phantomIsLive field) in front of a table of host states.
//
// Oracle = measurement-history model. Every call of the scripted probe is a
// measurement (address, completion time, verdict). What the property licenses:
//
//   * an answer given WITHOUT a probe call ("from the cache") needs a
//     measurement of that address with that verdict that completed less than
//     the lifetime configured for that verdict's cache before the query
//     (live lifetime for a live verdict, non-live lifetime for a non-live one);
//   * with a capacity configured for that verdict's cache the entry must not be
//     certainly evicted under an LRU recency model (>= capacity other addresses
//     touched in that cache since this address was last touched);
//   * an answer given WITH a probe call is the probe's verdict, the probe was
//     called exactly once and for the address (and port) that was asked;
//   * with a capacity configured a cache holds at most that many entries at
//     every quiescent point (map AND LRU, live AND non-live).
//
// Explicit don't-cares: cache hits are never demanded (the property says "only
// if"); the returned error value; which of several in-lifetime measurements is
// served when two probes of one address overlapped (counted as a probe, not
// judged); ages strictly between a lifetime and the lifetime + 1 ms; ports (verdicts are per address, as
// in the property; the port only has to reach the probe unchanged).

import (
	"fmt"
	"net"
	"os"
	"reflect"
	"runtime"
	"strconv"
	"strings"
	"sync"
	"syscall"
	"testing"
	"time"
	"unsafe"

	lru "github.com/hashicorp/golang-lru"

	"verif/sim"
	"verif/sim/hook"
)

var c18Addrs = []string{"192.0.2.1", "192.0.2.2", "2001:db8::3", "198.51.100.4", "203.0.113.5", "2001:db8::6"}
var c18Ports = []int{443, 80}
var c18VName = [2]string{"nonlive", "live"}

// ---------------------------------------------------------------------------
// golang-lru: does the eviction callback run under the library's own mutex?

var (
	c18EvictOnce      sync.Once
	c18EvictUnderLock bool
	c18EvictNote      string
)

func c18LibLock(c *lru.Cache) *sync.RWMutex {
	f := reflect.ValueOf(c).Elem().FieldByName("lock")
	if !f.IsValid() || f.Type() != reflect.TypeOf(sync.RWMutex{}) || !f.CanAddr() {
		return nil
	}
	return (*sync.RWMutex)(unsafe.Pointer(f.UnsafeAddr()))
}

// c18DetectEvict evicts one entry from a throw-away cache of the linked
// golang-lru version and looks, from inside the callback, whether the
// library's (native) mutex is held. Parking a task there would hang
// synctest.Wait, so the answer decides whether the scheduler must treat the
// callback as a no-parking context.
func c18DetectEvict() {
	c18EvictOnce.Do(func() {
		var c *lru.Cache
		held, called, unknown := false, false, false
		c, err := lru.NewWithEvict(1, func(k, v interface{}) {
			called = true
			mu := c18LibLock(c)
			if mu == nil {
				unknown = true
				return
			}
			if mu.TryLock() {
				mu.Unlock()
			} else {
				held = true
			}
		})
		if err != nil {
			c18EvictUnderLock, c18EvictNote = true, "golang-lru: cannot construct a cache ("+err.Error()+"); eviction callback treated as a no-parking context"
			return
		}
		c.Add("a", 1)
		c.Add("b", 2)
		switch {
		case !called || unknown:
			c18EvictUnderLock, c18EvictNote = true, "golang-lru: could not determine whether the eviction callback runs under the library mutex; treated as a no-parking context"
		case held:
			c18EvictUnderLock, c18EvictNote = true, "golang-lru calls the eviction callback while holding its own mutex: the callback is a no-parking context"
		default:
			c18EvictNote = "golang-lru calls the eviction callback after releasing its own mutex: the callback's lock operation is an ordinary scheduling point"
		}
		if os.Getenv("VERIF_C18_FORCE_SUPPRESS") != "" {
			c18EvictUnderLock = true
		}
	})
}

func c18InEvictCallback() bool {
	var pcs [32]uintptr
	n := runtime.Callers(2, pcs[:])
	fr := runtime.CallersFrames(pcs[:n])
	for {
		f, more := fr.Next()
		if strings.Contains(f.Function, "liveness.newLRUCache.func") {
			return true
		}
		if !more {
			return false
		}
	}
}

// ---------------------------------------------------------------------------
// configuration

type c18Conf struct {
	durLive, durNon string
	capLive, capNon int
	ctor            int // 0 = liveness.New, 1 = (&CachedLivenessTester{}).Init
}

func (c c18Conf) String() string {
	return fmt.Sprintf("cache_expiration_time=%q cache_capacity=%d cache_expiration_nonlive=%q cache_capacity_nonlive=%d ctor=%s",
		c.durLive, c.capLive, c.durNon, c.capNon, []string{"New", "Init"}[c.ctor])
}

// duration strings as a TOML file would give them; index 0 is the simplest
var c18DurLive = []string{"10s", "", "10s", "10s", "3s", "1m", "1500ms", "2h", "1m30s", "10s", "", "0s", "-5s", "abc", "10", "3s"}
var c18DurNon = []string{"3s", "", "3s", "3s", "10s", "1m", "1500ms", "2h", "45s", "3s", "", "0s", "-5s", "1 s", "7", "10s"}
var c18Caps = []int{0, 1, 2, 3, 4, 0, 1, 2, 0, 1, 2, -1}

type c18Op struct {
	kind int // 0 query, 1 flip, 2 advance/sleep, 3 ClearExpiredCache
	a    int
	port int
	d    time.Duration
}

func (o c18Op) String() string {
	switch o.kind {
	case 0:
		return fmt.Sprintf("query A%d:%d", o.a, o.port)
	case 1:
		return fmt.Sprintf("flip A%d", o.a)
	case 2:
		return fmt.Sprintf("advance %v", o.d)
	}
	return "ClearExpiredCache"
}

// ---------------------------------------------------------------------------
// world

type c18Meas struct {
	addr       int
	start, end time.Time
	live       bool
}

type c18Call struct {
	addr, port int
	start      time.Time
	nmeas      int // measurements completed before the query began
	n          int
	verdict    bool
	wrong      string
}

type c18World struct {
	r       *sim.Run
	conf    c18Conf
	life    [2]time.Duration // [0] non-live, [1] live
	enabled [2]bool
	capc    [2]int
	tester  Tester
	clt     *CachedLivenessTester
	naddr   int
	probeD  time.Duration
	realNet int // 0 scripted probe; 1.. = the real phantomIsLive over a scripted dial seam
	conc    bool

	mu       sync.Mutex // native; never held across a parking point
	hosts    []bool
	meas     []c18Meas
	calls    map[string]*c18Call
	inflight int
	touches  [2][]int
	invalid  [2]map[int]int // per cache: address -> touches before this index no longer prove presence (see clear)
	dials    int

	// ClearExpiredCache bookkeeping for the scheduler (see suppress)
	clearing     map[string]bool
	clearAtomic  map[string]bool
	nclearing    int
	hits, probes int
	stop         bool
}

// c18Entries counts what a cache holds, in-package, without the package's locks
// (only called when no task is inside a critical section).
func c18Entries(c cache) (n int, impl string, lruN int) {
	switch x := c.(type) {
	case *lruCache:
		if x == nil {
			return 0, "nil-lru", 0
		}
		return len(x.ipCache), "lru", x.lru.Len()
	case *mapCache:
		if x == nil {
			return 0, "nil-map", 0
		}
		return len(x.ipCache), "map", 0
	}
	return 0, "none", 0
}

func c18Expired(c cache) int {
	x, ok := c.(*lruCache)
	if !ok || x == nil {
		return 0
	}
	n := 0
	for _, e := range x.ipCache {
		if time.Since(e.cachedTime) > x.expiration {
			n++
		}
	}
	return n
}

func (w *c18World) cacheOf(v int) cache {
	if w.clt == nil {
		return nil
	}
	if v == 1 {
		return w.clt.ipCacheLive
	}
	return w.clt.ipCacheNonLive
}

// c18NewWorld builds the tester through the package's own constructor. ok=false:
// the configuration was rejected (a fine outcome; the run ends).
func c18NewWorld(r *sim.Run, conf c18Conf, naddr int, hosts []bool) (*c18World, bool) {
	w := &c18World{r: r, conf: conf, naddr: naddr, hosts: append([]bool(nil), hosts...), calls: map[string]*c18Call{},
		clearing: map[string]bool{}, clearAtomic: map[string]bool{}, invalid: [2]map[int]int{{}, {}}}
	for v, s := range [2]string{conf.durNon, conf.durLive} {
		if s == "" {
			continue
		}
		if d, err := time.ParseDuration(s); err == nil {
			w.life[v], w.enabled[v] = d, true
		}
	}
	w.capc = [2]int{conf.capNon, conf.capLive}
	tc := &Config{CacheDuration: conf.durLive, CacheCapacity: conf.capLive, CacheDurationNonLive: conf.durNon, CacheCapacityNonLive: conf.capNon}
	var err error
	if conf.ctor == 1 {
		clt := &CachedLivenessTester{stats: &stats{}}
		err = clt.Init(tc)
		w.tester = clt
	} else {
		w.tester, err = New(tc)
	}
	r.Logf("config %v -> %T err=%v", conf, w.tester, err)
	if err != nil {
		r.Cover("init-error")
		r.Fault("malformed-duration-in-config")
		return w, false
	}
	switch t := w.tester.(type) {
	case *CachedLivenessTester:
		t.phantomIsLive = w.probe
		w.clt = t
	case *UncachedLivenessTester:
		t.phantomIsLive = w.probe
	default:
		r.Fail("harness/c18-tester-type", "unexpected tester type %T", w.tester)
		return w, false
	}
	_, il, _ := c18Entries(w.cacheOf(1))
	_, in, _ := c18Entries(w.cacheOf(0))
	r.Logf("caches: live=%s nonlive=%s", il, in)
	r.Cover(conf.String())
	return w, true
}

var c18ErrRefused = &net.OpError{Op: "dial", Net: "tcp", Err: os.NewSyscallError("connect", syscall.ECONNREFUSED)}

type c18Timeout struct{}

func (c18Timeout) Error() string   { return "i/o timeout" }
func (c18Timeout) Timeout() bool   { return true }
func (c18Timeout) Temporary() bool { return true }

// probe is the scripted measurement (or, in the real-network variants, the
// package's own phantomIsLive over a scripted dial seam).
func (w *c18World) probe(address string) (bool, error) {
	if w.conc {
		hook.Yield("probe")
	}
	task := "seq"
	if w.conc {
		task = hook.TaskName()
	}
	host, port, _ := net.SplitHostPort(address)
	w.mu.Lock()
	c := w.calls[task]
	if c == nil {
		w.mu.Unlock()
		w.r.Fail("harness/c18-probe-outside-query", "probe(%s) called by %q outside any query", address, task)
		return false, NotLive
	}
	c.n++
	idx := -1
	for i, a := range c18Addrs {
		if a == host {
			idx = i
		}
	}
	if idx != c.addr || port != strconv.Itoa(c.port) {
		c.wrong = address
	}
	live := idx >= 0 && idx < len(w.hosts) && w.hosts[idx]
	start := time.Now()
	w.mu.Unlock()
	var err error
	if w.realNet > 0 {
		live, err = phantomIsLive(address)
	} else {
		if w.probeD > 0 {
			w.r.Fault("slow-probe")
			time.Sleep(w.probeD)
			if w.conc {
				hook.Yield("probe-done")
			}
		}
		switch {
		case !live && c.n%2 == 0:
			err = fmt.Errorf("%w %v", NotLive, 750*time.Millisecond)
		case !live:
			err = NotLive
		case c.port == 80:
			err = c18ErrRefused
		default:
			err = ErrLiveHost
		}
	}
	w.mu.Lock()
	w.meas = append(w.meas, c18Meas{addr: idx, start: start, end: time.Now(), live: live})
	c.verdict = live
	w.probes++
	w.mu.Unlock()
	w.r.Logf("    probe(%s)%s -> live=%v", address, c18By(task), live)
	return live, err
}

func c18By(task string) string {
	if task == "" || task == "seq" {
		return ""
	}
	return " by " + task
}

// dial is the scripted network below the real phantomIsLive (variants 1..3).
func (w *c18World) dial(network, address string) (net.Conn, error) {
	host, _, _ := net.SplitHostPort(address)
	w.mu.Lock()
	w.dials++
	live := false
	for i, a := range c18Addrs {
		if a == host && i < len(w.hosts) {
			live = w.hosts[i]
		}
	}
	w.mu.Unlock()
	w.r.Fault([]string{"dial-accepted", "dial-refused", "dial-timeout", "dial-black-hole"}[func() int {
		switch {
		case live && w.realNet == 1:
			return 0
		case live:
			return 1
		case w.realNet == 3:
			return 3
		}
		return 2
	}()])
	switch {
	case live && w.realNet == 1:
		a, b := net.Pipe()
		b.Close()
		return a, nil
	case live:
		return nil, c18ErrRefused
	case w.realNet == 3:
		// black hole: the SYN is never answered; the dial gives up long after the prober stopped waiting
		time.Sleep(2 * time.Second)
		return nil, &net.OpError{Op: "dial", Net: network, Err: c18Timeout{}}
	}
	return nil, &net.OpError{Op: "dial", Net: network, Err: c18Timeout{}}
}

func (w *c18World) touch(v, a int) { w.touches[v] = append(w.touches[v], a) }

// certainlyEvicted: LRU recency model — at least capacity OTHER addresses were
// touched (measured with this verdict, or answered from this cache) after the
// last touch of a, and none of those can have been removed by a clean-up since
// (see clear). Every such address was in the LRU list at its touch and is more
// recent than a; eviction removes the least recent first, so if a were still
// held, all of them would be held too: capacity+1 entries. Expired or phantom
// entries of the implementation can only make eviction come earlier.
func (w *c18World) certainlyEvicted(v, a int) (bool, int) {
	if !(w.enabled[v] && w.capc[v] > 0) {
		return false, 0
	}
	seen := map[int]bool{}
	for i := len(w.touches[v]) - 1; i >= 0; i-- {
		b := w.touches[v][i]
		if b == a {
			return len(seen) >= w.capc[v], len(seen)
		}
		if i >= w.invalid[v][b] {
			seen[b] = true
		}
	}
	return false, len(seen) // never touched: judged by the measurement clauses
}

// afterClear: ClearExpiredCache may have removed every entry whose verdict was
// stored at least lifetime-1ms ago; earlier touches of such addresses no longer
// prove that they occupy a slot.
func (w *c18World) afterClear() {
	now := time.Now()
	for v := 0; v < 2; v++ {
		if !(w.enabled[v] && w.capc[v] > 0) {
			continue
		}
		for a := 0; a < w.naddr; a++ {
			safe := false
			for i := len(w.meas) - 1; i >= 0; i-- {
				if m := w.meas[i]; m.addr == a && b2i(m.live) == v {
					safe = now.Sub(m.end) < w.life[v]-time.Millisecond
					break
				}
			}
			if !safe {
				w.invalid[v][a] = len(w.touches[v])
			}
		}
	}
}

func b2i(b bool) int {
	if b {
		return 1
	}
	return 0
}

// query performs one PhantomIsLive call and judges the answer.
func (w *c18World) query(task string, a, port int) bool {
	w.mu.Lock()
	c := &c18Call{addr: a, port: port, start: time.Now(), nmeas: len(w.meas)}
	w.calls[task] = c
	w.inflight++
	w.mu.Unlock()

	live, err := w.tester.PhantomIsLive(c18Addrs[a], uint16(port))

	w.mu.Lock()
	defer w.mu.Unlock()
	w.inflight--
	delete(w.calls, task)
	r := w.r
	v := b2i(live)
	how := "probed"
	if c.n == 0 {
		how = "from-cache"
	}
	r.Logf("  query A%d:%d%s -> live=%v %s err=%v", a, port, c18By(task), live, how, err)

	if c.n >= 1 {
		if c.n > 1 {
			return !r.Fail("C18/probe/called-more-than-once", "query A%d:%d made %d probe calls", a, port, c.n)
		}
		if c.wrong != "" {
			return !r.Fail("C18/probe/wrong-target", "query for %s port %d probed %q", c18Addrs[a], port, c.wrong)
		}
		if live != c.verdict {
			return !r.Fail("C18/probe/verdict-not-returned", "query A%d:%d: the probe measured live=%v but the answer is live=%v", a, port, c.verdict, live)
		}
		// coverage: why was it probed?
		prev, fresh := false, false
		changed := false
		for _, m := range w.meas[:c.nmeas] {
			if m.addr != a {
				continue
			}
			prev = true
			mv := b2i(m.live)
			if w.enabled[mv] && c.start.Sub(m.end) < w.life[mv] {
				fresh = true
				if !w.conc {
					if ev, _ := w.certainlyEvicted(mv, a); ev {
						r.Probe("reprobe_after_eviction")
					}
				}
			}
			changed = m.live != live
		}
		if prev {
			r.Nontrivial()
			if !fresh {
				r.Probe("reprobe_after_expiry")
			}
			if changed {
				r.Probe("verdict_changed_on_reprobe")
			}
		}
		if !w.conc && w.enabled[v] && w.capc[v] > 0 {
			w.touch(v, a)
		}
		return true
	}

	// answered without a probe call
	w.hits++
	r.Nontrivial()
	r.Probe("cached_answer_" + c18VName[v])
	if !w.enabled[v] {
		return !r.Fail("C18/cached-answer/cache-disabled/"+c18VName[v], "query A%d:%d answered live=%v without a probe although no lifetime is configured for %s verdicts (%v)", a, port, live, c18VName[v], w.conf)
	}
	any, same, ok, border, newest := false, false, false, false, -1
	var bestAge time.Duration
	for i, m := range w.meas {
		if m.addr != a {
			continue
		}
		any = true
		newest = i
		if m.live != live {
			continue
		}
		// freshest moment of this measurement inside the query interval
		age := c.start.Sub(m.end)
		if age < 0 {
			age = 0
		}
		if !same || age < bestAge {
			bestAge = age
		}
		same = true
		if age < w.life[v] {
			ok = true
		} else if age > w.life[v] && age < w.life[v]+time.Millisecond {
			// (an age of exactly the lifetime is judged: "less than the lifetime ago" excludes it)
			border = true
		}
	}
	switch {
	case !any:
		return !r.Fail("C18/unmeasured/"+c18VName[v], "query A%d:%d answered live=%v without a probe, but this address was never measured", a, port, live)
	case !same:
		return !r.Fail("C18/flipped/"+c18VName[v], "query A%d:%d answered live=%v without a probe, but every measurement of this address said live=%v", a, port, live, !live)
	case !ok && border:
		r.Cover("borderline-age")
	case !ok:
		return !r.Fail("C18/stale/"+c18VName[v], "query A%d:%d answered live=%v without a probe; the youngest such measurement is %v old, the configured lifetime for %s verdicts is %v", a, port, live, bestAge, c18VName[v], w.life[v])
	}
	if w.meas[newest].live != live {
		// a newer measurement said the opposite; only overlapping probes can do this
		r.Probe("served_while_newer_measurement_differs")
	}
	if !w.conc {
		if ev, others := w.certainlyEvicted(v, a); ev {
			_, impl, _ := c18Entries(w.cacheOf(v))
			return !r.Fail("C18/served-evicted/"+c18VName[v]+"/impl-"+impl, "query A%d:%d answered live=%v from the %s cache (capacity %d), but %d other addresses were measured/answered there since A%d was last touched: the entry must have been evicted", a, port, live, c18VName[v], w.capc[v], others, a)
		}
		if w.enabled[v] && w.capc[v] > 0 {
			w.touch(v, a)
		}
	}
	return true
}

// checkBound: with a capacity configured a cache never holds more entries.
func (w *c18World) checkBound(when string) bool {
	for v := 1; v >= 0; v-- {
		n, impl, lruN := c18Entries(w.cacheOf(v))
		if !(w.enabled[v] && w.capc[v] > 0) {
			continue
		}
		if n > w.capc[v] || lruN > w.capc[v] {
			if w.r.Fail("C18/bound/"+c18VName[v]+"/impl-"+impl, "%s: the %s cache holds %d verdicts (LRU list %d) but its configured capacity is %d (%v)", when, c18VName[v], n, lruN, w.capc[v], w.conf) {
				return false
			}
		}
		if n == w.capc[v] {
			w.r.Probe("cache_full_at_capacity")
		}
	}
	if n1, _, _ := c18Entries(w.cacheOf(1)); n1 > 0 {
		if n0, _, _ := c18Entries(w.cacheOf(0)); n0 > 0 {
			w.r.Cover("both-caches-populated")
		}
	}
	return true
}

func (w *c18World) flip(a int) {
	w.mu.Lock()
	w.hosts[a] = !w.hosts[a]
	st := w.hosts[a]
	w.mu.Unlock()
	w.r.Fault("host-state-flip")
	w.r.Logf("  flip A%d -> live=%v", a, st)
}

func (w *c18World) clear(task string) {
	if w.clt == nil {
		w.r.Logf("  ClearExpiredCache%s: not a cached tester", c18By(task))
		return
	}
	b1, _, _ := c18Entries(w.cacheOf(1))
	b0, _, _ := c18Entries(w.cacheOf(0))
	w.mu.Lock()
	w.clearing[task] = true
	w.nclearing++
	w.inflight++
	w.mu.Unlock()
	w.clt.ClearExpiredCache()
	w.mu.Lock()
	delete(w.clearing, task)
	delete(w.clearAtomic, task)
	w.nclearing--
	w.inflight--
	w.mu.Unlock()
	a1, _, _ := c18Entries(w.cacheOf(1))
	a0, _, _ := c18Entries(w.cacheOf(0))
	if !w.conc {
		w.afterClear()
		w.r.Logf("  ClearExpiredCache: live %d->%d nonlive %d->%d", b1, a1, b0, a0)
		if a1 < b1 || a0 < b0 {
			w.r.Probe("clear_removed_entries")
		}
	} else {
		w.r.Logf("  ClearExpiredCache by %s done", task)
	}
}

// suppress is the scheduler's "no parking here" predicate.
//
//  1. If the linked golang-lru runs the eviction callback under its own mutex,
//     the callback is a no-parking context (see c18DetectEvict).
//  2. lruCache.ClearExpired removes the expired keys in Go map iteration order.
//     With two or more expired keys that order is the runtime's, not the
//     tape's; letting other tasks run between the removals would make a run
//     irreproducible. The removals of such a call are therefore executed as one
//     atomic step (the final state does not depend on the order). With exactly
//     one expired key the callback stays an ordinary scheduling point.
func (w *c18World) suppress() bool {
	if c18EvictUnderLock && c18InEvictCallback() {
		return true
	}
	w.mu.Lock()
	n := w.nclearing
	w.mu.Unlock()
	if n == 0 {
		return false
	}
	task := hook.TaskName()
	w.mu.Lock()
	in, atomic := w.clearing[task], w.clearAtomic[task]
	w.mu.Unlock()
	if !in {
		return false
	}
	if atomic {
		return true
	}
	if !c18InEvictCallback() {
		return false
	}
	// first callback of a removal loop: it runs in the same atomic step as the
	// getExpired that produced the list, so counting now gives the list length
	if c18Expired(w.cacheOf(1)) >= 2 || c18Expired(w.cacheOf(0)) >= 2 {
		w.mu.Lock()
		w.clearAtomic[task] = true
		w.mu.Unlock()
		w.r.Cover("clear-removals-atomic")
		w.r.Probe("clear_multi_key_removal_made_atomic")
		return true
	}
	return false
}

// ---------------------------------------------------------------------------
// sequential part

// lifetimes used by the systematic part
const c18L, c18N = 10 * time.Second, 3 * time.Second

func c18SysConfs(full bool) []c18Conf {
	maxCap := 2
	if full {
		maxCap = 3 // four addresses: capacities 1..3 can be exceeded
	}
	var cs []c18Conf
	for _, d := range [][2]string{{"10s", "3s"}, {"10s", ""}, {"", "3s"}} {
		for cl := 0; cl <= maxCap; cl++ {
			for cn := 0; cn <= maxCap; cn++ {
				cs = append(cs, c18Conf{durLive: d[0], durNon: d[1], capLive: cl, capNon: cn})
			}
		}
	}
	// no lifetime at all: the uncached tester (capacities must then be irrelevant)
	cs = append(cs, c18Conf{}, c18Conf{capLive: 1, capNon: 1}, c18Conf{ctor: 1})
	return cs
}

func c18SysOps(full bool) (int, []c18Op) {
	if !full {
		return 3, []c18Op{{kind: 0, a: 0, port: 443}, {kind: 0, a: 1, port: 443}, {kind: 0, a: 2, port: 443}, {kind: 1, a: 0},
			{kind: 2, d: c18N}, {kind: 2, d: c18L}, {kind: 3}} // exactly one lifetime: no longer "less than the lifetime ago"
	}
	return 4, []c18Op{{kind: 0, a: 0, port: 443}, {kind: 0, a: 1, port: 443}, {kind: 0, a: 2, port: 443}, {kind: 0, a: 3, port: 443}, {kind: 0, a: 0, port: 80},
		{kind: 1, a: 0},
		{kind: 2, d: time.Second + 7*time.Millisecond}, {kind: 2, d: c18N - time.Millisecond}, {kind: 2, d: c18N},
		{kind: 2, d: c18L - time.Millisecond}, {kind: 2, d: c18L}, {kind: 3}}
}

const c18SysLen = 5

func (w *c18World) seqOp(op c18Op) (ok bool) {
	defer func() {
		if p := recover(); p != nil {
			w.r.Fail("C18/panic/"+[]string{"query", "flip", "advance", "clear"}[op.kind], "%v: panic: %v", op, p)
			ok = false
		}
	}()
	switch op.kind {
	case 0:
		if !w.query("seq", op.a, op.port) {
			return false
		}
	case 1:
		w.flip(op.a)
	case 2:
		time.Sleep(op.d)
		w.r.Logf("  advance %v", op.d)
	case 3:
		w.clear("seq")
	}
	return w.checkBound("after " + op.String())
}

// c18Sequential runs a history as the only task of a scheduler whose locks are
// emulated but are not scheduling points: the history stays sequential and
// cheap, but a query that blocks on one of the package's own mutexes (for
// instance from inside the LRU eviction callback) is seen as a deadlock
// instead of wedging the process.
func c18Sequential(r *sim.Run, systematic bool) {
	s := hook.Install(r.Tape)
	defer s.Uninstall()
	s.LockYield = false
	s.Spawn("seq", func() {
		defer func() {
			if p := recover(); p != nil {
				r.Fail("C18/panic/setup", "panic outside an operation: %v", p)
			}
		}()
		c18SequentialBody(r, systematic)
	})
	st := sim.Drive(r, s, sim.DriveOpt{Horizon: 200000 * time.Hour, MaxSteps: 1 << 30})
	defer s.Finish()
	switch st {
	case sim.AllExited, sim.Failed:
	case sim.Deadlock:
		r.Fail("C18/deadlock", "a sequential history blocked for ever: %s", s.WaitForGraph())
	default:
		r.Fail("C18/not-finished", "sequential history did not complete (%v): %v", st, s.LiveNames())
	}
}

func c18SequentialBody(r *sim.Run, systematic bool) {
	tp := r.Tape
	var w *c18World
	var ok bool
	if systematic {
		full := tp.Choose("alphabet", 2) == 1
		confs := c18SysConfs(full)
		conf := confs[tp.Choose("conf", len(confs))]
		naddr, ops := c18SysOps(full)
		hosts := make([]bool, naddr)
		if tp.Choose("hosts", 2) == 1 {
			for i := range hosts {
				hosts[i] = true
			}
		}
		r.Logf("C18 sequential/systematic full=%v hosts-live=%v", full, hosts)
		if w, ok = c18NewWorld(r, conf, naddr, hosts); !ok {
			return
		}
		if w.clt == nil {
			r.Cover("uncached")
		}
		for i := 0; i < c18SysLen; i++ {
			k := tp.Choose("op", len(ops))
			r.CoverU(uint64(k))
			if !w.seqOp(ops[k]) {
				return
			}
		}
		return
	}

	conf := c18Conf{durLive: c18DurLive[tp.Choose("durLive", len(c18DurLive))], capLive: c18Caps[tp.Choose("capLive", len(c18Caps))],
		durNon: c18DurNon[tp.Choose("durNon", len(c18DurNon))], capNon: c18Caps[tp.Choose("capNon", len(c18Caps))], ctor: tp.Choose("ctor", 2)}
	naddr := 4 + tp.Choose("naddr", 3)
	hosts := make([]bool, naddr)
	hb := tp.Choose("hosts", 1<<uint(naddr))
	for i := range hosts {
		hosts[i] = hb>>uint(i)&1 == 1
	}
	variant := []int{0, 0, 0, 0, 1, 2, 3, 0}[tp.Choose("probe-kind", 8)]
	probeD := []time.Duration{0, 0, 750 * time.Millisecond, 40 * time.Millisecond}[tp.Choose("probe-duration", 4)]
	r.Logf("C18 sequential/random naddr=%d hosts-live=%v probe-variant=%d probe-duration=%v", naddr, hosts, variant, probeD)
	if w, ok = c18NewWorld(r, conf, naddr, hosts); !ok {
		r.Probe("config_rejected")
		return
	}
	w.probeD = probeD
	if variant > 0 {
		w.realNet = variant
		hook.SetNetSeams(w.dial, nil, nil)
		defer func() {
			// let black-holed dials of the last probes return before the bubble closes
			time.Sleep(5 * time.Second)
			hook.ClearNetSeams()
		}()
		r.Cover("real-phantomIsLive")
	}
	if w.clt == nil {
		r.Probe("uncached_tester")
	}
	// time steps relative to the configured lifetimes: 1 ms below, 1 ms above and exactly the lifetime
	deltas := []time.Duration{time.Second + 7*time.Millisecond, 250*time.Millisecond + 3*time.Millisecond}
	big := 5 * time.Second
	for v := 1; v >= 0; v-- {
		if w.enabled[v] && w.life[v] > 2*time.Millisecond {
			deltas = append(deltas, w.life[v]-time.Millisecond, w.life[v]+time.Millisecond, w.life[v]/2+time.Millisecond, w.life[v])
			if w.life[v] > big {
				big = w.life[v]
			}
		}
	}
	deltas = append(deltas, 3*big+13*time.Millisecond)
	// one draw per operation (so that the minimiser removes whole operations); index 0 = query A0:443
	var table []c18Op
	for rep := 0; rep < 2; rep++ {
		for a := 0; a < naddr; a++ {
			table = append(table, c18Op{kind: 0, a: a, port: 443})
		}
	}
	for a := 0; a < naddr; a++ {
		table = append(table, c18Op{kind: 0, a: a, port: 80}, c18Op{kind: 1, a: a})
	}
	for _, d := range deltas {
		table = append(table, c18Op{kind: 2, d: d})
	}
	table = append(table, c18Op{kind: 2, d: deltas[0]}, c18Op{kind: 3}, c18Op{kind: 3})
	n := 1 + tp.Choose("len", 300)
	for i := 0; i < n; i++ {
		op := table[tp.Choose("op", len(table))]
		r.CoverU(uint64(op.kind*1000 + op.a*10 + op.port%7))
		r.CoverU(uint64(op.d))
		if !w.seqOp(op) {
			return
		}
	}
	if w.realNet > 0 && w.dials > 0 {
		r.Probe("real_phantomIsLive_over_scripted_dial")
	}
}

// ---------------------------------------------------------------------------
// concurrent part

type c18Scn struct {
	conf    c18Conf
	hosts   []bool
	scripts [][]c18Op
	mp      int // preemption bound of the systematic enumeration (quick tier; thorough adds 1)
}

func c18Q(a int) c18Op           { return c18Op{kind: 0, a: a, port: 443} }
func c18F(a int) c18Op           { return c18Op{kind: 1, a: a} }
func c18S(d time.Duration) c18Op { return c18Op{kind: 2, d: d} }
func c18C() c18Op                { return c18Op{kind: 3} }
func c18Both(cl, cn int) c18Conf {
	return c18Conf{durLive: "10s", durNon: "3s", capLive: cl, capNon: cn}
}
func c18Hosts(b ...bool) []bool         { return b }
func c18Scripts(s ...[]c18Op) [][]c18Op { return s }

// small scenarios whose schedules are enumerated under a preemption bound
var c18Small = []c18Scn{
	// two measurements race for the single slot of the live LRU
	{c18Both(1, 1), c18Hosts(true, true), c18Scripts([]c18Op{c18Q(0)}, []c18Op{c18Q(1)}), 3},
	// a lookup that refreshes an entry races with the eviction of that entry
	{c18Both(1, 1), c18Hosts(true, true), c18Scripts([]c18Op{c18Q(0), c18Q(0)}, []c18Op{c18Q(1)}), 3},
	// same for the non-live LRU
	{c18Both(1, 1), c18Hosts(false, false), c18Scripts([]c18Op{c18Q(0), c18Q(0)}, []c18Op{c18Q(1)}), 3},
	// three tasks, capacity 2
	{c18Both(2, 2), c18Hosts(true, true, true), c18Scripts([]c18Op{c18Q(0), c18Q(1)}, []c18Op{c18Q(2)}, []c18Op{c18Q(0)}), 3},
	// overlapping probes of one address with a state change in between (map caches)
	{c18Both(0, 0), c18Hosts(true), c18Scripts([]c18Op{c18Q(0), c18Q(0)}, []c18Op{c18Q(0)}, []c18Op{c18F(0)}), 3},
	// the same on LRU caches
	{c18Both(1, 1), c18Hosts(true), c18Scripts([]c18Op{c18Q(0), c18Q(0)}, []c18Op{c18Q(0)}, []c18Op{c18F(0)}), 3},
	// expiry clean-up against a re-measurement of the expired address
	{c18Both(1, 1), c18Hosts(true, true), c18Scripts([]c18Op{c18Q(0), c18S(c18L + time.Millisecond), c18Q(0), c18Q(0)}, []c18Op{c18S(c18L + time.Millisecond), c18C(), c18Q(1)}), 3},
	// clean-up of two caches while both are being filled
	{c18Both(2, 1), c18Hosts(true, false, false), c18Scripts([]c18Op{c18Q(0), c18Q(1), c18S(c18N + time.Millisecond), c18Q(2)}, []c18Op{c18S(c18N + time.Millisecond), c18C()}, []c18Op{c18S(c18N + time.Millisecond), c18Q(1)}), 2},
}

func c18Concurrent(r *sim.Run, systematic bool) {
	tp := r.Tape
	c18DetectEvict()
	var scn c18Scn
	probeD := time.Duration(0)
	stay := false
	if systematic {
		i := tp.Choose("scn", len(c18Small))
		scn = c18Small[i]
		scn.mp += tp.Choose("preempt-bonus", 2)
		r.Logf("C18 concurrent/systematic scenario %d, at most %d preemptions", i, scn.mp)
		r.CoverU(uint64(i))
	} else {
		caps := []int{1, 2, 0, 1, 3}
		durs := []string{"10s", "3s", "", "10s"}
		scn.conf = c18Conf{durLive: durs[tp.Choose("durLive", 4)], capLive: caps[tp.Choose("capLive", 5)],
			durNon: []string{"3s", "10s", "", "3s"}[tp.Choose("durNon", 4)], capNon: caps[tp.Choose("capNon", 5)]}
		naddr := 2 + tp.Choose("naddr", 3)
		hb := tp.Choose("hosts", 1<<uint(naddr))
		for i := 0; i < naddr; i++ {
			scn.hosts = append(scn.hosts, hb>>uint(i)&1 == 0) // 0 = all live
		}
		probeD = []time.Duration{0, 0, 750 * time.Millisecond}[tp.Choose("probe-duration", 3)]
		ntask := 2 + tp.Choose("ntask", 3)
		deltas := []time.Duration{time.Second + 7*time.Millisecond, c18N + time.Millisecond, c18L + time.Millisecond, c18N - time.Millisecond, 31*time.Second + 13*time.Millisecond, c18N, c18L}
		var table []c18Op
		for rep := 0; rep < 3; rep++ {
			for a := 0; a < naddr; a++ {
				table = append(table, c18Q(a))
			}
		}
		for a := 0; a < naddr; a++ {
			table = append(table, c18Op{kind: 0, a: a, port: 80}, c18F(a))
		}
		for _, d := range deltas {
			table = append(table, c18S(d))
		}
		table = append(table, c18C(), c18C())
		for t := 0; t < ntask; t++ {
			var sc []c18Op
			nop := 1 + tp.Choose("nop", 4)
			for j := 0; j < nop; j++ {
				sc = append(sc, table[tp.Choose("op", len(table))])
			}
			scn.scripts = append(scn.scripts, sc)
		}
		if tp.Bool("clear-task") {
			scn.scripts = append(scn.scripts, []c18Op{c18S(deltas[tp.Choose("delta", len(deltas))]), c18C(), c18C()})
		}
		stay = tp.Bool("staybias")
		r.Logf("C18 concurrent/random probe-duration=%v stay-bias=%v", probeD, stay)
	}

	s := hook.Install(tp)
	defer s.Uninstall()
	s.LockYield = true
	s.Trace = func(l string) { r.Logf("step %s", l) }
	if systematic {
		s.MaxPreempt = scn.mp
	} else if stay {
		s.StayNum, s.StayDen = 2, 3
	}
	w, ok := c18NewWorld(r, scn.conf, len(scn.hosts), scn.hosts)
	if !ok {
		return
	}
	w.conc = true
	w.probeD = probeD
	s.Suppress = w.suppress
	if c18EvictUnderLock {
		r.Cover("evict-callback-no-parking")
	}
	r.Logf("hosts-live=%v; %s", scn.hosts, c18EvictNote)
	r.Cover(fmt.Sprint(scn.hosts, scn.scripts, probeD))
	nq := 0
	for i, sc := range scn.scripts {
		r.Logf("task t%d: %v", i, sc)
		for _, o := range sc {
			if o.kind == 0 {
				nq++
			}
		}
	}
	for i, sc := range scn.scripts {
		name, sc := fmt.Sprintf("t%d", i), sc
		s.Spawn(name, func() {
			cur := "start"
			defer func() {
				if p := recover(); p != nil {
					r.Fail("C18/panic/concurrent", "task %s, %s: panic: %v", name, cur, p)
				}
			}()
			for _, op := range sc {
				cur = op.String()
				hook.Yield("op")
				if w.stopped() {
					return
				}
				switch op.kind {
				case 0:
					if !w.query(name, op.a, op.port) {
						w.setStop()
						return
					}
				case 1:
					w.flip(op.a)
				case 2:
					r.Logf("  %s sleeps %v", name, op.d)
					time.Sleep(op.d)
					hook.Yield("wake")
				case 3:
					w.clear(name)
				}
			}
		})
	}
	overlapped := false
	st := sim.Drive(r, s, sim.DriveOpt{Horizon: time.Hour, MaxSteps: 4000, Each: func() {
		w.mu.Lock()
		idle, infl := w.inflight == 0, w.inflight
		w.mu.Unlock()
		if infl >= 2 {
			overlapped = true
		}
		if idle {
			w.checkBound("quiescent point, no operation in flight")
		}
	}})
	defer s.Finish()
	r.CoverU(s.SigHash)
	if overlapped {
		r.Nontrivial()
		r.Probe("operations_overlapped")
	}
	switch st {
	case sim.Failed:
		return
	case sim.AllExited:
	case sim.Deadlock:
		r.Fail("C18/deadlock", "liveness queries blocked for ever: %s", s.WaitForGraph())
		return
	default:
		r.Fail("C18/not-finished", "queries did not all complete (%v): %v; %s", st, s.LiveNames(), s.WaitForGraph())
		return
	}
	w.checkBound("all tasks finished")
	r.Logf("done: %d queries, %d probes, %d answered from cache", nq, w.probes, w.hits)
}

func (w *c18World) stopped() bool { w.mu.Lock(); defer w.mu.Unlock(); return w.stop }
func (w *c18World) setStop()      { w.mu.Lock(); w.stop = true; w.mu.Unlock() }

// ---------------------------------------------------------------------------

func c18Scenario(r *sim.Run) {
	switch r.Tape.Choose("mode", 4) {
	case 0:
		c18Sequential(r, false)
	case 1:
		c18Sequential(r, true)
	case 2:
		c18Concurrent(r, false)
	case 3:
		c18Concurrent(r, true)
	}
}

func TestVerifC18(t *testing.T) {
	if os.Getenv("VERIF_PROP") == "C18" {
		c18DetectEvict()
	}
	sim.Main(t, sim.Config{
		Prop:     "C18",
		Scenario: c18Scenario,
		ExhaustLabels: func(tier string, ri int) []string {
			if ri < len(c18Small) {
				return []string{"mode", "scn", "preempt-bonus"}
			}
			return []string{"mode", "alphabet", "conf", "hosts", "op"}
		},
		ExhaustRoots: func(tier string) [][]int {
			var roots [][]int
			full := 0
			if tier == "thorough" {
				full = 1
			}
			// concurrent: one root per small scenario (every schedule within the scenario's preemption bound)
			for i := range c18Small {
				roots = append(roots, []int{3, i, full})
			}
			// sequential: root = [mode, alphabet, configuration, initial host state, first operation]
			_, ops := c18SysOps(full == 1)
			for c := range c18SysConfs(full == 1) {
				for h := 0; h < 2; h++ {
					for o := range ops {
						roots = append(roots, []int{1, full, c, h, o})
					}
				}
			}
			return roots
		},
		ExhaustMax: map[string]int{"quick": 40000, "thorough": 1500000},
		Runs:       map[string]int{"quick": 60000, "thorough": 6000000},
		NoCrypto:   true,
		Real: []string{"liveness.New / CachedLivenessTester.Init (configuration as TOML-style strings and integers)", "CachedLivenessTester.PhantomIsLive / phantomLookup / ClearExpiredCache", "UncachedLivenessTester.PhantomIsLive",
			"mapCache and lruCache (hashicorp/golang-lru with the package's eviction callback)", "phantomIsLive (the real prober) over a scripted dial seam in 3 of 8 random sequential runs"},
		Stub: []string{"the probe function (testers' phantomIsLive field) = table of host states, optional probe duration", "wall clock (synctest bubble)", "net.DialTimeout (scripted: accept / refuse / timeout / black hole) in the real-prober variants",
			"concurrent part: goroutine scheduling and the package's RWMutexes (simulator; every lock operation and every probe is a scheduling point)"},
		Rule: "sequential systematic: every history of length 5 over {query A0..A2, flip A0, advance non-live lifetime+1ms, advance live lifetime+1ms, ClearExpiredCache} (thorough: 12 operations: 4 addresses, second port, flip, 1s, both lifetimes -1ms/+1ms, clean-up) for every configuration in {both, live only, non-live only} x live capacity 0..2 x non-live capacity 0..2 (thorough 0..3) + three no-lifetime (uncached) configurations, from all-live and all-non-live hosts, the bound and the answer judged after every operation; " +
			"sequential random: histories up to length 300 over 4-6 addresses x 2 ports with all four Config fields drawn independently (valid, empty, zero, negative and malformed durations; capacities -1..4), New or Init, scripted prober (instant / 40 ms / 750 ms) or the real prober over a scripted dial; " +
			"concurrent systematic: 8 small scenarios (2-3 tasks; racing measurements for one LRU slot, refresh against eviction, overlapping probes of one address across a state change, clean-up against re-measurement), every schedule with <= 3 preemptions (largest scenario: 2; thorough: one more) at lock operations / probes / operation boundaries; concurrent random: 2-4 tasks x 1-4 operations (+ optional ClearExpiredCache task), uniform or stay-biased schedules, probes that take time. " +
			"Oracle: measurement-history model (see file header); concurrent runs additionally: no deadlock, no panic, all queries return. non-trivial = an answer was given from the cache, or an address was re-probed, or (concurrent) two operations overlapped; distinct = configuration + operation sequence (sequential) or scenario + schedule signature (concurrent)",
		Assume: []string{"harness test files built with //go:debug asynctimerchan=0",
			"a measurement's time is the completion time of the probe call; an answer is judged against the start of its query (an entry that was fresh when the query began may be returned a little later)",
			"an age of exactly the lifetime is judged (not less than the lifetime ago: the verdict must be measured again); ages strictly between the lifetime and the lifetime + 1 ms are not judged",
			"quiescent point for the capacity bound = no query / clean-up in flight (sequential: after every operation; concurrent: whenever all tasks are between operations, and at the end)",
			"LRU recency model: answering from a cache or storing a measurement counts as a use of that address in that cache",
			"lock operations of pkg/station/liveness are redirected to the simulator by the seamgen overlay; code between two lock operations / probes runs atomically; golang-lru itself is not instrumented",
			"lruCache.ClearExpired with >= 2 expired keys removes them in one atomic step (Go map iteration order is not reproducible)"},
	})
}
