//go:debug asynctimerchan=0
package liveness

// Harness entry of the conjure simulator for package pkg/station/liveness.
// This file is overlaid into the package by /verif/bin/check; it is never
// part of /repo. The package starts no background goroutines of its own, so
// nothing has to be created outside the bubbles.

import (
	"os"
	"testing"
)

func TestMain(m *testing.M) {
	os.Exit(m.Run())
}
