//go:debug asynctimerchan=0
package lib

// Harness entry of the conjure simulator for package pkg/station/lib.
// This file is overlaid into the package by /verif/bin/check; it is never
// part of /repo.

import (
	golog "log"
	"os"
	"sync"
	"testing"

	"github.com/refraction-networking/conjure/pkg/station/log"
)

// verifStdout is the process's real stdout; os.Stdout is pointed at a scratch
// file before any conjure logger is created so that the station's own output
// can be inspected (C17) and does not flood the runner.
var verifStdout *os.File
var verifLogFile *os.File

func TestMain(m *testing.M) {
	if os.Getenv("VERIF_PROP") != "" {
		verifStdout = os.Stdout
		if p := os.Getenv("VERIF_CAPTURE"); p != "" {
			f, err := os.Create(p)
			if err != nil {
				panic(err)
			}
			verifLogFile = f
			os.Stdout = f
			os.Stderr = f
			golog.SetOutput(f)
		}
		// The stats singleton normally starts two real-time tickers; inside the
		// simulator they would be goroutines outside the bubble that wander
		// into scheduler hooks. Initialise the singleton without them;
		// PrintStats is driven explicitly where a property needs it.
		statsOnce.Do(func() {
			statInstance = Stats{
				logger:      log.New(os.Stdout, "[STATS] ", golog.Ldate|golog.Lmicroseconds),
				generations: make(map[uint32]int64),
				genMutex:    &sync.Mutex{},
			}
		})
	}
	os.Exit(m.Run())
}
