package lib

// C05 — relay world: the real Proxy/halfPipe between two simulated connections
// with scripted peers, fault plans on the station's ends and every I/O
// operation ordered by the simulator's scheduler.

import (
	"bytes"
	"encoding/json"
	"fmt"
	"net"
	"strings"
	"sync/atomic"
	"testing"
	"time"

	"github.com/refraction-networking/conjure/pkg/core"
	"github.com/refraction-networking/conjure/pkg/station/log"
	pb "github.com/refraction-networking/conjure/proto"

	"verif/sim"
	"verif/sim/hook"
	"verif/sim/simnet"
)

type c05Act struct {
	kind string // write, sleep, close, reset, closewrite
	n    int
	d    time.Duration
}

var c05Sizes = []int{1, 2, 4095, 32767, 32768, 32769, 70000}
var c05Sleeps = []time.Duration{time.Millisecond, time.Second, 29 * time.Second, 31 * time.Second, 119 * time.Second, 121 * time.Second}

// fixed workloads (client script, covert script)
var c05Scripts = [][2][]c05Act{
	{{{"write", 1, 0}, {"close", 0, 0}}, {{"write", 1, 0}}},
	{{{"write", 32768, 0}, {"write", 1, 0}}, {{"write", 4095, 0}, {"write", 70000, 0}, {"close", 0, 0}}},
	{{{"write", 32769, 0}, {"sleep", 0, time.Second}, {"write", 2, 0}, {"close", 0, 0}}, {{"write", 2, 0}}},
	{{}, {}}, // idle on both sides: stall timeout must end the session
	{{{"write", 70000, 0}, {"reset", 0, 0}}, {{"write", 32767, 0}, {"write", 32767, 0}}},
	{{{"write", 2, 0}, {"closewrite", 0, 0}}, {{"write", 4095, 0}, {"sleep", 0, 31 * time.Second}, {"write", 1, 0}, {"close", 0, 0}}},
	{{{"write", 1, 0}, {"sleep", 0, 119 * time.Second}, {"write", 1, 0}, {"sleep", 0, 119 * time.Second}, {"write", 1, 0}}, {{"reset", 0, 0}}},
	{{{"write", 32768, 0}, {"write", 32768, 0}, {"write", 32768, 0}}, {{"write", 32768, 0}, {"write", 32768, 0}, {"write", 32768, 0}}},
}

var c05Ops = []string{"read", "write", "close", "deadline"}

func c05Shapes(op string) []simnet.Shape {
	switch op {
	case "read":
		return simnet.ReadShapes
	case "write":
		return simnet.WriteShapes
	case "close":
		return simnet.CloseShapes
	}
	return simnet.DeadlineShapes
}

const c05MaxIdx = 6

// enumeration of all single faults: script x end x op x idx x shape, plus dial shapes
type c05Case struct{ script, nf, end, op, idx, shape int }

var c05Singles = func() [][]int {
	var out [][]int
	for s := range c05Scripts {
		// fault-free
		out = append(out, []int{s, 0})
		for end := 0; end < 2; end++ {
			for op := range c05Ops {
				for idx := 0; idx < c05MaxIdx; idx++ {
					for sh := range c05Shapes(c05Ops[op]) {
						out = append(out, []int{s, 1, end, op, idx, sh})
					}
				}
			}
		}
		for sh := range simnet.DialShapes {
			out = append(out, []int{s, 1, 1, 4, 0, sh})
		}
	}
	return out
}()

// pairs of faults on different connection ends for the three shortest scripts (thorough tier)
var c05Pairs = func() [][]int {
	var out [][]int
	for _, s := range []int{0, 2, 3} {
		for op0 := range c05Ops {
			for idx0 := 0; idx0 < 3; idx0++ {
				for sh0 := range c05Shapes(c05Ops[op0]) {
					for op1 := range c05Ops {
						for idx1 := 0; idx1 < 3; idx1++ {
							for sh1 := range c05Shapes(c05Ops[op1]) {
								out = append(out, []int{s, 2, 0, op0, idx0, sh0, 1, op1, idx1, sh1})
							}
						}
					}
				}
			}
		}
	}
	return out
}()

func c05Pattern(dir byte, off int, n int) []byte {
	b := make([]byte, n)
	for i := range b {
		j := off + i
		b[i] = byte(j*7+j>>8*3+j>>16) ^ dir
	}
	return b
}

func TestVerifC05(t *testing.T) {
	sim.Main(t, sim.Config{
		Prop:     "C05",
		Scenario: c05Scenario,
		EnumN: func(tier string) int {
			if tier == "thorough" {
				return len(c05Singles) + len(c05Pairs)
			}
			return len(c05Singles)
		},
		EnumAt: func(tier string, i int) []int {
			if i < len(c05Singles) {
				return c05Singles[i]
			}
			return c05Pairs[i-len(c05Singles)]
		},
		EnumLabels: func(tier string, i int) []string {
			n := len(c05Singles[0])
			if i < len(c05Singles) {
				n = len(c05Singles[i])
			} else {
				n = len(c05Pairs[i-len(c05Singles)])
			}
			l := []string{"script", "nfaults"}
			for len(l) < n {
				l = append(l, "f.end", "f.op", "f.idx", "f.shape")
			}
			return l[:n]
		},
		Runs:    map[string]int{"quick": 20000, "thorough": 800000},
		LeakSig: "C05/goroutine-leak",
		Real:    []string{"pkg/station/lib.Proxy", "pkg/station/lib.halfPipe", "pkg/station/lib.generalizeErr", "tunnelStats / ProxyStats accounting"},
		Stub:    []string{"client and covert TCP connections (simnet)", "net.Dial (seam)", "peers (scripted actors)"},
		Rule: "enumerated: every (workload script x connection end x operation kind x operation index<6 x error shape) single fault, plus all dial failures and the fault-free runs; thorough adds all pairs of faults on different ends for three scripts; random: generated scripts/faults. " +
			"Each case runs under a tape-chosen interleaving of the I/O operations of both relay directions and both peers. A run is non-trivial when Proxy started relaying (dial succeeded); distinct = distinct (fault plan, I/O schedule, outcome) signatures",
		Assume: []string{"harness test files built with //go:debug asynctimerchan=0 (required by testing/synctest)", "lock/go/net call sites of pkg/station/lib are redirected to the simulator by a build-time source overlay generated from the current working tree"},
	})
}

func c05Scenario(r *sim.Run) {
	tp := r.Tape
	s := hook.Install(tp)
	defer s.Uninstall()
	s.StayNum, s.StayDen = 1, 2

	nscripts := len(c05Scripts)
	scriptID := tp.Choose("script", nscripts+1)
	nf := tp.Choose("nfaults", 3)
	type fspec struct{ end, op, idx, shape int }
	var faults []fspec
	for i := 0; i < nf; i++ {
		f := fspec{}
		f.end = tp.Choose("f.end", 2)
		f.op = tp.Choose("f.op", 5)
		f.idx = tp.Choose("f.idx", c05MaxIdx)
		if f.op == 4 {
			f.shape = tp.Choose("f.shape", len(simnet.DialShapes))
		} else {
			f.shape = tp.Choose("f.shape", len(c05Shapes(c05Ops[f.op])))
		}
		faults = append(faults, f)
	}
	var scripts [2][]c05Act
	if scriptID < nscripts {
		scripts = c05Scripts[scriptID]
	} else {
		for side := 0; side < 2; side++ {
			n := tp.Choose("script.len", 7)
			for i := 0; i < n; i++ {
				switch k := tp.Choose("act", 10); {
				case k < 5:
					scripts[side] = append(scripts[side], c05Act{"write", c05Sizes[tp.Choose("size", len(c05Sizes))], 0})
				case k < 7:
					scripts[side] = append(scripts[side], c05Act{"sleep", 0, c05Sleeps[tp.Choose("sleep", len(c05Sleeps))]})
				case k == 7:
					scripts[side] = append(scripts[side], c05Act{"close", 0, 0})
				case k == 8:
					scripts[side] = append(scripts[side], c05Act{"reset", 0, 0})
				default:
					scripts[side] = append(scripts[side], c05Act{"closewrite", 0, 0})
				}
			}
		}
	}
	proxyHeader := tp.Choose("proxyheader", 4) == 3
	coalesce := tp.Bool("coalesce")
	recvCap := []int{0, 0, 0, 1024, 65536}[tp.Choose("recvcap", 5)]
	drain := [2]bool{!tp.Prob("nodrain.client", 1, 6), !tp.Prob("nodrain.covert", 1, 6)}

	clientAddr := simnet.TCP("198.51.100.213", 50123)
	phantomAddr := simnet.TCP("192.0.2.77", 443)
	covertAddr := simnet.TCP("203.0.113.5", 443)
	stationAddr := simnet.TCP("10.9.8.7", 40001)
	cliH, cliS := simnet.Pipe(r, "client", "st.client", clientAddr, phantomAddr)
	covS, covH := simnet.Pipe(r, "st.covert", "covert", stationAddr, covertAddr)
	for _, c := range []*simnet.Conn{cliH, cliS, covS, covH} {
		c.Sched = true
		c.Coalesce = coalesce
	}
	cliH.RecvCap, covH.RecvCap = recvCap, recvCap
	ends := [2]*simnet.Conn{cliS, covS}

	var dialErr error
	desc := fmt.Sprintf("script=%d hdr=%v coalesce=%v recvcap=%d drain=%v", scriptID, proxyHeader, coalesce, recvCap, drain)
	dataWithErr := [2]bool{}
	hdrShortFault := false
	for _, f := range faults {
		if f.op == 4 {
			dialErr = simnet.DialShapes[f.shape].Make(covertAddr)
			desc += " fault[dial " + simnet.DialShapes[f.shape].Name + "]"
			r.Cover("dial", simnet.DialShapes[f.shape].Name)
			continue
		}
		sh := c05Shapes(c05Ops[f.op])[f.shape]
		ft := sh.Make(ends[f.end], c05Ops[f.op])
		ends[f.end].PlanFault(c05Ops[f.op], f.idx, ft)
		if ft.Kind == "data+err" {
			dataWithErr[f.end] = true
		}
		if proxyHeader && f.end == 1 && f.op == 1 && f.idx == 0 && ft.Kind == "short" {
			// a short count without an error on the PROXY-header write is not the end of a relay direction
			hdrShortFault = true
		}
		desc += fmt.Sprintf(" fault[%s %s#%d %s]", ends[f.end].Name, c05Ops[f.op], f.idx, sh.Name)
		r.Cover(ends[f.end].Name, c05Ops[f.op], fmt.Sprint(f.idx), sh.Name)
	}
	r.Logf("C05 %s", desc)
	for side := 0; side < 2; side++ {
		for _, a := range scripts[side] {
			r.Cover(a.kind, fmt.Sprint(a.n), a.d.String())
		}
		r.Cover("|")
	}

	dialed := false
	hook.SetNetSeams(func(network, addr string) (net.Conn, error) {
		r.Logf("dial %s %s", network, addr)
		if addr != covertAddr.String() {
			r.Fail("C05/dial-wrong-address", "dialled %q, registration says %q", addr, covertAddr.String())
		}
		if dialErr != nil {
			r.Fault("dial/" + simnet.ErrName(dialErr))
			return nil, dialErr
		}
		dialed = true
		return covS, nil
	}, nil, nil)
	defer hook.ClearNetSeams()

	// registration
	src := pb.RegistrationSource_API
	var tr Transport = &mockTransport{}
	secret := bytes.Repeat([]byte{0x5a}, 32)
	reg := &DecoyRegistration{
		PhantomIp:          phantomAddr.IP,
		PhantomPort:        443,
		Keys:               &core.ConjureSharedKeys{SharedSecret: secret},
		Covert:             covertAddr.String(),
		Transport:          pb.TransportType_Min,
		TransportPtr:       &tr,
		RegistrationSource: &src,
		Flags:              &pb.RegistrationFlags{ProxyHeader: &proxyHeader},
	}
	var logbuf bytes.Buffer
	logger := log.New(&logbuf, "", 0)
	gauge0 := atomic.LoadInt64(&getProxyStats().sessionsProxying)

	var proxyReturned atomic.Bool
	var proxyReturnedAt time.Duration
	var scriptEnd [2]time.Duration
	var closedAtReturn [2]bool
	relayRan := false // the two relay directions were started (not: dial or PROXY header failed)
	s.Spawn("proxy", func() {
		Proxy(reg, cliS, logger)
		// "both connections are closed, the call returns": in that order. What the caller finds at
		// the instant the call returns (before it closes anything itself):
		closedAtReturn = [2]bool{cliS.IsClosed(), covS.IsClosed()}
		relayRan = cliS.Ops("read")+covS.Ops("read")+cliS.Ops("deadline") > 0
		proxyReturnedAt = r.Elapsed()
		proxyReturned.Store(true)
		r.Logf("Proxy returned (client end closed=%v, covert end closed=%v)", closedAtReturn[0], closedAtReturn[1])
		// the caller (handleNewConn) closes the client connection
		cliS.Close()
	})
	actor := func(side int, h *simnet.Conn, dir byte) func() {
		return func() {
			off := 0
			closed := false
			for _, a := range scripts[side] {
				if closed {
					break
				}
				switch a.kind {
				case "write":
					if _, err := h.Write(c05Pattern(dir, off, a.n)); err != nil {
						closed = true
					}
					off += a.n
				case "sleep":
					time.Sleep(a.d)
				case "close":
					h.Close()
					closed = true
				case "reset":
					h.Reset()
					closed = true
				case "closewrite":
					h.CloseWrite()
				}
			}
			scriptEnd[side] = r.Elapsed()
			if closed {
				return
			}
			if drain[side] {
				buf := make([]byte, 65536)
				for {
					if _, err := h.Read(buf); err != nil {
						break
					}
				}
				h.Close()
			} else {
				// hold the connection open without reading until the station gives up
				for !h.PeerClosed() {
					time.Sleep(time.Second)
				}
				h.Close()
			}
		}
	}
	s.Spawn("peer.client", actor(0, cliH, 0x00))
	s.Spawn("peer.covert", actor(1, covH, 0x80))

	var scriptDur time.Duration
	for side := 0; side < 2; side++ {
		for _, a := range scripts[side] {
			scriptDur += a.d
		}
	}
	// liveness bound: last scripted action + init timeout + stall timeout + linger + slack
	horizon := scriptDur + proxyInitTimeout + proxyStallTimeout + 15*time.Second
	sysLive := func() []string {
		var l []string
		for _, n := range s.LiveNames() {
			if !strings.HasPrefix(n, "peer.") {
				l = append(l, n)
			}
		}
		return l
	}
	delayed := ""
	st := sim.Drive(r, s, sim.DriveOpt{Horizon: horizon, MaxSteps: 5000, Until: func() bool {
		return proxyReturned.Load() && len(sysLive()) == 0
	}, Each: func() {
		// "When either direction ends for any reason both connections are closed": the first
		// failed/ended operation on either station end is the end of a direction; both ends
		// must be closed before simulated time moves on (pending closes are scheduling delay,
		// not simulated time).
		if !dialed || delayed != "" || hdrShortFault {
			return
		}
		t1 := cliS.FirstErr()
		if t2 := covS.FirstErr(); !t2.IsZero() && (t1.IsZero() || t2.Before(t1)) {
			t1 = t2
		}
		if !t1.IsZero() && time.Now().After(t1) && (!cliS.IsClosed() || !covS.IsClosed()) {
			delayed = fmt.Sprintf("a relay direction ended at t=%v but at t=%v client end closed=%v, covert end closed=%v", t1.Sub(sim.Epoch), r.Elapsed(), cliS.IsClosed(), covS.IsClosed())
		}
	}})
	if delayed != "" && !r.Failed() {
		if r.Fail("C05/teardown-delayed", "%s", delayed) {
			return
		}
	}
	r.Logf("drive ended: %v system tasks live=%d", st, len(sysLive()))
	defer func() {
		// world teardown: abort the tasks, close every connection end so held peers leave
		s.Abort()
		for _, c := range []*simnet.Conn{cliS, covS, cliH, covH} {
			c.Quiet = true
			c.Close()
		}
		s.Finish()
	}()
	if st == sim.Done {
		st = sim.AllExited
	}

	if st == sim.Failed {
		return
	}
	if dialed {
		r.Nontrivial()
	}
	r.CoverU(s.SigHash)
	if st != sim.AllExited {
		if !proxyReturned.Load() {
			r.Fail("C05/no-return", "Proxy has not returned %v after the last scripted peer action (%v); live: %v", horizon-scriptDur, st, s.LiveNames())
			return
		}
		if r.Fail("C05/goroutine-left", "tasks still alive after the bound (%v): %v", st, sysLive()) {
			return
		}
	}
	_ = proxyReturnedAt
	if !dialed {
		if cliS.Sent != nil || len(cliS.Sent) > 0 {
			r.Fail("C05/bytes-without-covert", "station wrote %d bytes to the client although the dial failed", len(cliS.Sent))
		}
		return
	}

	// teardown: both station ends were closed when the call returned (each direction closes its
	// destination itself before it reports completion; only the source closes are asynchronous)
	if relayRan && (!closedAtReturn[0] || !closedAtReturn[1]) {
		if r.Fail("C05/returned-before-close", "Proxy returned while a connection was still open: client end closed=%v, covert end closed=%v at the instant of the return", closedAtReturn[0], closedAtReturn[1]) {
			return
		}
	}
	if !cliS.IsClosed() || !covS.IsClosed() {
		if r.Fail("C05/not-closed", "after Proxy returned: client end closed=%v covert end closed=%v", cliS.IsClosed(), covS.IsClosed()) {
			return
		}
	}
	if g := atomic.LoadInt64(&getProxyStats().sessionsProxying); g != gauge0 {
		if r.Fail("C05/session-gauge", "sessionsProxying is %d, was %d before the session", g, gauge0) {
			return
		}
	}

	// stream fidelity
	upW := covS.Sent
	hdrFailed := false
	if proxyHeader {
		// The PROXY header is the first write on the covert connection. The
		// property speaks about relayed bytes only, so the part of the header
		// that the connection accepted is removed (after checking it is the
		// header) and a failed header write is not counted as a relay failure.
		hdr := []byte(fmt.Sprintf("PROXY TCP4 %s 127.0.0.1 %d 1234\r\n", clientAddr.IP, clientAddr.Port))
		k := 0
		if len(covS.WriteN) > 0 {
			k = covS.WriteN[0]
		}
		if k > len(upW) || k > len(hdr) || !bytes.Equal(upW[:k], hdr[:k]) {
			if r.Fail("C05/proxy-header", "covert received %q first, expected (a prefix of) the PROXY header %q", upW[:min(len(upW), 60)], hdr) {
				return
			}
			k = min(k, len(upW))
		}
		hdrFailed = k < len(hdr)
		upW = upW[k:]
	}
	type dirT struct {
		name     string
		R, W     []byte
		src, dst *simnet.Conn
		dwe      bool
	}
	dirs := []dirT{{"up", cliS.Got, upW, cliS, covS, dataWithErr[0]}, {"down", covS.Got, cliS.Sent, covS, cliS, dataWithErr[1]}}
	for _, d := range dirs {
		if !bytes.HasPrefix(d.R, d.W) {
			i := 0
			for i < len(d.R) && i < len(d.W) && d.R[i] == d.W[i] {
				i++
			}
			if r.Fail("C05/stream-corrupt/"+d.name, "bytes written to the destination are not a prefix of the bytes read from the source: read %d, wrote %d, first difference at offset %d", len(d.R), len(d.W), i) {
				return
			}
			continue
		}
		if len(d.W) < len(d.R) {
			lost := len(d.R) - len(d.W)
			// allowed only if a write on the destination failed (error or short), and then at most the chunk in flight
			wf := d.dst.WriteFailed
			if d.name == "up" && hdrFailed {
				wf--
			}
			if wf <= 0 {
				cause := "no-write-failure"
				if d.dwe && d.src.DataWithErrFired > 0 {
					cause = "data-with-error"
				}
				if r.Fail("C05/lost-bytes/"+d.name+"/"+cause, "%d bytes returned by Read on %s were never written to %s although no write there failed (read %d, wrote %d)", lost, d.src.Name, d.dst.Name, len(d.R), len(d.W)) {
					return
				}
			} else if lost > d.src.LastReadN {
				if r.Fail("C05/lost-bytes/"+d.name+"/more-than-inflight", "%d bytes lost but the read in flight when the write failed returned only %d", lost, d.src.LastReadN) {
					return
				}
			}
		}
	}

	// "the byte counts it reports equal the bytes actually delivered": an abortive close (SO_LINGER
	// 0) throws away bytes that a Write had accepted — they are counted but never delivered
	for _, c := range []*simnet.Conn{cliS, covS} {
		if c.Discarded > 0 {
			if r.Fail("C05/byte-count/abortive-close", "%s was closed with SO_LINGER 0 while %d bytes its Write had accepted (and the summary counts) had not reached the peer: they were discarded", c.Name, c.Discarded) {
				return
			}
		}
	}

	// byte accounting
	out := logbuf.String()
	if i := strings.Index(out, "proxy closed "); i >= 0 {
		js := out[i+len("proxy closed "):]
		if j := strings.IndexByte(js, '\n'); j >= 0 {
			js = js[:j]
		}
		var ts struct{ BytesUp, BytesDown int64 }
		if err := json.Unmarshal([]byte(js), &ts); err != nil {
			r.Fail("C05/summary-unparseable", "tunnel summary %q: %v", js, err)
			return
		}
		if ts.BytesUp != int64(len(upW)) {
			if r.Fail("C05/byte-count/up", "summary says BytesUp=%d, the covert end accepted %d", ts.BytesUp, len(upW)) {
				return
			}
		}
		if ts.BytesDown != int64(len(cliS.Sent)) {
			if r.Fail("C05/byte-count/down", "summary says BytesDown=%d, the client end accepted %d", ts.BytesDown, len(cliS.Sent)) {
				return
			}
		}
	} else if covS.Ops("read") > 0 {
		r.Fail("C05/no-summary", "relaying started but no tunnel summary was logged")
	}
}
