package lib

// C09 — concurrent ingest, lookup, activation and expiry behave like some
// serial order. Lock-level world: every lock operation of pkg/station/lib is a
// scheduling point (emulated locks), liveness probes and resolver lookups are
// yield points, and the simulator decides every interleaving of ingest workers,
// sweeper, connection handler and reload.

import (
	"bytes"
	"context"
	"fmt"
	"net"
	"os"
	"path/filepath"
	"sort"
	"strings"
	"sync"
	"sync/atomic"
	"testing"
	"time"

	"github.com/anishathalye/porcupine"
	"github.com/refraction-networking/conjure/pkg/core"
	"github.com/refraction-networking/conjure/pkg/phantoms"
	"github.com/refraction-networking/conjure/pkg/station/geoip"
	"github.com/refraction-networking/conjure/pkg/station/liveness"
	"github.com/refraction-networking/conjure/pkg/station/log"
	"github.com/refraction-networking/conjure/pkg/transports/wrapping/min"
	"github.com/refraction-networking/conjure/pkg/transports/wrapping/prefix"
	pb "github.com/refraction-networking/conjure/proto"
	"google.golang.org/protobuf/proto"

	"verif/sim"
	"verif/sim/hook"
)

// ---- world ------------------------------------------------------------------

type c09Tester struct {
	w *c09World
}

func (t *c09Tester) PhantomIsLive(addr string, port uint16) (bool, error) {
	w := t.w
	hook.Yield("probe-begin")
	for w.holdProbes.Load() {
		// overload scenario: the worker is kept busy inside its probe
		hook.Park(&hook.Op{Kind: "probe-held", Site: "tester", Enabled: func() bool { return !w.holdProbes.Load() }})
	}
	w.mu.Lock()
	live := w.live[addr]
	w.probes = append(w.probes, c09Probe{addr, live, w.seq()})
	w.mu.Unlock()
	hook.Yield("probe-end")
	if live {
		return true, liveness.ErrLiveHost
	}
	return false, liveness.NotLive
}
func (t *c09Tester) PrintAndReset(*log.Logger) {}
func (t *c09Tester) PrintStats(*log.Logger)    {}
func (t *c09Tester) Reset()                    {}

type c09Probe struct {
	addr string
	live bool
	seq  int64
}

type c09Ann struct {
	key  string
	kind string
	obj  *DecoyRegistration
	seq  int64
	task string
}

type c09World struct {
	r          *sim.Run
	s          *hook.Sched
	rm         *RegistrationManager
	mu         sync.Mutex
	live       map[string]bool
	probes     []c09Probe
	anns       []c09Ann
	seqN       int64
	holdProbes atomic.Bool
	// sharePhantom puts every registration on one phantom address
	sharePhantom bool
	ops          []porcupine.Operation
	swept        map[string]int
}

func (w *c09World) seq() int64 { w.seqN++; return w.seqN }

func c09Key(d *DecoyRegistration) string {
	return fmt.Sprintf("%s/%d/%x", d.PhantomIp, d.Transport, d.Keys.SharedSecret[:4])
}

func newC09World(r *sim.Run, s *hook.Sched, workers int) *c09World {
	w := &c09World{r: r, s: s, live: map[string]bool{}, swept: map[string]int{}}
	conf := &RegConfig{EnableIPv4: true, EnableIPv6: true, IngestWorkerCount: workers, CovertBlocklistSubnets: []string{"10.0.0.0/8"}}
	conf.ParseBlocklists()
	rm := &RegistrationManager{
		RegConfig:         conf,
		RegistrationStats: newRegistrationStats(),
		registeredDecoys:  NewRegisteredDecoys(),
		Logger:            log.New(&bytes.Buffer{}, "[REG] ", 0),
		LivenessTester:    &c09Tester{w},
		GeoIP:             &geoip.EmptyDatabase{},
	}
	rm.AddTransport(pb.TransportType_Min, min.Transport{})
	pt, _ := prefix.Default([][32]byte{{9, 9, 9}})
	rm.AddTransport(pb.TransportType_Prefix, pt)
	rm.registeredDecoys.registerForDetector = func(d *DecoyRegistration) {
		w.mu.Lock()
		w.anns = append(w.anns, c09Ann{c09Key(d), "new", d, w.seq(), hook.TaskName()})
		w.mu.Unlock()
		r.Logf("announce NEW %s covert=%q", c09Key(d), d.Covert)
	}
	rm.registeredDecoys.updateInDetector = func(d *DecoyRegistration) {
		w.mu.Lock()
		w.anns = append(w.anns, c09Ann{c09Key(d), "update", d, w.seq(), hook.TaskName()})
		w.mu.Unlock()
	}
	w.rm = rm
	hook.SetNetSeams(nil, func(network, host string) (*net.IPAddr, error) {
		if ip := net.ParseIP(host); ip != nil {
			return &net.IPAddr{IP: ip}, nil
		}
		hook.Yield("resolve")
		switch host {
		case "ok.example":
			return &net.IPAddr{IP: net.ParseIP("203.0.113.80")}, nil
		case "internal.example":
			return &net.IPAddr{IP: net.ParseIP("10.9.9.9")}, nil
		}
		return nil, &net.DNSError{Err: "no such host", Name: host, IsNotFound: true}
	}, nil)
	return w
}

func (w *c09World) secret(i int) []byte {
	s := make([]byte, 32)
	for j := range s {
		s[j] = byte(0x21*i + j + 3)
	}
	return s
}

// mkReg builds a fresh registration object (what parseRegMessage hands to ingestRegistration).
func (w *c09World) mkReg(secret int, tt pb.TransportType, v6 bool, covert string) *DecoyRegistration {
	keys, err := core.GenSharedKeys(uint(core.CurrentClientLibraryVersion()), w.secret(secret), tt)
	if err != nil {
		panic(err)
	}
	src := pb.RegistrationSource_API
	t := w.rm.registeredDecoys.transports[tt]
	ph := net.IPv4(192, 0, 2, byte(20+secret)).To4()
	if w.sharePhantom {
		ph = net.IPv4(192, 0, 2, 20).To4()
	}
	if v6 {
		ph = net.ParseIP(fmt.Sprintf("2001:db8::%x", 20+secret))
	}
	reg := &DecoyRegistration{
		PhantomIp: ph, PhantomPort: 443, Keys: &keys, Covert: covert, Transport: tt, TransportPtr: &t,
		RegistrationSource: &src, RegistrationTime: time.Now(), registrationAddr: net.IPv4(198, 51, 100, 9).To4(),
		originalC2S: &pb.ClientToStation{V4Support: proto.Bool(true)},
	}
	if tt == pb.TransportType_Prefix {
		reg.transportParams = &pb.PrefixTransportParams{PrefixId: new(int32)}
	}
	return reg
}

// policyOK is the independent judgement of a covert string as it must look once admitted.
func c09PolicyOK(covert string) bool {
	host, _, err := net.SplitHostPort(covert)
	if err != nil {
		return false
	}
	ip := net.ParseIP(host)
	if ip == nil {
		return false
	}
	_, blocked, _ := net.ParseCIDR("10.0.0.0/8")
	return !blocked.Contains(ip)
}

// checkAnnOrder: the detector applies announcements in the order they are published. An Update
// (activation, long lifetime) published before the New of the same registration is overwritten by
// that New: the update is lost. In a serial execution a registration is announced before a
// connection handler can see and activate it.
func (w *c09World) checkAnnOrder(when string) bool {
	w.mu.Lock()
	anns := append([]c09Ann(nil), w.anns...)
	w.mu.Unlock()
	seenNew := map[string]bool{}
	for _, a := range anns {
		switch a.kind {
		case "new":
			seenNew[a.key] = true
		case "update":
			if !seenNew[a.key] {
				return !w.r.Fail("C09/update-lost/published-before-new", "%s: the activation (Update) of registration %s was published by task %s before the registration was announced as New; the detector applies New last and forgets the activation", when, a.key, a.task)
			}
		}
	}
	return true
}

// checkVisible: every registration a connection handler could see is one whose own admission completed.
func (w *c09World) checkVisible(when string) bool {
	if !w.checkAnnOrder(when) {
		return false
	}
	rd := w.rm.registeredDecoys
	var phs []string
	for ph := range rd.decoys {
		phs = append(phs, ph)
	}
	sort.Strings(phs)
	for _, ph := range phs {
		var ids []string
		for id := range rd.decoys[ph] {
			ids = append(ids, id)
		}
		sort.Strings(ids)
		for _, id := range ids {
			d := rd.decoys[ph][id]
			if !d.Valid {
				continue
			}
			if !c09PolicyOK(d.Covert) {
				if w.r.Fail("C09/visible-before-validated/unchecked-covert", "%s: a connection to %s would be matched to a registration whose covert %q was never checked / is forbidden (its own admission did not complete)", when, ph, d.Covert) {
					return false
				}
			}
			if d.PhantomIp.To4() != nil && !d.PreScanned() {
				ok := false
				w.mu.Lock()
				for _, p := range w.probes {
					if p.addr == ph && !p.live {
						ok = true
					}
				}
				w.mu.Unlock()
				if !ok {
					if w.r.Fail("C09/visible-before-validated/no-passing-probe", "%s: registration on %s is connectable although no liveness probe of that phantom has returned not-live", when, ph) {
						return false
					}
				}
			}
		}
	}
	return true
}

func (w *c09World) spawn(name string, f func()) {
	w.s.Spawn(name, func() {
		defer func() {
			if p := recover(); p != nil {
				w.r.Fail("C09/panic/"+name, "task %s panicked: %v", name, p)
			}
		}()
		f()
	})
}

// ---- porcupine model ----------------------------------------------------------

type c09In struct {
	op  string // "ingest" | "lookup" | "sweep"
	key string
	ok  bool // ingest: the message is admissible (covert ok, phantom not live)
}
type c09Out struct {
	announced bool     // ingest: a New announcement happened inside this operation
	visible   []string // lookup: keys visible
}

// sequential registry: key -> 0 untracked, 1 tracked invalid, 2 valid
var c09Model = porcupine.Model{
	Init: func() interface{} { return map[string]int{} },
	Step: func(state, input, output interface{}) (bool, interface{}) {
		st := state.(map[string]int)
		in := input.(c09In)
		out := output.(c09Out)
		cp := func() map[string]int {
			n := map[string]int{}
			for k, v := range st {
				n[k] = v
			}
			return n
		}
		switch in.op {
		case "ingest":
			if st[in.key] != 0 {
				return !out.announced, st // duplicate: never announced again
			}
			n := cp()
			if in.ok {
				n[in.key] = 2
				return out.announced, n
			}
			n[in.key] = 1
			return !out.announced, n
		case "lookup":
			var want []string
			for k, v := range st {
				if v == 2 {
					want = append(want, k)
				}
			}
			sort.Strings(want)
			got := append([]string(nil), out.visible...)
			sort.Strings(got)
			return fmt.Sprint(want) == fmt.Sprint(got), st
		}
		return true, st
	},
	Equal: func(a, b interface{}) bool {
		return fmt.Sprint(c09Sorted(a.(map[string]int))) == fmt.Sprint(c09Sorted(b.(map[string]int)))
	},
}

func c09Sorted(m map[string]int) []string {
	var out []string
	for k, v := range m {
		if v != 0 {
			out = append(out, fmt.Sprintf("%s=%d", k, v))
		}
	}
	sort.Strings(out)
	return out
}

// ---- test entry ----------------------------------------------------------------

var c09Scenarios = []string{"dup-ingest", "mixed-covert", "ingest-vs-sweep", "sweep-sibling", "overload", "shutdown-idle", "shutdown-busy", "reload"}

func TestVerifC09(t *testing.T) {
	sim.Main(t, sim.Config{
		Prop:     "C09",
		Scenario: c09Scenario,
		ExhaustRoots: func(tier string) [][]int {
			// systematic: the two 2-task ingest scenarios, bounded preemptions
			return [][]int{{1, 0}, {1, 1}, {1, 2}, {1, 3}}
		},
		ExhaustLabels: func(string, int) []string { return []string{"mode", "scn"} },
		ExhaustMax:    map[string]int{"quick": 6000, "thorough": 400000},
		Runs:       map[string]int{"quick": 40000, "thorough": 4000000},
		LeakSig:    "C09/goroutine-left-after-shutdown",
		Real:       []string{"RegistrationManager.ingestRegistration (exists / track / covert / liveness / validate windows)", "RegisteredDecoys (lock, both maps, announce-once guard, sweeper collect-then-remove)", "HandleRegUpdates / startIngestThread (worker pool, shallow buffer, non-blocking hand-off, cancellation)", "GetRegistrations / CountRegistrations / MarkActive / RemoveOldRegistrations / OnReload", "min / prefix identifiers"},
		Stub:       []string{"goroutine scheduling and the package's mutexes (simulator; emulated sync.RWMutex)", "liveness tester (table; probe begin/end are yield points; can hold workers inside a probe)", "resolver (yield point)", "detector (announcement recorder)", "parseRegMessage (harness builds the DecoyRegistration objects for the direct-ingest scenarios; the pipeline scenarios feed real marshalled messages)"},
		Rule: "systematic: every schedule with at most 2 preemptions (at lock operations, probe and resolver yields) of the four small scenarios {2 workers ingesting the same registration, same identifier with one acceptable and one forbidden covert, ingest vs sweep vs lookup-then-activate, the same with a fresh second registration sharing the expired one's phantom}; random: 8 scenarios (plus overload, shutdown with idle / busy input, reload) with 2-5 tasks under uniform / stay-biased schedules. " +
			"Oracles: exactly one New per registration lifetime, visibility only after the registration's own admission, no lost regCount update, map bijection, no panic, no deadlock, dropped == offered - accepted with a non-blocking distributor, bounded shutdown, porcupine linearizability of {ingest, lookup} histories against a sequential registry. non-trivial = two tasks overlapped; distinct = schedule signatures",
		Assume: []string{"the data-race clause cannot be decided under a cooperative scheduler (every hand-off is a synchronisation edge); it is covered by the auxiliary race-detector run of the thorough tier, reported separately", "code between two lock operations runs atomically"},
	})
}

func c09Scenario(r *sim.Run) {
	tp := r.Tape
	s := hook.Install(tp)
	defer s.Uninstall()
	defer hook.ClearNetSeams()
	s.LockYield = true
	s.UnlockYield = true
	s.Trace = func(l string) { r.Logf("step %s", l) }
	// a panic in one of the pipeline's own goroutines (ingest workers) takes the station down
	s.OnTaskPanic = func(task string, v any) {
		r.Fail("C09/panic/pipeline-goroutine", "a goroutine of the ingest pipeline (%s) panicked: %v", task, v)
	}
	systematic := tp.Choose("mode", 2) == 1
	var scn string
	if systematic {
		scn = c09Scenarios[tp.Choose("scn", 4)]
		s.MaxPreempt = 2
	} else {
		scn = c09Scenarios[tp.Choose("scn", len(c09Scenarios))]
		if tp.Bool("staybias") {
			s.StayNum, s.StayDen = 2, 3
		}
	}
	r.Logf("C09 scenario %s", scn)
	r.Cover(scn)
	switch scn {
	case "dup-ingest", "mixed-covert", "ingest-vs-sweep", "sweep-sibling":
		c09Direct(r, s, scn, systematic)
	case "overload":
		c09Overload(r, s)
	case "shutdown-idle", "shutdown-busy":
		c09Shutdown(r, s, scn == "shutdown-busy")
	case "reload":
		c09Reload(r, s)
	}
}

// ---- direct ingest scenarios ------------------------------------------------------

func c09Direct(r *sim.Run, s *hook.Sched, scn string, systematic bool) {
	tp := r.Tape
	w := newC09World(r, s, 2)
	defer s.Finish()
	type job struct {
		secret int
		tt     pb.TransportType
		v6     bool
		covert string
	}
	var jobs []job
	nworkers := 2
	sweep := scn == "ingest-vs-sweep" || scn == "sweep-sibling"
	w.sharePhantom = scn == "sweep-sibling"
	if scn == "sweep-sibling" {
		nworkers = 1
	}
	if !systematic {
		nworkers = 2 + tp.Choose("nworkers", 2)
		if scn == "sweep-sibling" {
			nworkers = 1 + tp.Choose("nworkers", 2)
		}
	}
	coverts := []string{"203.0.113.7:443", "10.1.2.3:443", "ok.example:443", "internal.example:443", "203.0.113.8:443"}
	switch scn {
	case "dup-ingest":
		cv := "203.0.113.7:443"
		if !systematic {
			cv = []string{"203.0.113.7:443", "ok.example:443"}[tp.Choose("covert", 2)]
		}
		for i := 0; i < nworkers; i++ {
			jobs = append(jobs, job{0, pb.TransportType_Min, false, cv})
		}
	case "mixed-covert":
		// same identifier, one acceptable and one forbidden covert
		jobs = append(jobs, job{0, pb.TransportType_Min, false, "10.1.2.3:443"}, job{0, pb.TransportType_Min, false, "203.0.113.7:443"})
		for i := 2; i < nworkers; i++ {
			jobs = append(jobs, job{0, pb.TransportType_Min, false, coverts[tp.Choose("covert", len(coverts))]})
		}
	default:
		for i := 0; i < nworkers; i++ {
			sec := 0
			if !systematic {
				sec = tp.Choose("secret", 2)
			}
			jobs = append(jobs, job{sec, pb.TransportType_Min, false, "203.0.113.7:443"})
		}
	}
	livePhantom := false
	if !systematic && scn == "dup-ingest" && tp.Prob("live-phantom", 1, 4) {
		livePhantom = true
		w.live["192.0.2.20"] = true
	}
	// ingest-vs-sweep: an expired registration of the same key is present
	if scn == "ingest-vs-sweep" || scn == "sweep-sibling" {
		old := w.mkReg(0, pb.TransportType_Min, false, "203.0.113.7:443")
		w.rm.ingestRegistration(old)
		time.Sleep(10*time.Minute + time.Second)
		r.Logf("an unused registration of key %s is 10 min 1 s old", c09Key(old))
		if scn == "sweep-sibling" {
			// a fresh registration of another client on the same phantom: the sweep removes one entry
			// of the phantom's table, not the table
			sib := w.mkReg(2, pb.TransportType_Min, false, "203.0.113.8:443")
			w.rm.ingestRegistration(sib)
			r.Logf("a fresh registration %s shares its phantom", c09Key(sib))
		}
	}
	tracked := map[string]int{} // key -> ingest calls that reached tracking
	var histMu sync.Mutex
	record := func(op porcupine.Operation) {
		histMu.Lock()
		w.ops = append(w.ops, op)
		histMu.Unlock()
	}
	for i, j := range jobs {
		i, j := i, j
		w.spawn(fmt.Sprintf("worker%d", i), func() {
			reg := w.mkReg(j.secret, j.tt, j.v6, j.covert)
			// deliveries are parsed one after the other: each carries its own, later, time stamp
			reg.RegistrationTime = reg.RegistrationTime.Add(time.Duration(i+1) * time.Millisecond)
			key := c09Key(reg)
			w.mu.Lock()
			tracked[key]++
			call := w.seq()
			n0 := len(w.anns)
			w.mu.Unlock()
			w.rm.ingestRegistration(reg)
			w.mu.Lock()
			ann := false
			me := hook.TaskName()
			for _, a := range w.anns[n0:] {
				if a.kind == "new" && a.key == key && a.task == me {
					ann = true
				}
			}
			ret := w.seq()
			w.mu.Unlock()
			adm := c09PolicyOKAfterResolve(j.covert) && !livePhantom
			record(porcupine.Operation{ClientId: i, Input: c09In{"ingest", key, adm}, Call: call, Output: c09Out{announced: ann}, Return: ret})
		})
	}
	if sweep {
		w.spawn("sweeper", func() {
			w.rm.RemoveOldRegistrations()
		})
	}
	withLookup := sweep || (!systematic && tp.Bool("lookup-task"))
	if withLookup {
		w.spawn("handler", func() {
			ph := net.IPv4(192, 0, 2, 20).To4()
			for k := 0; k < 2; k++ {
				w.mu.Lock()
				call := w.seq()
				w.mu.Unlock()
				n := w.rm.CountRegistrations(ph)
				regs := w.rm.GetRegistrations(ph)
				var vis []string
				var ids []string
				for id := range regs {
					ids = append(ids, id)
				}
				sort.Strings(ids) // not the map's iteration order: one tape, one execution
				for _, id := range ids {
					d := regs[id].(*DecoyRegistration)
					vis = append(vis, c09Key(d))
					w.rm.MarkActive(d)
				}
				w.mu.Lock()
				ret := w.seq()
				w.mu.Unlock()
				_, _, _, _ = n, call, ret, vis
				// Lookups are not part of the linearizability history: ingest is not atomic by design
				// (track, probe, validate are separate steps), so a duplicate may return while the
				// first copy is still being validated and a lookup in between legitimately sees
				// nothing. What a lookup may see is judged by the visibility invariant instead.
			}
		})
	}
	st := sim.Drive(r, s, sim.DriveOpt{Horizon: time.Hour, MaxSteps: 4000, Each: func() { w.checkVisible("quiescent point") }})
	r.CoverU(s.SigHash)
	r.Nontrivial()
	switch st {
	case sim.Failed:
		return
	case sim.Deadlock:
		r.Fail("C09/deadlock", "ingest / sweep / lookup blocked for ever: %s", s.WaitForGraph())
		return
	case sim.AllExited:
	default:
		r.Fail("C09/not-finished", "tasks did not finish (%v): %v", st, s.LiveNames())
		return
	}
	if !w.checkVisible("end") {
		return
	}
	// announce exactly once per lifetime
	rd := w.rm.registeredDecoys
	news := map[string]int{}
	for _, a := range w.anns {
		if a.kind == "new" {
			news[a.key]++
		}
	}
	var keys []string
	for k := range tracked {
		keys = append(keys, k)
	}
	sort.Strings(keys)
	for _, k := range keys {
		lifetimes := 1
		if sweep {
			lifetimes = 2 // the old registration's lifetime and, if it was swept, a new one
		}
		if news[k] > lifetimes {
			if r.Fail("C09/announced-more-than-once", "registration %s was announced as New %d times (at most %d lifetimes)", k, news[k], lifetimes) {
				return
			}
		}
	}
	// a valid registration has exactly one New announcement that came before any lookup could see it
	var phs []string
	for ph := range rd.decoys {
		phs = append(phs, ph)
	}
	sort.Strings(phs)
	total := 0
	for _, ph := range phs {
		for _, d := range rd.decoys[ph] {
			total++
			k := c09Key(d)
			if d.Valid && news[k] == 0 {
				if r.Fail("C09/valid-but-never-announced", "registration %s is connectable but was never announced to the detector", k) {
					return
				}
			}
			// no lost update of the duplicate counter
			if !sweep && int(d.regCount) != tracked[k] {
				if r.Fail("C09/lost-update/regcount", "registration %s: %d ingests reached tracking but regCount is %d", k, tracked[k], d.regCount) {
					return
				}
			}
		}
	}
	if len(rd.decoysTimeouts) != total {
		if r.Fail("C09/maps-disagree", "%d timeout records for %d tracked registrations", len(rd.decoysTimeouts), total) {
			return
		}
	}
	// linearizability of {ingest, lookup}
	if !sweep && len(w.ops) > 0 && len(w.ops) <= 40 {
		res := porcupine.CheckOperationsTimeout(c09Model, w.ops, 20*time.Second)
		if res == porcupine.Illegal {
			var hs []string
			for _, o := range w.ops {
				hs = append(hs, fmt.Sprintf("c%d %v [%d,%d] -> %v", o.ClientId, o.Input, o.Call, o.Return, o.Output))
			}
			r.Fail("C09/not-linearizable", "the history of ingest / lookup operations has no serial explanation: %v", hs)
			return
		}
		if res == porcupine.Unknown {
			r.Probe("porcupine_inconclusive")
		}
	}
}

func c09PolicyOKAfterResolve(covert string) bool {
	switch covert {
	case "ok.example:443":
		return true
	case "internal.example:443":
		return false
	}
	return c09PolicyOK(covert)
}

// ---- pipeline scenarios -------------------------------------------------------------

func (w *c09World) message(secret int, covert string) []byte {
	tt := pb.TransportType_Min
	c2s := &pb.ClientToStation{
		ClientLibVersion:    proto.Uint32(core.CurrentClientLibraryVersion()),
		Transport:           &tt,
		CovertAddress:       proto.String(covert),
		DecoyListGeneration: proto.Uint32(1),
		V4Support:           proto.Bool(true),
		V6Support:           proto.Bool(false),
	}
	src := pb.RegistrationSource_API
	b, _ := proto.Marshal(&pb.C2SWrapper{SharedSecret: w.secret(secret), RegistrationPayload: c2s, RegistrationSource: &src, RegistrationAddress: net.IPv4(198, 51, 100, 9).To4()})
	return b
}

func c09Overload(r *sim.Run, s *hook.Sched) {
	tp := r.Tape
	workers := 1 + tp.Choose("workers", 3)
	w := newC09World(r, s, workers)
	defer s.Finish()
	if !c09UseSelector(w) {
		r.Fail("harness/c09-selector", "no phantom selector")
		return
	}
	ctx, cancel := context.WithCancel(context.Background())
	regChan := make(chan interface{}, 10000)
	wg := new(sync.WaitGroup)
	wg.Add(1)
	returned := false
	w.spawn("pipeline", func() {
		w.rm.HandleRegUpdates(ctx, regChan, wg)
		returned = true
	})
	offered := workers + 2 + tp.Choose("extra", 6)
	w.holdProbes.Store(true)
	published := 0
	w.spawn("publisher", func() {
		hook.ParkIdle("workers-started")
		for i := 0; i < offered; i++ {
			regChan <- w.message(i, "203.0.113.7:443")
			published++
			// the distributor must take the message without blocking: wait until the system is idle
			hook.ParkIdle("published")
		}
		// every worker is now inside a probe; release them
		w.holdProbes.Store(false)
		hook.ParkIdle("drained")
		cancel()
		close(regChan)
	})
	st := sim.Drive(r, s, sim.DriveOpt{Horizon: time.Hour, MaxSteps: 20000})
	r.CoverU(s.SigHash)
	r.Nontrivial()
	if st == sim.Failed {
		return
	}
	if st != sim.AllExited || !returned {
		if st == sim.Deadlock {
			r.Fail("C09/deadlock", "pipeline blocked: %s", s.WaitForGraph())
			return
		}
		r.Fail("C09/overload-stalled", "with all %d workers busy the pipeline did not keep taking and dropping messages / did not finish (%v, published %d of %d): %v", workers, st, published, offered, s.LiveNames())
		return
	}
	total := atomic.LoadInt64(&w.rm.RegistrationStats.totalIngestMessages)
	dropped := atomic.LoadInt64(&w.rm.RegistrationStats.totalDroppedMessages)
	accepted := int64(len(w.probes))
	r.Logf("offered=%d counted=%d dropped=%d probed(accepted)=%d workers=%d buffer=%d", offered, total, dropped, accepted, workers, workers/jobBufferDivisor)
	if total != int64(offered) {
		r.Fail("C09/overload-accounting/ingest-count", "%d messages offered, %d counted", offered, total)
		return
	}
	if dropped != int64(offered)-accepted {
		r.Fail("C09/overload-accounting/dropped", "offered %d, processed %d, but %d counted as dropped (dropped must equal offered - accepted)", offered, accepted, dropped)
		return
	}
	if dropped == 0 {
		r.Probe("overload_nothing_dropped")
	} else {
		r.Probe("overload_messages_dropped")
	}
}

// c09UseSelector gives the manager a phantom selector for the pipeline scenarios (parseRegMessage needs one).
func c09UseSelector(w *c09World) bool {
	sel, err := c09PhantomSelector()
	if err != nil {
		return false
	}
	w.rm.PhantomSelector = sel
	return true
}

func c09Shutdown(r *sim.Run, s *hook.Sched, busy bool) {
	tp := r.Tape
	workers := 1 + tp.Choose("workers", 3)
	// a pool large enough for the shallow buffer to exist (workers / 10 slots): the stop request can
	// then arrive while registrations are queued in front of busy workers
	bigPool := busy && tp.Prob("big-pool", 1, 3)
	if bigPool {
		workers = 20 + tp.Choose("pool", 12)
	}
	w := newC09World(r, s, workers)
	defer s.Finish()
	if !c09UseSelector(w) {
		r.Fail("harness/c09-selector", "no phantom selector")
		return
	}
	ctx, cancel := context.WithCancel(context.Background())
	regChan := make(chan interface{}, 10000)
	wg := new(sync.WaitGroup)
	wg.Add(1)
	var returnedAt time.Duration
	returned := false
	w.spawn("pipeline", func() {
		w.rm.HandleRegUpdates(ctx, regChan, wg)
		returned = true
		returnedAt = r.Elapsed()
	})
	before := tp.Choose("before", 4)
	var cancelledAt time.Duration
	stop := false
	if bigPool {
		before = 0
		r.Probe("shutdown_with_queued_registrations")
	}
	// the stop request may arrive while the pool is still starting (workers launched, not yet running)
	duringStartup := !bigPool && tp.Prob("stop-during-startup", 1, 4)
	if duringStartup {
		r.Probe("stop_during_startup")
	}
	w.spawn("controller", func() {
		if duringStartup {
			hook.Yield("pipeline-starting")
		} else {
			hook.ParkIdle("workers-started")
		}
		if bigPool {
			// every worker is held inside its probe, then the buffer is filled
			w.holdProbes.Store(true)
			queued := workers/jobBufferDivisor - tp.Choose("slots-left", 2)
			for i := 0; i < workers+queued; i++ {
				regChan <- w.message(20+i, "203.0.113.7:443")
				hook.ParkIdle("published")
			}
			r.Logf("%d workers busy, %d registrations queued behind them", workers, queued)
		}
		for i := 0; i < before; i++ {
			regChan <- w.message(i, "203.0.113.7:443")
			hook.Yield("sent")
		}
		if tp.Bool("settle-before-stop") {
			hook.ParkIdle("settled")
		}
		cancelledAt = r.Elapsed()
		r.Logf("stop requested (context cancelled), input channel %s", map[bool]string{true: "busy", false: "idle"}[busy])
		cancel()
		if bigPool {
			hook.Yield("stop-requested")
			w.holdProbes.Store(false)
		}
		if busy {
			// registrations keep arriving for a while
			for i := 0; i < 5 && !stop; i++ {
				regChan <- w.message(10+i, "203.0.113.7:443")
				time.Sleep(time.Second)
			}
		}
	})
	st := sim.Drive(r, s, sim.DriveOpt{Horizon: 10 * time.Minute, MaxSteps: 20000, Until: func() bool { return returned }})
	stop = true
	r.CoverU(s.SigHash)
	r.Nontrivial()
	if st == sim.Failed {
		return
	}
	circ := "idle-input"
	if busy {
		circ = "busy-input"
	}
	if !returned {
		if st == sim.Deadlock {
			r.Fail("C09/deadlock", "shutdown blocked: %s", s.WaitForGraph())
			return
		}
		r.Fail("C09/shutdown-hangs/"+circ, "HandleRegUpdates has not returned %v after the stop request (%v); tasks: %v", r.Elapsed()-cancelledAt, st, s.LiveNames())
		return
	}
	if returnedAt-cancelledAt > 30*time.Second {
		r.Fail("C09/shutdown-slow/"+circ, "HandleRegUpdates returned %v after the stop request", returnedAt-cancelledAt)
	}
	close(regChan)
	// HandleRegUpdates has returned: every goroutine it started must be gone. Whatever is still
	// there runs on under the scheduler (not during teardown, where choices are the runtime's)
	if !r.Failed() {
		var left []string
		for _, n := range s.LiveNames() {
			if strings.HasPrefix(n, "pipeline/") {
				left = append(left, n)
			}
		}
		if len(left) > 0 {
			sim.Drive(r, s, sim.DriveOpt{Horizon: r.Elapsed() + time.Minute, MaxSteps: 5000})
			if !r.Failed() {
				r.Fail("C09/goroutine-left-after-shutdown/workers", "HandleRegUpdates returned while %d of its goroutines were still alive: %v", len(left), left)
			}
		}
	}
}

func c09Reload(r *sim.Run, s *hook.Sched) {
	tp := r.Tape
	w := newC09World(r, s, 2)
	defer s.Finish()
	if !c09UseSelector(w) {
		r.Fail("harness/c09-selector", "no phantom selector")
		return
	}
	n := 2 + tp.Choose("nworkers", 2)
	// policy change of the reload: 0 = the blocklist grows; 1 = blocklist [10/8] -> allowlist
	// [192.168/16] with an empty blocklist; 2 = the reverse of 1. In 1 and 2 one worker brings a
	// covert address that BOTH policies refuse (10.0.0.1): whatever the interleaving, a serial
	// execution refuses it, so it must not become a valid registration (a mixture of the old
	// allowlist flag with the new lists, or the reverse, would admit it).
	kind := tp.Choose("reload-kind", 3)
	bothRefuse := "10.0.0.1:80"
	newConf := &RegConfig{EnableIPv4: true, EnableIPv6: true, CovertBlocklistSubnets: []string{"10.0.0.0/8", "203.0.113.0/24"}}
	switch kind {
	case 1:
		newConf = &RegConfig{EnableIPv4: true, EnableIPv6: true, CovertAllowlistSubnets: []string{"192.168.0.0/16"}}
	case 2:
		w.rm.RegConfig.CovertBlocklistSubnets = nil
		w.rm.RegConfig.CovertAllowlistSubnets = []string{"192.168.0.0/16"}
		if err := w.rm.RegConfig.ParseBlocklists(); err != nil {
			r.Fail("harness/c09-reload-conf", "%v", err)
			return
		}
		newConf = &RegConfig{EnableIPv4: true, EnableIPv6: true, CovertBlocklistSubnets: []string{"10.0.0.0/8"}}
	}
	r.Logf("reload kind %d", kind)
	for i := 0; i < n; i++ {
		i := i
		covert := "203.0.113.7:443"
		if kind != 0 && i == 0 {
			covert = bothRefuse
		}
		w.spawn(fmt.Sprintf("worker%d", i), func() {
			w.rm.ingestRegistration(w.mkReg(i%2, pb.TransportType_Min, false, covert))
		})
	}
	newConf.ParseBlocklists()
	w.spawn("reload", func() { w.rm.OnReload(newConf) })
	w.spawn("handler", func() {
		ph := net.IPv4(192, 0, 2, 20).To4()
		for _, rg := range w.rm.GetRegistrations(ph) {
			w.rm.MarkActive(rg.(*DecoyRegistration))
		}
		w.rm.RemoveOldRegistrations()
	})
	st := sim.Drive(r, s, sim.DriveOpt{Horizon: time.Hour, MaxSteps: 8000})
	r.CoverU(s.SigHash)
	r.Nontrivial()
	switch st {
	case sim.Failed:
		return
	case sim.Deadlock:
		r.Fail("C09/deadlock", "reload / ingest / lookup blocked: %s", s.WaitForGraph())
		return
	case sim.AllExited:
	default:
		r.Fail("C09/not-finished", "tasks did not finish (%v): %v", st, s.LiveNames())
		return
	}
	if !w.checkAnnOrder("end") {
		return
	}
	if got, _ := w.rm.ParseOrResolveBlocklisted("203.0.113.7:443"); got != "" && kind != 2 {
		r.Fail("C09/reload-lost", "after OnReload completed the new covert policy is not in force (203.0.113.7:443 admitted)")
	}
	if kind != 0 {
		r.Probe("reload/blocklist-to-allowlist-or-back")
		for _, a := range w.anns {
			if a.kind == "new" && a.obj.Covert == bothRefuse {
				r.Fail("C09/not-serializable/covert-refused-by-old-and-new-policy-admitted",
					"reload kind %d: the registration with covert %s became valid and was announced, although the policy before the reload and the policy after it both refuse that address (the admission saw a mixture of the two)", kind, bothRefuse)
				return
			}
		}
	}
	news := map[string]int{}
	for _, a := range w.anns {
		if a.kind == "new" {
			news[a.key]++
		}
	}
	for k, c := range news {
		if c > 1 {
			r.Fail("C09/announced-more-than-once", "registration %s announced %d times", k, c)
			return
		}
	}
}

// c09PhantomSelector loads a selector from a generated subnet file (generation 1).
func c09PhantomSelector() (*phantoms.PhantomIPSelector, error) {
	return c09PhantomSelectorFor("192.0.2.0/24", "2001:db8::/64")
}

// c09PhantomSelectorFor: a selector over one IPv4 and one IPv6 subnet (small subnets make
// registrations share phantoms).
func c09PhantomSelectorFor(v4, v6 string) (*phantoms.PhantomIPSelector, error) {
	dir := os.Getenv("VERIF_SCRATCH")
	if dir == "" {
		dir = os.TempDir()
	}
	p := filepath.Join(dir, "c09_subnets_"+strings.NewReplacer("/", "_", ":", "_").Replace(v4)+".toml")
	body := "[Networks]\n  [Networks.1]\n    Generation = 1\n    [[Networks.1.WeightedSubnets]]\n      Weight = 1\n      RandomizeDstPort = false\n      Subnets = [\"" + v4 + "\", \"" + v6 + "\"]\n"
	if err := os.WriteFile(p, []byte(body), 0o644); err != nil {
		return nil, err
	}
	return phantoms.SubnetsFromTomlFile(p)
}

func c09GeoIP() geoip.Database   { return &geoip.EmptyDatabase{} }
func c09MinTransport() Transport { return min.Transport{} }
