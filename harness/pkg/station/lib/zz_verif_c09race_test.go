package lib

// Auxiliary run for C09's data-race clause (thorough tier): the same scenario
// shapes with free-running goroutines (no cooperative scheduler: its hand-offs
// would hide every race) in a binary built with -race. A race report is a true
// positive whatever the schedule; which races are found depends on the Go
// runtime's scheduling, so this part is statistical and reported separately.

import (
	"bytes"
	"context"
	"net"
	"os"
	"runtime"
	"strconv"
	"sync"
	"sync/atomic"
	"testing"
	"time"

	"github.com/refraction-networking/conjure/pkg/station/log"
	pb "github.com/refraction-networking/conjure/proto"
)

type c09RaceTester struct{}

func (c09RaceTester) PhantomIsLive(addr string, port uint16) (bool, error) { return false, nil }
func (c09RaceTester) PrintAndReset(*log.Logger)                            {}
func (c09RaceTester) PrintStats(*log.Logger)                               {}
func (c09RaceTester) Reset()                                               {}

func TestVerifC09Race(t *testing.T) {
	if os.Getenv("VERIF_PROP") != "C09RACE" {
		t.Skip("auxiliary race run is driven by /verif/bin/check C09 --tier thorough")
	}
	iters, _ := strconv.Atoi(os.Getenv("VERIF_RUNS"))
	if iters == 0 {
		iters = 300
	}
	for it := 0; it < iters; it++ {
		w := &c09World{live: map[string]bool{}, swept: map[string]int{}}
		conf := &RegConfig{EnableIPv4: true, EnableIPv6: true, IngestWorkerCount: 3, CovertBlocklistSubnets: []string{"10.0.0.0/8"}}
		conf.ParseBlocklists()
		rm := &RegistrationManager{RegConfig: conf, RegistrationStats: newRegistrationStats(), registeredDecoys: NewRegisteredDecoys(),
			Logger: log.New(&bytes.Buffer{}, "[REG] ", 0), LivenessTester: c09RaceTester{}}
		w.rm = rm
		// alternate between a roomy subnet and one with four addresses, where registrations of
		// different clients share phantoms (the per-phantom tables then have several entries)
		sel, err := c09PhantomSelector()
		if it%2 == 1 {
			sel, err = c09PhantomSelectorFor("192.0.2.0/30", "2001:db8::/126")
		}
		if err != nil {
			t.Fatal(err)
		}
		rm.PhantomSelector = sel
		c09RaceSetup(rm)
		if it%4 >= 2 {
			// short lifetimes: the sweeper really expires (valid and used) registrations while the
			// workers validate others, so the expiry-side bookkeeping runs beside the ingest-side one
			rm.registeredDecoys.timeoutUnused = 150 * time.Microsecond
			rm.registeredDecoys.timeoutActive = 300 * time.Microsecond
		}
		var pubDone atomic.Bool
		ctx, cancel := context.WithCancel(context.Background())
		regChan := make(chan interface{}, 1000)
		wg := new(sync.WaitGroup)
		wg.Add(1)
		go rm.HandleRegUpdates(ctx, regChan, wg)
		var bg sync.WaitGroup
		bg.Add(4)
		go func() { // publisher with duplicates
			defer bg.Done()
			for i := 0; i < 30; i++ {
				regChan <- w.message(i%11, "203.0.113.7:443")
			}
			pubDone.Store(true)
		}()
		go func() { // connection handler
			defer bg.Done()
			// every address of the phantom subnet, several times: the handler looks at the phantoms
			// that registrations are being made on while they are being made
			span := 256
			if it%2 == 1 {
				span = 4
			}
			for i := 0; i < 3*256; i++ {
				ph := net.IPv4(192, 0, 2, byte(i%span)).To4()
				rm.CountRegistrations(ph)
				for _, rg := range rm.GetRegistrations(ph) {
					rm.MarkActive(rg.(*DecoyRegistration))
				}
			}
		}()
		go func() { // sweeper and stats
			defer bg.Done()
			for i := 0; i < 10 || (!pubDone.Load() && i < 400); i++ {
				rm.RemoveOldRegistrations()
				rm.PrintAndReset(rm.Logger)
				if i >= 10 {
					runtime.Gosched()
				}
			}
		}()
		go func() { // reload
			defer bg.Done()
			nc := &RegConfig{EnableIPv4: true, EnableIPv6: true, CovertBlocklistSubnets: []string{"10.0.0.0/8", "192.168.0.0/16"}}
			nc.ParseBlocklists()
			rm.OnReload(nc)
		}()
		bg.Wait()
		time.Sleep(2 * time.Millisecond)
		cancel()
		close(regChan)
		wg.Wait()
	}
}

func c09RaceSetup(rm *RegistrationManager) {
	rm.GeoIP = c09GeoIP()
	rm.AddTransport(pb.TransportType_Min, c09MinTransport())
	rm.registeredDecoys.registerForDetector = func(*DecoyRegistration) {}
	rm.registeredDecoys.updateInDetector = func(*DecoyRegistration) {}
}
