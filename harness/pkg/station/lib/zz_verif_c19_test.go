package lib

// C19 — config world: the station's real configuration loader, registration
// manager, phantom selector, liveness tester and statistics modules are started
// from generated configuration / subnet files (selected through the
// environment variables the code reads), then run through statistics epochs,
// expiry sweeps and a sequence of configuration reloads. Sequential world
// inside the bubble (timestamps, durations), no scheduler.
//
// Oracles (each tied to a sentence of the property):
//  1. "periodic statistics reporting, registration expiry and configuration
//     reload never panic"  -> C19/panic/{stats,sweep,reload}/<circumstance>
//  2. "every blocklist and allowlist entry of an accepted configuration is
//     enforced - an entry that cannot be parsed makes the load fail instead of
//     being dropped silently" -> C19/entry-dropped/<list>,
//     C19/entry-not-enforced/<list>
//  3. "on reload each part (phantom subnets, address policies) is replaced by
//     its new version only if that version loaded without error, otherwise the
//     previous version of that part stays fully in force"
//     -> C19/reload/<part>/{changed-after-failed-load,not-replaced,mixed}

import (
	"context"
	"fmt"
	"io"
	"net"
	"net/http"
	"os"
	"path/filepath"
	"regexp"
	"runtime"
	"strings"
	"sync"
	"sync/atomic"
	"testing"
	"testing/synctest"
	"time"

	"github.com/BurntSushi/toml"
	ptoml "github.com/pelletier/go-toml"
	"github.com/refraction-networking/conjure/pkg/core"
	"github.com/refraction-networking/conjure/pkg/phantoms"
	"github.com/refraction-networking/conjure/pkg/station/liveness"
	"github.com/refraction-networking/conjure/pkg/station/log"
	"github.com/refraction-networking/conjure/pkg/transports/wrapping/min"
	"github.com/refraction-networking/conjure/pkg/transports/wrapping/obfs4"
	"github.com/refraction-networking/conjure/pkg/transports/wrapping/prefix"
	pb "github.com/refraction-networking/conjure/proto"
	"google.golang.org/protobuf/proto"

	"verif/sim"
	"verif/sim/hook"
)

// ---------------------------------------------------------------------------
// alphabets

// covert subnet entries (blocklist and allowlist). Index 0 = simplest.
var c19CovertCIDRs = []string{
	"10.0.0.0/8",
	"192.168.0.0/16",
	"fc00::/7 ", // trailing blank: exactly what the shipped app_config.toml contains
	"127.0.0.1/32",
	"::1/128",
	"169.254.0.0/16",
	"2001:db8:aa::/48",
	"10.0.0.0/33",
	"not-a-cidr",
	" 172.16.0.0/12",
	"198.18.0.1", // bare address, no mask
	"2001:db8:bb::5", // bare IPv6 address, no mask
	"fe80::0/16",
}

var c19PhantomCIDRs = []string{
	"192.122.190.0/28",
	"2001:48a8:687f:1::/96",
	"192.122.190.128/25 ",
	"141.219.0.0/16",
	"192.122.190.0/33",
	"35.8.1.1",
	"2001:48a8:687f:1::7", // bare IPv6 address, no mask
}

type c19Pat struct {
	pat  string
	host string // a host name the pattern is meant to refuse
}

var c19GoodPatterns = []c19Pat{
	{"localhost", "localhost"},
	{`\.internal$`, "db.internal"},
	{`(?i)^metadata\.`, "Metadata.google.example"},
	{`^intranet$`, "intranet"},
	// class escapes whose meaning depends on the letter's case (\D non-digit vs \d digit, \S vs \s)
	{`^\D+\.corp\.example$`, "files.corp.example"},
	{`^svc-\S+\.lan$`, "svc-7.lan"},
}
var c19BadPatterns = []c19Pat{
	{"(", ""},
	{"[a-", ""},
	{"*.example.org", ""}, // a glob where a regular expression is expected
}

// names the stub resolver knows
var c19Names = map[string]string{
	"ok.example.net":          "203.0.113.77",
	"rebind.example.net":      "10.9.9.9",
	"v6.example.net":          "2001:db8:ffff::77",
	"localhost":               "127.0.0.1",
	"db.internal":             "10.20.30.40",
	"metadata.google.example": "169.254.169.254",
	"intranet":                "192.168.1.1",
	"files.corp.example":      "203.0.113.81",
	"svc-7.lan":               "203.0.113.82",
}

// fixed probe set of the reload differential
var c19CovertProbes = []string{
	"10.1.2.3:443", "192.168.7.7:443", "172.16.5.5:80", "[fd00::1]:443", "198.18.0.1:443", "169.254.169.254:80",
	"[2001:db8:aa::5]:443", "203.0.113.9:443", "[2001:db8:ffff::9]:443", "10.0.0.0:443",
	"localhost:443", "db.internal:443", "Metadata.google.example:80", "intranet:443",
	"files.corp.example:443", "svc-7.lan:443", "ok.example.net:443", "rebind.example.net:443", "v6.example.net:443", "nxdomain.example.net:443",
	"203.0.113.9", "203.0.113.9:99999",
}
var c19PhantomProbes = []string{
	"192.122.190.5", "192.122.190.100", "192.122.190.200", "2001:48a8:687f:1::7", "2001:48a8:687f:1:1::7",
	"141.219.3.3", "35.8.1.1", "35.8.1.2", "203.0.113.9",
}
var c19Gens = []uint{1, 2, 957, 4242}

// phantom subnet pools for generated subnet files
var c19SubV4 = []string{"192.122.190.0/24", "192.122.190.0/28", "141.219.0.0/16", "35.8.0.0/16"}
var c19SubV6 = []string{"2001:48a8:687f:1::/64", "2001:48a8:687f:1::/96"}

const c19StdSubnets = `
[Networks]
    [Networks.1]
        Generation = 1
        [[Networks.1.WeightedSubnets]]
            Weight = 9
            Subnets = ["192.122.190.0/24", "2001:48a8:687f:1::/64"]

    [Networks.2]
        Generation = 2
        [[Networks.2.WeightedSubnets]]
            Weight = 1
            Subnets = ["192.122.190.0/28", "2001:48a8:687f:1::/96"]

    [Networks.957]
        Generation = 957
        [[Networks.957.WeightedSubnets]]
            Weight = 9
            RandomizeDstPort = true
            Subnets = ["192.122.190.0/24", "2001:48a8:687f:1::/64"]
        [[Networks.957.WeightedSubnets]]
            Weight = 1
            RandomizeDstPort = false
            Subnets = ["141.219.0.0/16", "35.8.0.0/16"]
`

// scalar keys: alternatives that the loader is expected to digest ("safe") and
// alternatives that must make start-up fail ("fatal"). Values are raw TOML.
type c19Key struct {
	name  string
	safe  []string
	fatal []string
}

var c19Durations = []string{`"5m"`, `""`, `"0s"`, `"2.0h"`, `"-1m"`, `"1ns"`}
var c19BadDurations = []string{`"abc"`, `5`, `"5"`}
var c19Caps = []string{`5`, `0`, `1`, `-1`}
var c19BadCaps = []string{`"5"`, `1.5`}

// $S is replaced by the scratch directory
var c19Scalars = []c19Key{
	{"enable_v4", []string{"true", "false"}, []string{`"yes"`}},
	{"enable_v6", []string{"true", "false"}, []string{`1`}},
	{"cache_expiration_time", c19Durations, c19BadDurations},
	{"cache_capacity", c19Caps, c19BadCaps},
	{"cache_expiration_nonlive", c19Durations, c19BadDurations},
	{"cache_capacity_nonlive", c19Caps, c19BadCaps},
	{"ingest_worker_count", []string{`3`, `0`, `1`, `100`, `-1`, `25`}, []string{`-20`, `"many"`}},
	{"covert_blocklist_public_addrs", []string{"false", "true"}, nil},
	{"geoip_cc_db_path", []string{`""`}, []string{`"$S/missing-cc.mmdb"`, `"$S/garbage.mmdb"`}},
	{"geoip_asn_db_path", []string{`""`}, []string{`"$S/missing-asn.mmdb"`, `"$S/garbage.mmdb"`}},
	{"log_level", []string{`"error"`, `"debug"`, `"trace"`, `"info"`, `"warn"`, `"ERROR"`, `""`}, []string{`"bogus"`, `3`}},
	{"privkey_path", []string{`""`, `"$S/key32"`}, []string{`"$S/missing-key"`, `"$S/shortkey"`}},
	{"zmq_privkey_path", []string{`""`, `"$S/key32"`}, []string{`"$S/missing-key"`}},
	{"enable_share_over_api", []string{"false", "true"}, nil},
	{"preshare_endpoint", []string{`""`, `"http://192.0.2.1:9/register"`}, nil},
	{"socket_name", []string{`"zmq-proxy"`}, nil},
	{"heartbeat_interval", []string{`30000`, `0`}, []string{`"soon"`}},
	{"some_future_option", []string{`1`}, nil},
}

const c19ListMax = 3

var c19Lists = []string{"covert_blocklist_subnets", "covert_allowlist_subnets", "covert_blocklist_domains", "phantom_blocklist"}

// ---------------------------------------------------------------------------
// world

type c19World struct {
	r   *sim.Run
	tp  *sim.Tape
	dir string

	dialLive atomic.Int32 // 0: probes time out (phantom not live), 1: refused (live)

	// running station
	rm      *RegistrationManager
	zi      *ZMQIngester
	conn    *c19ConnStats
	modules []c19Module
	verbose []c19Module
	regChan chan interface{}
	cancel  context.CancelFunc
	wg      *sync.WaitGroup
	conf    *Config // the configuration accepted at start-up (liveness settings stay those)

	cfgPath, subPath string
	cfgText          string // the configuration text in force (last one that loaded)
	fileText         string // content of the file CJ_STATION_CONFIG names now ("" if there is none)
	fileBad, subBad  bool   // the files named now are objectively unusable (missing, directory, not TOML)
	step             int
	regsSent         int
}

type c19Module struct {
	name string
	m    stats
}

// c19ConnStats stands in for cmd/application's connManager (package main, not
// importable): the verbose stats module and the ConnectingTpStats sink.
type c19ConnStats struct{ n atomic.Int64 }

func (c *c19ConnStats) PrintAndReset(l *log.Logger) {
	l.Infof("conn-stats(stub): %d", c.n.Swap(0))
}
func (c *c19ConnStats) Reset()                                                          { c.n.Store(0) }
func (c *c19ConnStats) AddCreatedConnecting(asn uint, cc string, tp string)             { c.n.Add(1) }
func (c *c19ConnStats) AddCreatedToSuccessfulConnecting(asn uint, cc string, tp string) { c.n.Add(1) }
func (c *c19ConnStats) AddCreatedToTimeoutConnecting(asn uint, cc string, tp string)    { c.n.Add(1) }
func (c *c19ConnStats) AddSuccessfulToDiscardedConnecting(asn uint, cc string, tp string) {
	c.n.Add(1)
}
func (c *c19ConnStats) AddOtherFailConnecting(asn uint, cc string, tp string) { c.n.Add(1) }

type c19Timeout struct{}

func (c19Timeout) Error() string   { return "i/o timeout" }
func (c19Timeout) Timeout() bool   { return true }
func (c19Timeout) Temporary() bool { return true }

// c19Catch runs f and returns the panic value (as text) and the conjure frames
// that were on the stack, or "" if f returned normally.
func c19Catch(f func()) (pv string, where string) {
	defer func() {
		if p := recover(); p != nil {
			pv = fmt.Sprint(p)
			if pv == "" {
				pv = "panic"
			}
			pcs := make([]uintptr, 64)
			n := runtime.Callers(2, pcs)
			fr := runtime.CallersFrames(pcs[:n])
			var names []string
			for {
				f, more := fr.Next()
				if strings.Contains(f.Function, "refraction-networking/conjure") && !strings.Contains(f.Function, "c19") && !strings.Contains(f.Function, "TestVerif") {
					fn := f.Function[strings.LastIndex(f.Function, "/")+1:]
					names = append(names, fn)
				}
				if !more || len(names) >= 4 {
					break
				}
			}
			where = strings.Join(names, " < ")
		}
	}()
	f()
	return "", ""
}

// c19ErrClass: the loader reports one of possibly several decoding errors in
// map order, so only the class of an error goes into the event log.
func c19ErrClass(err error) string {
	m := err.Error()
	for _, c := range []string{"no such file", "is a directory", "incompatible types", "toml:"} {
		if strings.Contains(m, c) {
			return strings.TrimSuffix(c, ":") + " error"
		}
	}
	return "other error"
}

func (w *c19World) san(s string) string { return strings.ReplaceAll(s, w.dir, "$S") }

func (w *c19World) write(name, content string) string {
	p := filepath.Join(w.dir, name)
	if err := os.WriteFile(p, []byte(content), 0o644); err != nil {
		panic(err)
	}
	return p
}

func c19NewWorld(r *sim.Run) *c19World {
	w := &c19World{r: r, tp: r.Tape}
	base := os.Getenv("VERIF_SCRATCH")
	if base == "" {
		base = filepath.Join(os.TempDir(), fmt.Sprintf("verif-c19-%d", os.Getpid()))
	}
	w.dir = filepath.Join(base, "c19")
	os.RemoveAll(w.dir)
	if err := os.MkdirAll(filepath.Join(w.dir, "adir"), 0o755); err != nil {
		panic(err)
	}
	key := make([]byte, 32)
	for i := range key {
		key[i] = byte(i + 1)
	}
	w.write("key32", string(key))
	w.write("shortkey", "short")
	w.write("garbage.mmdb", "this is not a MaxMind database\n")
	os.Setenv("CJ_PRIVKEY", filepath.Join(w.dir, "key32"))
	os.Setenv("ZMQ_PRIVKEY", filepath.Join(w.dir, "key32"))

	hook.SetNetSeams(
		func(network, addr string) (net.Conn, error) {
			if w.dialLive.Load() == 1 {
				return nil, &net.OpError{Op: "dial", Net: network, Err: fmt.Errorf("connection refused")}
			}
			return nil, &net.OpError{Op: "dial", Net: network, Err: c19Timeout{}}
		},
		func(network, host string) (*net.IPAddr, error) {
			if ip := net.ParseIP(host); ip != nil {
				return &net.IPAddr{IP: ip}, nil
			}
			if a, ok := c19Names[strings.ToLower(host)]; ok {
				return &net.IPAddr{IP: net.ParseIP(a)}, nil
			}
			return nil, &net.DNSError{Err: "no such host", Name: host, IsNotFound: true}
		},
		func(url, contentType string, body io.Reader) (*http.Response, error) {
			return nil, fmt.Errorf("post: network unreachable")
		},
	)
	return w
}

func (w *c19World) teardown() {
	if w.cancel != nil {
		w.cancel()
		close(w.regChan)
		w.wg.Wait()
	}
	// liveness probes / share-over-API goroutines end by themselves
	time.Sleep(2 * time.Second)
	c19Quiesce()
	hook.ClearNetSeams()
	statInstance.moduleStats = nil
	statInstance.verboseStats = nil
	log.SetLevel(log.ErrorLevel)
}

// ---------------------------------------------------------------------------
// document generation

func c19Quote(s string) string { return "'" + s + "'" } // TOML literal string

func (w *c19World) genDoc(fatalOK bool) string {
	tp := w.tp
	var lines []string
	for _, k := range c19Scalars {
		alts := k.safe
		if fatalOK {
			alts = append(append([]string{}, k.safe...), k.fatal...)
		}
		i := tp.Choose(k.name, len(alts)+1)
		if i == 0 {
			continue
		}
		lines = append(lines, k.name+" = "+alts[i-1]) // "$S" stays a placeholder until the file is written
	}
	for _, name := range c19Lists {
		if name == "covert_allowlist_subnets" && !tp.Prob("allowlist", 1, 3) {
			continue
		}
		n := tp.Choose(name+"#", c19ListMax+2) // 0 unset, 1 empty list, k+1 = k entries
		if n == 0 {
			continue
		}
		var items []string
		for i := 0; i < n-1; i++ {
			switch name {
			case "covert_blocklist_domains":
				pool := c19GoodPatterns
				if fatalOK {
					pool = append(append([]c19Pat{}, c19GoodPatterns...), c19BadPatterns...)
				}
				items = append(items, c19Quote(pool[tp.Choose(name, len(pool))].pat))
			case "phantom_blocklist":
				items = append(items, c19Quote(c19PhantomCIDRs[tp.Choose(name, len(c19PhantomCIDRs))]))
			default:
				items = append(items, c19Quote(c19CovertCIDRs[tp.Choose(name, len(c19CovertCIDRs))]))
			}
		}
		lines = append(lines, name+" = ["+strings.Join(items, ", ")+"]")
	}
	doc := strings.Join(lines, "\n") + "\n"
	if tp.Prob("connect_sockets", 1, 4) {
		doc += "[[connect_sockets]]\naddress = \"ipc://@detector\"\ntype = \"NULL\"\n"
	}
	return doc
}

func (w *c19World) shipped() string {
	b, err := os.ReadFile("../../../cmd/application/app_config.toml")
	if err != nil {
		panic("cannot read the shipped app_config.toml: " + err.Error())
	}
	return string(b)
}

func (w *c19World) genSubnets() string {
	tp := w.tp
	var sb strings.Builder
	sb.WriteString("[Networks]\n")
	mask := 1 + tp.Choose("sub_gens", 7) // non-empty subset of {1,2,957}
	for gi, g := range []int{1, 2, 957} {
		if mask&(1<<gi) == 0 {
			continue
		}
		fmt.Fprintf(&sb, "  [Networks.%d]\n    Generation = %d\n", g, g)
		nsets := 1 + tp.Choose("sub_sets", 2)
		for s := 0; s < nsets; s++ {
			v4 := c19SubV4[tp.Choose("sub_v4", len(c19SubV4))]
			v6 := c19SubV6[tp.Choose("sub_v6", len(c19SubV6))]
			fmt.Fprintf(&sb, "    [[Networks.%d.WeightedSubnets]]\n      Weight = %d\n      RandomizeDstPort = %v\n      Subnets = [\"%s\", \"%s\"]\n",
				g, 1+tp.Choose("sub_weight", 9), tp.Bool("sub_randport"), v4, v6)
		}
	}
	return sb.String()
}

func c19OneLine(doc string) string {
	var parts []string
	for _, l := range strings.Split(doc, "\n") {
		l = strings.TrimSpace(l)
		if i := strings.Index(l, "#"); i >= 0 && !strings.Contains(l[:i], "\"") && !strings.Contains(l[:i], "'") {
			l = strings.TrimSpace(l[:i])
		}
		if l != "" {
			parts = append(parts, l)
		}
	}
	s := strings.Join(parts, "; ")
	if len(s) > 900 {
		s = s[:900] + fmt.Sprintf("...(+%d bytes)", len(s)-900)
	}
	return s
}

// ---------------------------------------------------------------------------
// what the harness knows about a document independently of the loader

type c19Lists4 struct {
	CovertBlocklistSubnets []string `toml:"covert_blocklist_subnets"`
	CovertAllowlistSubnets []string `toml:"covert_allowlist_subnets"`
	CovertBlocklistDomains []string `toml:"covert_blocklist_domains"`
	PhantomBlocklist       []string `toml:"phantom_blocklist"`
}

// c19Syntax reports whether the text is a TOML document at all and whether it
// decodes into the station's configuration type (types of all keys fit), and
// whether it contains any key of the registration section.
func c19Syntax(text string) (decodes bool, hasRegKeys bool) {
	var c Config
	if _, err := toml.Decode(text, &c); err != nil {
		return false, false
	}
	return true, c.RegConfig != nil
}

type c19Entry struct {
	raw      string
	strict   bool       // net.ParseCIDR accepts the entry as written
	intended *net.IPNet // nil: no address range can be attributed to the entry
}

func c19Intended(raw string) c19Entry {
	e := c19Entry{raw: raw}
	if _, n, err := net.ParseCIDR(raw); err == nil {
		e.strict, e.intended = true, n
		return e
	}
	s := strings.TrimSpace(raw)
	if _, n, err := net.ParseCIDR(s); err == nil {
		e.intended = n
		return e
	}
	if ip := net.ParseIP(s); ip != nil {
		bits := 128
		if ip4 := ip.To4(); ip4 != nil {
			ip, bits = ip4, 32
		}
		e.intended = &net.IPNet{IP: ip, Mask: net.CIDRMask(bits, bits)}
	}
	return e
}

// inside returns the lowest and the highest address of the range.
func c19Inside(n *net.IPNet) []net.IP {
	lo := append(net.IP(nil), n.IP...)
	hi := append(net.IP(nil), n.IP...)
	for i := range hi {
		hi[i] |= ^n.Mask[i]
	}
	if lo.Equal(hi) {
		return []net.IP{lo}
	}
	return []net.IP{lo, hi}
}

func c19HostPort(ip net.IP) string { return net.JoinHostPort(ip.String(), "443") }

// enforce checks oracle 2 for the configuration text that the station just
// accepted, against the policy object in force.
func (w *c19World) enforce(when string, text string, pol *RegConfig) bool {
	var l c19Lists4
	if _, err := toml.Decode(text, &l); err != nil {
		w.r.Logf("%s: enforcement not judged (the harness cannot read the list keys: %v)", when, err)
		return true
	}
	fail := func(list string, e c19Entry, what string) bool {
		sig := "C19/entry-not-enforced/" + list
		if !e.strict {
			sig = "C19/entry-dropped/" + list
		}
		return w.r.Fail(sig, "%s: configuration accepted, but entry %q of %s %s", when, e.raw, strings.ReplaceAll(list, "-", " "), what)
	}
	// allowlist
	var allow []c19Entry
	for _, raw := range l.CovertAllowlistSubnets {
		allow = append(allow, c19Intended(raw))
	}
	for _, e := range allow {
		if e.intended == nil {
			if fail("covert-allowlist", e, "cannot be parsed as a subnet (the load should have failed)") {
				return false
			}
			continue
		}
		for _, ip := range c19Inside(e.intended) {
			if got, _ := pol.ParseOrResolveBlocklisted(c19HostPort(ip)); got == "" {
				if fail("covert-allowlist", e, fmt.Sprintf("is not in force: covert address %s inside it is refused", c19HostPort(ip))) {
					return false
				}
				break
			}
		}
	}
	if len(allow) > 0 {
		w.r.Probe("allowlist_configured")
		// an address outside every allowlisted range must be refused
		for _, out := range []string{"203.0.113.9:443", "[2001:db8:ffff::9]:443"} {
			if got, _ := pol.ParseOrResolveBlocklisted(out); got != "" {
				worst := allow[0]
				for _, e := range allow {
					if !e.strict {
						worst = e
					}
				}
				if fail("covert-allowlist", worst, fmt.Sprintf("(and the allowlist as a whole) is not in force: covert address %s outside every allowlisted subnet is admitted as %s", out, got)) {
					return false
				}
				break
			}
		}
		if len(l.CovertBlocklistSubnets) > 0 {
			// documented precedence: with an allowlist the subnet blocklist is not consulted; not judged
			w.r.Probe("allowlist_shadows_blocklist")
		}
	} else {
		for _, raw := range l.CovertBlocklistSubnets {
			e := c19Intended(raw)
			if e.intended == nil {
				if fail("covert-blocklist", e, "cannot be parsed as a subnet (the load should have failed)") {
					return false
				}
				continue
			}
			for _, ip := range c19Inside(e.intended) {
				if got, _ := pol.ParseOrResolveBlocklisted(c19HostPort(ip)); got != "" {
					if fail("covert-blocklist", e, fmt.Sprintf("is not in force: covert address %s inside it is admitted as %s", c19HostPort(ip), got)) {
						return false
					}
					break
				}
			}
		}
	}
	for _, raw := range l.PhantomBlocklist {
		e := c19Intended(raw)
		if e.intended == nil {
			if fail("phantom-blocklist", e, "cannot be parsed as a subnet (the load should have failed)") {
				return false
			}
			continue
		}
		for _, ip := range c19Inside(e.intended) {
			if !pol.IsBlocklistedPhantom(ip) {
				if fail("phantom-blocklist", e, fmt.Sprintf("is not in force: phantom address %s inside it is not refused", ip)) {
					return false
				}
				break
			}
		}
	}
	for _, pat := range l.CovertBlocklistDomains {
		e := c19Entry{raw: pat}
		re, err := regexp.Compile(pat)
		if err != nil {
			if fail("covert-blocklist-domains", e, "is not a regular expression (the load should have failed)") {
				return false
			}
			continue
		}
		e.strict = true
		host := ""
		for _, p := range c19GoodPatterns {
			if p.pat == pat {
				host = p.host
			}
		}
		if host == "" || !re.MatchString(host) {
			w.r.Probe("domain_pattern_without_known_host")
			continue
		}
		if got, _ := pol.ParseOrResolveBlocklisted(host + ":443"); got != "" {
			if fail("covert-blocklist-domains", e, fmt.Sprintf("is not in force: covert %s:443 is admitted as %s", host, got)) {
				return false
			}
		}
	}
	return true
}

// ---------------------------------------------------------------------------
// probe answers (reload differential)

func c19PolicyAnswers(pol *RegConfig) []string {
	var out []string
	for _, p := range c19CovertProbes {
		got, lookup := pol.ParseOrResolveBlocklisted(p)
		if got == "" {
			got = "refused"
		}
		if lookup {
			got += "(dns)"
		}
		out = append(out, p+"->"+got)
	}
	for _, p := range c19PhantomProbes {
		out = append(out, fmt.Sprintf("phantom %s->%v", p, pol.IsBlocklistedPhantom(net.ParseIP(p))))
	}
	return out
}

func c19Draws(sel *phantoms.PhantomIPSelector) []string {
	var out []string
	lv := uint(core.CurrentClientLibraryVersion())
	for _, g := range c19Gens {
		for s := 0; s < 3; s++ {
			seed := make([]byte, 16)
			for i := range seed {
				seed[i] = byte(17*s + i + 1)
			}
			for _, v6 := range []bool{false, true} {
				ans := ""
				pv, _ := c19Catch(func() {
					ip, err := sel.Select(seed, g, lv, v6)
					if err != nil {
						ans = "err"
					} else {
						ans = ip.IP().String()
					}
				})
				if pv != "" {
					ans = "panic" // selection itself is not this property's subject
				}
				out = append(out, fmt.Sprintf("g%d/s%d/v6=%v->%s", g, s, v6, ans))
			}
		}
	}
	return out
}

func c19Digest(a []string) string {
	h := uint64(14695981039346656037)
	for _, s := range a {
		for i := 0; i < len(s); i++ {
			h = (h ^ uint64(s[i])) * 1099511628211
		}
		h = (h ^ 0xff) * 1099511628211
	}
	return fmt.Sprintf("%08x", uint32(h^(h>>32)))
}

func c19Same(a, b []string) bool {
	if len(a) != len(b) {
		return false
	}
	for i := range a {
		if a[i] != b[i] {
			return false
		}
	}
	return true
}

func c19FirstDiff(a, b []string) string {
	for i := range a {
		if i < len(b) && a[i] != b[i] {
			return fmt.Sprintf("%s (expected %s)", a[i], b[i])
		}
	}
	return "?"
}

// ---------------------------------------------------------------------------
// start-up (the part of cmd/application's main() up to "serving")

// startup returns false when the configuration is not accepted.
func (w *c19World) startup() bool {
	r := w.r
	os.Setenv("CJ_STATION_CONFIG", w.cfgPath)
	os.Setenv("PHANTOM_SUBNET_LOCATION", w.subPath)
	var conf *Config
	var err error
	if pv, where := c19Catch(func() { conf, err = ParseConfig() }); pv != "" {
		// a crash before serving: the configuration is not accepted. The property
		// speaks about accepted configurations only, so this is a failed load.
		circ := "other"
		if strings.Contains(pv, "regexp: Compile") {
			circ = "bad_domain_pattern"
		} else if _, has := c19Syntax(w.cfgText); !has {
			circ = "no_registration_keys"
		}
		r.Probe("startup_crash_in_ParseConfig/" + circ)
		r.Logf("start-up: ParseConfig PANICS (%s) at %s: the station never runs -> not accepted", pv, where)
		return false
	}
	if err != nil {
		r.Probe("startup_config_error")
		r.Logf("start-up: ParseConfig error (%s) -> not accepted", c19ErrClass(err))
		return false
	}
	if dec, _ := c19Syntax(w.cfgText); !dec {
		if r.Fail("C19/load-accepted/malformed-config", "start-up: ParseConfig accepted a document that is not valid TOML for the station's configuration type") {
			return false
		}
	}
	lvl := log.ErrorLevel
	if conf.LogLevel != "" {
		lvl, err = log.ParseLevel(conf.LogLevel)
		if err != nil || lvl == log.UnknownLevel {
			r.Probe("startup_bad_log_level")
			r.Logf("start-up: bad log level -> not accepted")
			return false
		}
	}
	log.SetLevel(lvl)
	if conf.RegConfig == nil {
		r.Probe("startup_no_regconfig")
		r.Logf("start-up: no registration section -> main() would crash -> not accepted")
		return false
	}
	w.conn = &c19ConnStats{}
	conf.RegConfig.ConnectingStats = w.conn
	// NewRegistrationManager ends the process (logger.Fatal) on a liveness
	// configuration error: find out beforehand.
	if _, err := liveness.New(conf.LivenessConfig()); err != nil {
		r.Probe("startup_liveness_config_error")
		r.Logf("start-up: liveness configuration error -> station exits -> not accepted")
		return false
	}
	var rm *RegistrationManager
	if pv, where := c19Catch(func() { rm = NewRegistrationManager(conf.RegConfig) }); pv != "" {
		r.Probe("startup_crash_in_NewRegistrationManager")
		r.Logf("start-up: NewRegistrationManager PANICS (%s) at %s -> not accepted", pv, where)
		return false
	}
	if rm == nil {
		r.Probe("startup_manager_nil")
		r.Logf("start-up: NewRegistrationManager returned nil (subnet file or GeoIP database unusable) -> not accepted")
		return false
	}
	privkeys, err := conf.ParsePrivateKey()
	if err != nil {
		r.Probe("startup_privkey_error")
		r.Logf("start-up: private key error -> not accepted")
		return false
	}
	zkey, err := conf.ParseZMQPrivateKey()
	if err != nil {
		r.Probe("startup_privkey_error")
		r.Logf("start-up: zmq private key error -> not accepted")
		return false
	}
	rm.registeredDecoys.registerForDetector = func(*DecoyRegistration) {}
	rm.registeredDecoys.updateInDetector = func(*DecoyRegistration) {}
	rm.AddTransport(pb.TransportType_Min, min.Transport{})
	rm.AddTransport(pb.TransportType_Obfs4, obfs4.Transport{})
	if pt, err := prefix.Default(privkeys); err == nil {
		rm.AddTransport(pb.TransportType_Prefix, pt)
	}
	w.regChan = make(chan interface{}, 10000)
	zi, err := NewZMQIngest("ipc://@zmq-proxy", w.regChan, zkey, conf.ZMQConfig)
	if err != nil {
		r.Logf("start-up: NewZMQIngest error -> not accepted")
		return false
	}
	w.rm, w.zi, w.conf = rm, zi, conf

	statInstance.moduleStats = nil
	statInstance.verboseStats = nil
	w.modules = []c19Module{{"zmq-ingest", zi}, {"liveness", rm.LivenessTester}, {"proxy", GetProxyStats()}, {"registration-manager", rm}}
	w.verbose = []c19Module{{"connecting(stub)", w.conn}}
	for _, m := range w.modules {
		Stat().AddStatsModule(m.m, false)
	}
	for _, m := range w.verbose {
		Stat().AddStatsModule(m.m, true)
	}

	ctx, cancel := context.WithCancel(context.Background())
	w.wg = new(sync.WaitGroup)
	w.wg.Add(1)
	var crashed atomic.Value
	go func() {
		defer func() {
			if p := recover(); p != nil {
				crashed.Store(fmt.Sprint(p))
			}
		}()
		rm.HandleRegUpdates(ctx, w.regChan, w.wg)
	}()
	c19Quiesce()
	w.cancel = cancel
	if c := crashed.Load(); c != nil {
		r.Probe("startup_crash_in_ingest_launch")
		r.Logf("start-up: launching the ingest workers PANICS (%v) -> the station dies while starting -> not accepted", c)
		return false
	}
	return true
}

// ---------------------------------------------------------------------------
// housekeeping

func (w *c19World) liveOnly() bool {
	lc := w.conf.LivenessConfig()
	return lc.CacheDuration != "" && lc.CacheDurationNonLive == ""
}

func (w *c19World) printStats(verbose bool) bool {
	pv, where := c19Catch(func() { Stat().PrintStats(verbose) })
	if pv == "" {
		return true
	}
	mods := w.modules
	if verbose {
		mods = w.verbose
	}
	culprit := ""
	for _, m := range mods {
		if p2, _ := c19Catch(func() { m.m.PrintAndReset(Stat().logger) }); p2 != "" && culprit == "" {
			culprit = m.name
		}
	}
	if culprit == "" {
		culprit = "stats-core"
	}
	if culprit == "liveness" && w.liveOnly() {
		culprit = "liveness-live-only"
	}
	return !w.r.Fail("C19/panic/stats/"+culprit, "PrintStats(verbose=%v) panics: %s at %s", verbose, pv, where)
}

func c19Secret(i int) []byte {
	s := make([]byte, 32)
	for j := range s {
		s[j] = byte(0x21*i + j + 3)
	}
	return s
}

var c19TrafficCoverts = []string{"203.0.113.5:443", "10.1.2.3:443", "ok.example.net:443", "localhost:80", "[2001:db8:ffff::5]:443", "rebind.example.net:443", "bad covert"}
var c19Sources = []pb.RegistrationSource{pb.RegistrationSource_API, pb.RegistrationSource_Detector, pb.RegistrationSource_DetectorPrescan, pb.RegistrationSource_Unspecified}

// ingestOne sends one registration through the real ingest workers. With race set the periodic
// statistics printers run while the registration is still in flight: every lock operation of the
// worker and of the printers is then a scheduling point, so the tape decides where the statistics
// reset lands inside the worker's accounting.
func (w *c19World) ingestOne(race bool) bool {
	tp := w.tp
	secret := tp.Choose("reg_secret", 4)
	gen := uint32(c19Gens[tp.Choose("reg_gen", len(c19Gens))])
	covert := c19TrafficCoverts[tp.Choose("reg_covert", len(c19TrafficCoverts))]
	src := c19Sources[tp.Choose("reg_source", len(c19Sources))]
	fam := tp.Choose("reg_family", 3) // 0: v4, 1: v6, 2: both
	v4, v6 := fam != 1, fam != 0
	pre := tp.Prob("reg_prescanned", 1, 4)
	w.dialLive.Store(int32(tp.Choose("reg_phantom_live", 2)))
	tt := pb.TransportType_Min
	// library generations of the clients vary (the statistics are kept per version)
	lv := []uint32{uint32(core.CurrentClientLibraryVersion()), uint32(core.CurrentClientLibraryVersion()), 0, 1, 2, 3, gen}[tp.Choose("reg_libver", 7)]
	c2s := &pb.ClientToStation{DecoyListGeneration: &gen, CovertAddress: &covert, Transport: &tt, V4Support: &v4, V6Support: &v6,
		ClientLibVersion: &lv, Flags: &pb.RegistrationFlags{Prescanned: &pre}}
	msg, err := proto.Marshal(&pb.C2SWrapper{SharedSecret: c19Secret(secret), RegistrationPayload: c2s, RegistrationSource: &src,
		RegistrationAddress: net.IPv4(198, 51, 100, 7).To4()})
	if err != nil {
		panic(err)
	}
	// the message goes through the real ingest workers; a panic there would end
	// the process, and parsing (phantom selection) is not this property's
	// subject: try the pure part first
	if pv, _ := c19Catch(func() { w.rm.parseRegMessage(msg) }); pv != "" {
		w.r.Logf("registration not sent: parsing it panics (%s) — outside this property", pv)
		return true
	}
	before := w.rm.registeredDecoys.TotalRegistrations()
	w.zi.addZMQMessage()
	ok := true
	if sc := c19Sched; race && sc != nil && hook.TaskName() != "" {
		w.r.Probe("stats_printed_while_registration_in_flight")
		w.r.Logf("the statistics printers run while the next registration is in flight")
		sc.LockYield, sc.UnlockYield = true, true
		w.regChan <- msg
		ok = w.printStats(false) && w.printStats(true)
		time.Sleep(time.Second)
		c19Quiesce()
		sc.LockYield, sc.UnlockYield = false, false
		if !ok {
			return false
		}
	} else {
		w.regChan <- msg
		time.Sleep(time.Second)
		c19Quiesce()
	}
	after := w.rm.registeredDecoys.TotalRegistrations()
	w.regsSent++
	w.r.Logf("registration secret=%d gen=%d covert=%q source=%s v4=%v v6=%v prescanned=%v phantom-probe=%s -> tracked %d->%d", secret, gen, covert, src, v4, v6, pre,
		[]string{"timeout", "refused"}[w.dialLive.Load()], before, after)
	if after > before {
		w.r.Probe("registration_tracked")
	}
	return true
}

func (w *c19World) epoch(tag string) bool {
	tp := w.tp
	traffic := tp.Choose("traffic", 4) // 0 none, 1 counters, 2 registrations + liveness, 3 both
	w.r.CoverU(uint64(traffic))
	if traffic&1 != 0 {
		ps := GetProxyStats()
		ps.addSession()
		ps.addBytes(int64(tp.Choose("bytes", 100000)), true)
		ps.addBytes(1, false)
		ps.addCompleted(int64(tp.Choose("completed_bytes", 3)), true)
		ps.addCompleted(0, false)
		ps.removeSession()
		Stat().AddConn()
		Stat().AddMissedReg()
		Stat().AddBytes(10, "Up")
		Stat().CloseConn()
		w.rm.AddErrReg()
		w.rm.addDroppedMessage()
		w.zi.addDroppedZMQMessage()
		w.conn.AddCreatedConnecting(0, "unk", "dtls")
	}
	if traffic&2 != 0 {
		n := 1 + tp.Choose("regs", 4)
		for i := 0; i < n; i++ {
			if !w.ingestOne(tp.Prob("stats_during_ingest", 1, 4)) {
				return false
			}
		}
		// direct liveness queries: fill the caches past small capacities
		k := tp.Choose("liveness_queries", 8)
		for i := 0; i < k; i++ {
			w.dialLive.Store(int32(tp.Choose("phantom_live", 2)))
			addr := fmt.Sprintf("192.0.2.%d", 1+tp.Choose("phantom_addr", 7))
			var live bool
			if pv, where := c19Catch(func() { live, _ = w.rm.LivenessTester.PhantomIsLive(addr, 443) }); pv != "" {
				w.r.Logf("liveness query for %s panics (%s at %s) — outside this property", addr, pv, where)
				continue
			}
			w.r.Logf("liveness query %s -> live=%v", addr, live)
		}
		time.Sleep(time.Second)
		c19Quiesce()
	}
	gap := []time.Duration{5 * time.Second, 0, time.Millisecond, 60 * time.Second, 2 * time.Hour}[tp.Choose("epoch_gap", 5)]
	time.Sleep(gap)
	w.r.Logf("%s: stats epoch (traffic=%d, +%v)", tag, traffic, gap)
	if !w.printStats(false) {
		return false
	}
	return w.printStats(true)
}

func (w *c19World) sweep() bool {
	d := []time.Duration{3 * time.Minute, 11 * time.Minute, 6*time.Hour + time.Minute}[w.tp.Choose("sweep_after", 3)]
	time.Sleep(d)
	before := w.rm.registeredDecoys.TotalRegistrations()
	pv, where := c19Catch(func() { w.rm.RemoveOldRegistrations() })
	if pv != "" {
		return !w.r.Fail("C19/panic/sweep", "RemoveOldRegistrations panics: %s at %s", pv, where)
	}
	after := w.rm.registeredDecoys.TotalRegistrations()
	w.r.Logf("sweep after +%v: %d -> %d registrations", d, before, after)
	if after < before {
		w.r.Probe("sweep_removed_registrations")
	}
	return true
}

// ---------------------------------------------------------------------------
// reload

var c19CfgKinds = []string{"unchanged", "new-valid", "new-any", "syntax-error", "missing", "directory", "empty-file", "no-registration-keys", "truncated", "shipped"}
var c19SubKinds = []string{"unchanged", "new-valid", "syntax-error", "missing", "directory", "bad-generation-key", "empty-file", "bad-cidr-inside", "weight-type-error"}

// reloadGlue re-implements the SIGHUP branch of cmd/application's main().
func (w *c19World) reloadGlue() (parsed bool, err error) {
	newConf, err := ParseConfig()
	if err != nil {
		return false, err
	}
	w.rm.OnReload(newConf.RegConfig)
	return true, nil
}

func (w *c19World) reload(ck, sk int) bool {
	r := w.r
	w.step++
	r.Cover("reload", c19CfgKinds[ck], c19SubKinds[sk])

	// ---- new files
	cfgBad, subBad := false, false // objectively unusable, whatever the loader says
	newCfgText := w.fileText
	switch c19CfgKinds[ck] {
	case "unchanged":
		cfgBad = w.fileBad
	case "new-valid":
		newCfgText = w.genDoc(false)
	case "new-any":
		newCfgText = w.genDoc(true)
	case "syntax-error":
		newCfgText = w.fileText + "\nthis line = = is not toml\n"
	case "missing":
		newCfgText = ""
		w.cfgPath = filepath.Join(w.dir, fmt.Sprintf("cfg%d-missing.toml", w.step))
		cfgBad = true
	case "directory":
		newCfgText = ""
		w.cfgPath = filepath.Join(w.dir, "adir")
		cfgBad = true
	case "empty-file":
		newCfgText = ""
	case "no-registration-keys":
		newCfgText = "log_level = \"error\"\nsocket_name = \"zmq-proxy\"\n"
	case "truncated":
		full := w.genDoc(false)
		newCfgText = full[:len(full)*(1+w.tp.Choose("truncate_at", 7))/8]
	case "shipped":
		newCfgText = w.shipped()
	}
	if k := c19CfgKinds[ck]; k != "unchanged" && k != "missing" && k != "directory" {
		w.cfgPath = w.write(fmt.Sprintf("cfg%d.toml", w.step), strings.ReplaceAll(newCfgText, "$S", w.dir))
	}
	if !cfgBad {
		if dec, _ := c19Syntax(newCfgText); !dec {
			cfgBad = true
		}
	}
	w.fileText, w.fileBad = newCfgText, cfgBad
	if ck != 0 {
		r.Fault("config:" + c19CfgKinds[ck])
	}
	subText := ""
	switch c19SubKinds[sk] {
	case "unchanged":
		subBad = w.subBad
	case "new-valid":
		subText = w.genSubnets()
	case "syntax-error":
		subText = c19StdSubnets + "\n[Networks.3\nWeight = = 1\n"
		subBad = true
	case "missing":
		w.subPath = filepath.Join(w.dir, fmt.Sprintf("sub%d-missing.toml", w.step))
		subBad = true
	case "directory":
		w.subPath = filepath.Join(w.dir, "adir")
		subBad = true
	case "bad-generation-key":
		subText = strings.ReplaceAll(c19StdSubnets, "Networks.2", "Networks.two")
	case "empty-file":
		subText = "\n"
	case "bad-cidr-inside":
		subText = strings.ReplaceAll(c19StdSubnets, "192.122.190.0/28", "192.122.190.0/33")
	case "weight-type-error":
		subText = strings.ReplaceAll(c19StdSubnets, "Weight = 1\n", "Weight = \"heavy\"\n")
	}
	if k := c19SubKinds[sk]; k != "unchanged" && k != "missing" && k != "directory" {
		w.subPath = w.write(fmt.Sprintf("sub%d.toml", w.step), subText)
		if _, err := ptoml.Load(subText); err != nil {
			subBad = true
		}
	}
	w.subBad = subBad
	if sk != 0 {
		r.Fault("subnets:" + c19SubKinds[sk])
	}
	os.Setenv("CJ_STATION_CONFIG", w.cfgPath)
	os.Setenv("PHANTOM_SUBNET_LOCATION", w.subPath)
	if ck != 0 {
		r.Logf("reload %d: config %s: %s", w.step, c19CfgKinds[ck], w.san(c19OneLine(newCfgText)))
	} else {
		r.Logf("reload %d: config unchanged", w.step)
	}
	r.Logf("reload %d: subnets %s", w.step, c19SubKinds[sk])

	// ---- reference: what a fresh load of the new files gives
	var freshConf *Config
	var freshErr error
	cfgOK := false
	if pv, _ := c19Catch(func() { freshConf, freshErr = ParseConfig() }); pv == "" && freshErr == nil && freshConf != nil && freshConf.RegConfig != nil {
		cfgOK = true
	}
	if cfgOK && cfgBad {
		if r.Fail("C19/load-accepted/malformed-config", "reload %d: ParseConfig accepts a configuration file that is missing, unreadable or not valid TOML for the station's configuration type", w.step) {
			return false
		}
		cfgOK = false
	}
	var freshSel *phantoms.PhantomIPSelector
	var selErr error
	subOK := false
	if pv, _ := c19Catch(func() { freshSel, selErr = phantoms.NewPhantomIPSelector() }); pv == "" && selErr == nil && freshSel != nil {
		subOK = true
	}
	if subOK && subBad {
		if r.Fail("C19/load-accepted/malformed-subnets", "reload %d: NewPhantomIPSelector accepts a subnet file that is missing, unreadable or not valid TOML", w.step) {
			return false
		}
		subOK = false
	}

	polBefore := c19PolicyAnswers(w.rm.RegConfig)
	drawsBefore := c19Draws(w.rm.PhantomSelector)

	// ---- the reload itself
	var parsed bool
	var glueErr error
	pv, where := c19Catch(func() { parsed, glueErr = w.reloadGlue() })
	if pv != "" {
		circ := "other"
		if strings.Contains(pv, "regexp: Compile") {
			circ = "bad-domain-pattern"
		} else if dec, has := c19Syntax(newCfgText); dec && !has && strings.Contains(pv, "nil pointer") {
			circ = "no-registration-keys"
		}
		if r.Fail("C19/panic/reload/"+circ, "reload %d (config %s, subnets %s) panics in the running station: %s at %s", w.step, c19CfgKinds[ck], c19SubKinds[sk], pv, where) {
			return false
		}
	}
	switch {
	case pv != "":
		r.Logf("reload %d: PANIC", w.step)
	case glueErr != nil:
		r.Logf("reload %d: config rejected (%s)", w.step, c19ErrClass(glueErr))
	default:
		r.Logf("reload %d: config parsed=%v, OnReload done", w.step, parsed)
	}

	polAfter := c19PolicyAnswers(w.rm.RegConfig)
	var drawsAfter []string
	if w.rm.PhantomSelector == nil {
		drawsAfter = []string{"selector is nil"}
	} else {
		drawsAfter = c19Draws(w.rm.PhantomSelector)
	}
	r.Logf("reload %d: policies %s -> %s, draws %s -> %s (config load ok=%v, subnets load ok=%v)", w.step,
		c19Digest(polBefore), c19Digest(polAfter), c19Digest(drawsBefore), c19Digest(drawsAfter), cfgOK, subOK)

	// ---- the GeoIP part: whatever the reload did, the station must still have a database it can ask
	// (every connection and every registration is looked up)
	if pv, where := c19Catch(func() {
		db := w.rm.GetGeoIP()
		if db == nil {
			panic("GetGeoIP() returns nil")
		}
		db.CC(net.IPv4(198, 51, 100, 7).To4())
		db.ASN(net.IPv4(198, 51, 100, 7).To4())
	}); pv != "" {
		if r.Fail("C19/reload/geoip/unusable-after-reload", "reload %d: after the reload a GeoIP lookup panics (%s at %s): the reload left the station without a usable database", w.step, pv, where) {
			return false
		}
	}

	// ---- differential, part "address policies"
	if !cfgOK {
		r.Probe("reload_config_failed")
		if !c19Same(polAfter, polBefore) {
			if r.Fail("C19/reload/policies/changed-after-failed-load", "reload %d: the new configuration (%s) did not load, yet the address policies changed: %s", w.step, c19CfgKinds[ck], c19FirstDiff(polAfter, polBefore)) {
				return false
			}
		}
	} else {
		r.Probe("reload_config_loaded")
		polNew := c19PolicyAnswers(freshConf.RegConfig)
		if !c19Same(polNew, polBefore) {
			r.Probe("reload_policies_differ_from_old")
		}
		if !c19Same(polAfter, polNew) {
			kind := "mixed"
			if c19Same(polAfter, polBefore) {
				kind = "not-replaced"
			}
			if r.Fail("C19/reload/policies/"+kind, "reload %d: the new configuration (%s) loads without error, but the policies in force are not those of a fresh load: %s", w.step, c19CfgKinds[ck], c19FirstDiff(polAfter, polNew)) {
				return false
			}
		}
	}
	// ---- differential, part "phantom subnets"
	switch {
	case !subOK:
		r.Probe("reload_subnets_failed")
		if !c19Same(drawsAfter, drawsBefore) {
			if r.Fail("C19/reload/phantom-subnets/changed-after-failed-load", "reload %d: the new subnet file (%s) did not load, yet phantom selection changed: %s", w.step, c19SubKinds[sk], c19FirstDiff(drawsAfter, drawsBefore)) {
				return false
			}
		}
	case cfgOK:
		r.Probe("reload_subnets_loaded")
		drawsNew := c19Draws(freshSel)
		if !c19Same(drawsNew, drawsBefore) {
			r.Probe("reload_draws_differ_from_old")
		}
		if !c19Same(drawsAfter, drawsNew) {
			kind := "mixed"
			if c19Same(drawsAfter, drawsBefore) {
				kind = "not-replaced"
			}
			if r.Fail("C19/reload/phantom-subnets/"+kind, "reload %d: the new subnet file (%s) loads without error, but phantom selection is not that of a fresh load: %s", w.step, c19SubKinds[sk], c19FirstDiff(drawsAfter, drawsNew)) {
				return false
			}
		}
	default:
		// the subnet file is fine but the configuration file is not: the station
		// abandons the whole reload. "replaced only if it loaded" permits both
		// outcomes; a mixture is not permitted.
		r.Probe("reload_config_failed_subnets_fine(either)")
		drawsNew := c19Draws(freshSel)
		if !c19Same(drawsAfter, drawsNew) && !c19Same(drawsAfter, drawsBefore) {
			if r.Fail("C19/reload/phantom-subnets/mixed", "reload %d: phantom selection is neither the old nor the new one: %s", w.step, c19FirstDiff(drawsAfter, drawsBefore)) {
				return false
			}
		}
	}
	if cfgOK {
		w.cfgText = newCfgText
		if !w.enforce(fmt.Sprintf("reload %d", w.step), newCfgText, w.rm.RegConfig) {
			return false
		}
	}
	return true
}

// ---------------------------------------------------------------------------
// scenario

// systematic cases: [mode, ...]
//
//	mode 6: [6, L-1, cfgKind1, subKind1, ...]  a forced sequence of L reloads on the shipped configuration
//	mode 7: [7, key, alternative]              a minimal document plus one scalar key with one alternative
func c19EnumCases(tier string) [][]int {
	var out [][]int
	for c := range c19CfgKinds {
		for s := range c19SubKinds {
			out = append(out, []int{6, 0, c, s})
		}
	}
	for k, key := range c19Scalars {
		for a := 0; a < len(key.safe)+len(key.fatal); a++ {
			out = append(out, []int{7, k, a})
		}
	}
	// sequences of two reloads: one file kept, the other varied twice
	for c1 := range c19CfgKinds {
		for c2 := range c19CfgKinds {
			out = append(out, []int{6, 1, c1, 0, c2, 0})
		}
	}
	for s1 := range c19SubKinds {
		for s2 := range c19SubKinds {
			out = append(out, []int{6, 1, 0, s1, 0, s2})
		}
	}
	if tier == "thorough" {
		// every sequence of two reloads
		for c1 := range c19CfgKinds {
			for s1 := range c19SubKinds {
				for c2 := range c19CfgKinds {
					for s2 := range c19SubKinds {
						if (s1 == 0 && s2 == 0) || (c1 == 0 && c2 == 0) {
							continue
						}
						out = append(out, []int{6, 1, c1, s1, c2, s2})
					}
				}
			}
		}
	}
	return out
}

func TestVerifC19(t *testing.T) {
	cases := map[string][][]int{"quick": c19EnumCases("quick"), "thorough": c19EnumCases("thorough")}
	sim.Main(t, sim.Config{
		Prop:     "C19",
		Scenario: c19Scenario,
		EnumN:    func(tier string) int { return len(cases[tier]) },
		EnumAt:   func(tier string, i int) []int { return cases[tier][i] },
		EnumLabels: func(tier string, i int) []string {
			c := cases[tier][i]
			if c[0] == 7 {
				return []string{"mode", "key", "alt"}[:len(c)]
			}
			l := []string{"mode", "seq_len"}
			for len(l) < len(c) {
				l = append(l, "cfg_kind", "sub_kind")
			}
			return l[:len(c)]
		},
		Runs:     map[string]int{"quick": 30000, "thorough": 1000000},
		NoCrypto: true,
		Real: []string{"ParseConfig (BurntSushi toml.DecodeFile via CJ_STATION_CONFIG) + RegConfig.ParseBlocklists", "NewRegistrationManager, RegistrationManager.OnReload",
			"phantoms.NewPhantomIPSelector (PHANTOM_SUBNET_LOCATION) and Select", "liveness.New / Cached- and UncachedLivenessTester with map and LRU caches",
			"geoip.New (empty / unreadable databases)", "Stats.PrintStats(false/true) driving ZMQIngester, liveness tester, ProxyStats and RegistrationManager PrintAndReset",
			"HandleRegUpdates + ingest workers (registrations enter through the registration channel), RemoveOldRegistrations",
			"ParseOrResolveBlocklisted / IsBlocklistedPhantom as policy queries", "real files in the per-process scratch directory; the shipped cmd/application/app_config.toml verbatim"},
		Stub: []string{"cmd/application main(): its start-up sequence and its SIGHUP branch (ParseConfig; on success OnReload) are re-implemented in the harness (c19World.startup / reloadGlue) because main() cannot be called",
			"connManager of cmd/application (verbose stats module, ConnectingTpStats): counting stand-in", "DNS resolver, liveness TCP probes and share-over-API POST (hook.SetNetSeams): scripted answers, no network",
			"detector announcements (redis): no-op functions", "ZMQ sockets are never opened (NewZMQIngest only; its counters are bumped directly)", "DTLS transport not registered", "wall clock (synctest bubble)",
			"os.Exit on a liveness configuration error is avoided by validating with liveness.New first"},
		Rule: "random: a TOML document in which each of 18 scalar keys is independently unset / valid / zero / (with probability 1/4 per document) malformed and each of the 4 list keys is unset / empty / 1-3 entries from pools that contain unparseable entries, or the shipped app_config.toml; a subnet file (standard / generated / missing / broken). " +
			"If start-up accepts: entry enforcement check, 3 statistics epochs (normal + verbose printer; no traffic / counters / 1-4 registrations through the ingest workers and up to 7 liveness queries; epoch lengths 0, 1 ms, 5 s, 60 s, 2 h), a sweep after 3 min / 11 min / 6 h, then 0-4 reloads (10 configuration kinds x 9 subnet-file kinds) each followed by the differential on 29 policy probes and 24 selector draws, an enforcement check, a statistics epoch and (1/2) a sweep. " +
			"systematic: on the shipped configuration every single reload (configuration kind x subnet kind), every sequence of two reloads that varies one of the two files (thorough: every sequence of two reloads), and every alternative of every scalar key alone. non-trivial = start-up accepted the configuration; distinct = hash of the documents, reload kinds and traffic kinds",
		Assume: []string{"a panic or process exit during the INITIAL load is a failed load (the property quantifies over accepted configurations); it is counted as probe startup_crash_*, not as a violation",
			"with a non-empty allowlist the subnet blocklist is not judged (documented precedence of the allowlist)",
			"when the configuration file fails to load but the subnet file is fine, the phantom subnets may be the old or the new ones (main() abandons the whole reload); a mixture is a violation",
			"a subnet file that parses but contains an unusable subnet or no generation is 'loaded without error' (judged only against a fresh selector built from the same file)",
			"GeoIP with real MaxMind databases is not exercised (no database in the sandbox); only unset / empty / missing / unreadable paths",
			"probe addresses are taken from documentation / private ranges; with covert_blocklist_public_addrs=true the machine's interface addresses enter the blocklist, which can only add refusals (never judged as a violation)",
			"phantom subnet files with weight 0 are not generated (selection with a zero total weight panicked before fix ee8285a; it is C14's subject)"},
	})
}

// c19Scenario runs the whole (single-threaded) scenario as ONE task of a scheduler: the package's
// locks are then emulated, so a lock that a reload or a printer leaves held shows up as a deadlock
// verdict (the director waits for a lock nobody will release) instead of hanging the process.
var c19Sched *hook.Sched

func c19Scenario(r *sim.Run) {
	s := hook.Install(r.Tape)
	defer s.Uninstall()
	c19Sched = s
	defer func() { c19Sched = nil }()
	finished := false
	// a panic in one of the station's own goroutines (ingest workers do the statistics accounting
	// of a registration) takes the station down
	s.OnTaskPanic = func(task string, v any) {
		if task == "director" {
			panic(v)
		}
		r.Fail("C19/panic/station-goroutine", "a goroutine of the station (%s) panicked: %v", strings.SplitN(task, "/", 2)[0], v)
	}
	s.Spawn("director", func() {
		c19Body(r)
		finished = true
	})
	st := sim.Drive(r, s, sim.DriveOpt{Horizon: 100000 * time.Hour, MaxSteps: 1000000, Until: func() bool { return finished }})
	defer s.Finish()
	if st == sim.Deadlock || (st != sim.Done && st != sim.AllExited && st != sim.Failed && !finished) {
		r.Fail("C19/deadlock/housekeeping", "statistics / expiry / reload blocked for ever (%v): %s", st, s.WaitForGraph())
	}
}

// c19Quiesce waits until every other goroutine of the run is blocked or has exited (the scenario
// runs as a scheduler task, so it cannot call synctest.Wait itself: the root is inside it).
func c19Quiesce() {
	if hook.TaskName() == "" {
		synctest.Wait()
		return
	}
	hook.ParkIdle("quiesce")
}

func c19Body(r *sim.Run) {
	tp := r.Tape
	w := c19NewWorld(r)
	defer w.teardown()
	if verifLogFile != nil {
		// the station's own output (statistics lines) is of no use to this world: keep the capture file bounded
		verifLogFile.Truncate(0)
		verifLogFile.Seek(0, 0)
	}

	mode := tp.Choose("mode", 8)
	forcedReload := [][2]int(nil)
	switch mode {
	case 6:
		n := 1 + tp.Choose("seq_len", 2)
		desc := ""
		for i := 0; i < n; i++ {
			ck, sk := tp.Choose("cfg_kind", len(c19CfgKinds)), tp.Choose("sub_kind", len(c19SubKinds))
			forcedReload = append(forcedReload, [2]int{ck, sk})
			desc += fmt.Sprintf(" (%s, %s)", c19CfgKinds[ck], c19SubKinds[sk])
		}
		w.cfgText = w.shipped()
		w.subPath = w.write("sub0.toml", c19StdSubnets)
		r.Logf("systematic: shipped configuration, reload sequence%s", desc)
	case 7:
		k := tp.Choose("key", len(c19Scalars))
		key := c19Scalars[k]
		alts := append(append([]string{}, key.safe...), key.fatal...)
		a := tp.Choose("alt", len(alts))
		w.cfgText = "enable_v4 = true\n"
		if key.name == "enable_v4" {
			w.cfgText = "enable_v6 = true\n"
		}
		w.cfgText += key.name + " = " + alts[a] + "\n"
		w.subPath = w.write("sub0.toml", c19StdSubnets)
	default:
		if tp.Prob("init_shipped", 1, 8) {
			w.cfgText = w.shipped()
			r.Probe("shipped_config_as_initial")
		} else {
			w.cfgText = w.genDoc(tp.Prob("init_fatal_ok", 1, 4))
		}
		switch tp.Choose("init_subnets", 12) {
		default:
			w.subPath = w.write("sub0.toml", c19StdSubnets)
		case 7, 8, 9:
			w.subPath = w.write("sub0.toml", w.genSubnets())
		case 10:
			w.subPath = filepath.Join(w.dir, "sub0-missing.toml")
		case 11:
			w.subPath = w.write("sub0.toml", c19StdSubnets+"\n[Networks.3\n")
		}
	}
	w.cfgPath = w.write("cfg0.toml", strings.ReplaceAll(w.cfgText, "$S", w.dir))
	w.fileText = w.cfgText
	line := c19OneLine(w.cfgText)
	r.Logf("initial config: %s", w.san(line))
	r.Cover(w.san(line))

	if !w.startup() {
		return
	}
	r.Nontrivial()
	r.Probe("accepted")
	if lc := w.conf.LivenessConfig(); lc.CacheDuration != "" || lc.CacheDurationNonLive != "" {
		r.Probe("cached_liveness_tester")
		if lc.CacheCapacity != 0 {
			r.Probe("lru_liveness_cache")
		}
	}
	r.Logf("start-up: accepted")
	if !w.enforce("start-up", w.cfgText, w.rm.RegConfig) {
		return
	}
	for e := 0; e < 3; e++ {
		if !w.epoch(fmt.Sprintf("epoch %d", e+1)) {
			return
		}
	}
	if !w.sweep() {
		return
	}
	nre := len(forcedReload)
	if forcedReload == nil {
		nre = tp.Choose("reloads", 5)
	}
	for i := 0; i < nre; i++ {
		var ck, sk int
		if forcedReload != nil {
			ck, sk = forcedReload[i][0], forcedReload[i][1]
		} else {
			ck, sk = tp.Choose("cfg_kind", len(c19CfgKinds)), tp.Choose("sub_kind", len(c19SubKinds))
		}
		if !w.reload(ck, sk) {
			return
		}
		if !w.epoch(fmt.Sprintf("after reload %d", i+1)) {
			return
		}
		if tp.Bool("sweep_after_reload") {
			if !w.sweep() {
				return
			}
		}
	}
}
