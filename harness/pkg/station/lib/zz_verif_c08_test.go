package lib

// C08 — registry world: the real RegistrationManager / RegisteredDecoys API and
// the real transports' identifier functions under the simulated clock, driven
// by generated histories and compared step by step with an expiry reference
// model.

import (
	"bytes"
	"fmt"
	"net"
	"sort"
	"strings"
	"testing"
	"time"

	"github.com/refraction-networking/conjure/pkg/core"
	"github.com/refraction-networking/conjure/pkg/station/log"
	"github.com/refraction-networking/conjure/pkg/transports/wrapping/min"
	"github.com/refraction-networking/conjure/pkg/transports/wrapping/obfs4"
	"github.com/refraction-networking/conjure/pkg/transports/wrapping/prefix"
	pb "github.com/refraction-networking/conjure/proto"

	"verif/sim"
	"verif/sim/hook"
)

var c08Transports = []pb.TransportType{pb.TransportType_Min, pb.TransportType_Prefix, pb.TransportType_Obfs4}
var c08TName = []string{"min", "prefix", "obfs4"}

// time advances; all keep ages at least 1 ms away from the two thresholds in
// every combination that the small alphabet can produce
var c08Deltas = []time.Duration{
	time.Second + 1*time.Millisecond, 2*time.Minute + 59*time.Second + 3*time.Millisecond, 3*time.Minute + 7*time.Millisecond,
	9*time.Minute + 59*time.Second + 13*time.Millisecond, 10*time.Minute + time.Second + 29*time.Millisecond,
	5*time.Hour + 59*time.Minute + 61*time.Millisecond, 6*time.Hour + time.Minute + 127*time.Millisecond,
}

type c08Key struct {
	phantom string
	tr      int
	secret  int
}

type c08Entry struct {
	at    time.Time
	used  bool
	valid bool
	obj   *DecoyRegistration
}

type c08World struct {
	r     *sim.Run
	rm    *RegistrationManager
	model map[c08Key]*c08Entry
	made  []time.Time
	news  int
	upd   int
	s     *hook.Sched
	races int
}

func c08NewManager() *RegistrationManager {
	rm := &RegistrationManager{
		RegConfig:         &RegConfig{EnableIPv4: true, EnableIPv6: true},
		RegistrationStats: newRegistrationStats(),
		registeredDecoys:  NewRegisteredDecoys(),
		Logger:            log.New(&bytes.Buffer{}, "[REG] ", 0),
	}
	rm.AddTransport(pb.TransportType_Min, min.Transport{})
	rm.AddTransport(pb.TransportType_Obfs4, obfs4.Transport{})
	pt, err := prefix.Default([][32]byte{{1, 2, 3}})
	if err != nil {
		panic(err)
	}
	rm.AddTransport(pb.TransportType_Prefix, pt)
	return rm
}

func c08Secret(i int) []byte {
	s := make([]byte, 32)
	for j := range s {
		s[j] = byte(0x10*i + j + 1)
	}
	return s
}

func c08Phantom(secret, family int) net.IP {
	if family == 4 {
		return net.IPv4(192, 0, 2, byte(10+secret)).To4()
	}
	return net.ParseIP(fmt.Sprintf("2001:db8::%x", 10+secret))
}

func (w *c08World) mkReg(secret, tr, family int) *DecoyRegistration {
	keys, err := core.GenSharedKeys(uint(core.CurrentClientLibraryVersion()), c08Secret(secret), c08Transports[tr])
	if err != nil {
		panic(err)
	}
	src := pb.RegistrationSource_API
	t := w.rm.registeredDecoys.transports[c08Transports[tr]]
	reg := &DecoyRegistration{
		PhantomIp:          c08Phantom(secret, family),
		PhantomPort:        443,
		Keys:               &keys,
		Covert:             "203.0.113.5:443",
		Transport:          c08Transports[tr],
		TransportPtr:       &t,
		RegistrationSource: &src,
		RegistrationTime:   time.Now(),
	}
	if c08Transports[tr] == pb.TransportType_Prefix {
		reg.transportParams = &pb.PrefixTransportParams{PrefixId: new(int32)}
	}
	return reg
}

func (w *c08World) register(secret, tr, family int, validate bool) {
	reg := w.mkReg(secret, tr, family)
	k := c08Key{reg.PhantomIp.String(), tr, secret}
	if err := w.rm.TrackRegistration(reg); err != nil {
		w.r.Fail("C08/track-error", "TrackRegistration: %v", err)
		return
	}
	e := w.model[k]
	if e == nil {
		e = &c08Entry{at: time.Now(), obj: reg}
		w.model[k] = e
		w.made = append(w.made, time.Now())
		w.r.Logf("register secret=%d %s v%d (new)", secret, c08TName[tr], family)
	} else {
		w.r.Logf("register secret=%d %s v%d (duplicate)", secret, c08TName[tr], family)
		w.r.Probe("duplicate_registration")
	}
	if validate {
		w.rm.AddRegistration(reg)
		e.valid = true
	}
}

func (w *c08World) connect(secret, tr, family int) {
	k := c08Key{c08Phantom(secret, family).String(), tr, secret}
	e := w.model[k]
	phantom := c08Phantom(secret, family)
	regs := w.rm.GetRegistrations(phantom)
	// find the registration of this (secret, transport) among the returned ones
	var found *DecoyRegistration
	for _, rg := range regs {
		d := rg.(*DecoyRegistration)
		if d.Transport == c08Transports[tr] && bytes.Equal(d.Keys.SharedSecret, c08Secret(secret)) {
			found = d
		}
	}
	w.r.Logf("connect secret=%d %s v%d -> found=%v", secret, c08TName[tr], family, found != nil)
	if found == nil {
		return
	}
	if e == nil {
		// matched although the model says it was swept / never registered: checked by check()
		return
	}
	w.rm.MarkActive(found)
	e.used = true
}

func (w *c08World) expired(e *c08Entry, now time.Time) bool {
	age := now.Sub(e.at)
	return (!e.used && age > 10*time.Minute) || age > 6*time.Hour
}

// borderline: the age is within 1 ms of a threshold that matters; such an
// entry is a don't-care (the property says "younger than", the code compares
// with >; neither reading is imposed).
func (w *c08World) borderline(e *c08Entry, now time.Time) bool {
	age := now.Sub(e.at)
	near := func(th time.Duration) bool { d := age - th; return d > -time.Millisecond && d < time.Millisecond }
	return (!e.used && near(10*time.Minute)) || near(6*time.Hour)
}

func (w *c08World) sweep() bool {
	now := time.Now()
	w.rm.RemoveOldRegistrations()
	removed := 0
	for k, e := range w.model {
		if w.borderline(e, now) {
			// follow the implementation for this entry
			w.r.Probe("borderline_age_at_sweep")
			if _, ok := w.rm.registeredDecoys.decoys[k.phantom]; !ok || !w.implHas(k) {
				delete(w.model, k)
			}
			continue
		}
		if w.expired(e, now) {
			delete(w.model, k)
			removed++
		}
	}
	w.r.Logf("sweep (model removes %d, keeps %d)", removed, len(w.model))
	if removed > 0 {
		w.r.Nontrivial()
	}
	return w.check("after-sweep")
}

// raceSweep runs a sweep and a connection handler (lookup, then activation) as two tasks whose
// interleaving at the registry's lock operations the tape decides. For the connected registration
// the legitimate outcomes depend on the order: if it was about to expire (unused, older than 10
// minutes) either the sweep removes it entirely or the connection keeps it as a used registration;
// everything else is judged as after an ordinary sweep.
func (w *c08World) raceSweep(secret, tr, family int) bool {
	now := time.Now()
	k := c08Key{c08Phantom(secret, family).String(), tr, secret}
	e := w.model[k]
	w.races++
	s := w.s
	var found *DecoyRegistration
	handlerDone, strictKeep := false, false
	s.Spawn(fmt.Sprintf("sweeper%d", w.races), func() {
		if handlerDone && found != nil {
			strictKeep = true // the activation completed before the sweep began
		}
		w.rm.RemoveOldRegistrations()
	})
	s.Spawn(fmt.Sprintf("handler%d", w.races), func() {
		for _, rg := range w.rm.GetRegistrations(c08Phantom(secret, family)) {
			d := rg.(*DecoyRegistration)
			if d.Transport == c08Transports[tr] && bytes.Equal(d.Keys.SharedSecret, c08Secret(secret)) {
				found = d
			}
		}
		if found != nil {
			hook.Yield("matched")
			w.rm.MarkActive(found)
		}
		handlerDone = true
	})
	st := sim.Drive(w.r, s, sim.DriveOpt{Horizon: 1000000 * time.Hour, MaxSteps: 5000})
	if st == sim.Failed {
		return false
	}
	if st == sim.Deadlock {
		w.r.Fail("C08/deadlock", "sweep and connection handler block each other: %s", s.WaitForGraph())
		return false
	}
	if st != sim.AllExited {
		w.r.Fail("harness/c08-race", "race step did not finish: %v %v", st, s.LiveNames())
		return false
	}
	w.r.Probe("sweep_raced_by_connection")
	w.r.CoverU(s.SigHash)
	w.r.Logf("sweep raced by connect secret=%d %s v%d -> matched=%v, still tracked=%v", secret, c08TName[tr], family, found != nil, w.implHas(k))
	removed := 0
	for mk, me := range w.model {
		if w.borderline(me, now) {
			w.r.Probe("borderline_age_at_sweep")
			if !w.implHas(mk) {
				delete(w.model, mk)
			} else if mk == k && found != nil {
				me.used = true
			}
			continue
		}
		if mk == k && e != nil && found != nil {
			age := now.Sub(e.at)
			switch {
			case age > 6*time.Hour:
				delete(w.model, mk)
				removed++
			case e.used || age <= 10*time.Minute || strictKeep:
				e.used = true // not expired when the sweep looked: must be kept
			default:
				// about to expire while a connection arrives: the order decides
				w.r.Probe("connection_raced_expiry")
				w.r.Nontrivial()
				if w.implHas(mk) {
					e.used = true
				} else {
					delete(w.model, mk)
					removed++
				}
			}
			continue
		}
		if w.expired(me, now) {
			delete(w.model, mk)
			removed++
		}
	}
	if removed > 0 {
		w.r.Nontrivial()
	}
	return w.check("after-sweep")
}

// raceSweepRegister runs a sweep and a (re-)registration of one client as two tasks. If the client's
// earlier registration is expired the order decides: registered first, it is a repeat of a
// registration the sweep then removes; registered after the removal, it is a new registration with
// a new lifetime. Either way both maps agree afterwards.
func (w *c08World) raceSweepRegister(secret, tr, family int) bool {
	now := time.Now()
	k := c08Key{c08Phantom(secret, family).String(), tr, secret}
	e := w.model[k]
	w.races++
	s := w.s
	s.Spawn(fmt.Sprintf("sweeper%d", w.races), func() { w.rm.RemoveOldRegistrations() })
	var regErr error
	s.Spawn(fmt.Sprintf("registrar%d", w.races), func() {
		reg := w.mkReg(secret, tr, family)
		if regErr = w.rm.TrackRegistration(reg); regErr == nil {
			w.rm.AddRegistration(reg)
		}
	})
	st := sim.Drive(w.r, s, sim.DriveOpt{Horizon: 1000000 * time.Hour, MaxSteps: 5000})
	if st == sim.Failed {
		return false
	}
	if st == sim.Deadlock {
		w.r.Fail("C08/deadlock", "sweep and registration block each other: %s", s.WaitForGraph())
		return false
	}
	if st != sim.AllExited {
		w.r.Fail("harness/c08-race", "race step did not finish: %v %v", st, s.LiveNames())
		return false
	}
	if regErr != nil {
		w.r.Fail("C08/track-error", "TrackRegistration: %v", regErr)
		return false
	}
	w.r.Probe("sweep_raced_by_registration")
	w.r.CoverU(s.SigHash)
	tracked := w.implHas(k)
	w.r.Logf("sweep raced by register secret=%d %s v%d -> tracked afterwards=%v", secret, c08TName[tr], family, tracked)
	removed := 0
	for mk, me := range w.model {
		if mk == k {
			continue
		}
		if w.borderline(me, now) {
			if !w.implHas(mk) {
				delete(w.model, mk)
			}
			continue
		}
		if w.expired(me, now) {
			delete(w.model, mk)
			removed++
		}
	}
	switch {
	case e == nil:
		// a new registration: tracked from now on
		w.model[k] = &c08Entry{at: now, valid: true}
		w.made = append(w.made, now)
	case w.borderline(e, now):
		if tracked {
			// follow the implementation: kept as it was or re-made; its age is a don't-care from here on
			w.model[k] = &c08Entry{at: now, valid: true}
			w.made = append(w.made, now)
		} else {
			delete(w.model, k)
		}
	case w.expired(e, now):
		w.r.Probe("registration_raced_expiry")
		w.r.Nontrivial()
		if tracked {
			w.model[k] = &c08Entry{at: now, valid: true} // removed, then registered anew
			w.made = append(w.made, now)
		} else {
			delete(w.model, k) // a repeat of the old registration, removed by the sweep
			removed++
		}
	default:
		e.valid = true // a repeat of a live registration changes nothing
	}
	if removed > 0 {
		w.r.Nontrivial()
	}
	return w.check("after-sweep")
}

func (w *c08World) implHas(k c08Key) bool {
	for _, d := range w.rm.registeredDecoys.decoys[k.phantom] {
		if d.Transport == c08Transports[k.tr] && bytes.Equal(d.Keys.SharedSecret, c08Secret(k.secret)) {
			return true
		}
	}
	return false
}

// check compares what the implementation tracks with the model (after a sweep
// the two must agree exactly; between sweeps expired entries are don't-cares).
func (w *c08World) check(when string) bool {
	now := time.Now()
	rd := w.rm.registeredDecoys
	// implementation view
	impl := map[string]bool{}
	for ph, m := range rd.decoys {
		for _, d := range m {
			tr := -1
			for i, t := range c08Transports {
				if t == d.Transport {
					tr = i
				}
			}
			sec := -1
			for i := 0; i < 4; i++ {
				if bytes.Equal(d.Keys.SharedSecret, c08Secret(i)) {
					sec = i
				}
			}
			impl[fmt.Sprintf("%s/%s/s%d", ph, c08TName[tr], sec)] = true
		}
	}
	want := map[string]bool{}
	dontcare := map[string]bool{}
	for k, e := range w.model {
		name := fmt.Sprintf("%s/%s/s%d", k.phantom, c08TName[k.tr], k.secret)
		if when != "after-sweep" && w.expired(e, now) {
			dontcare[name] = true
			continue
		}
		want[name] = true
	}
	var missing, extra []string
	for n := range want {
		if !impl[n] {
			missing = append(missing, n)
		}
	}
	for n := range impl {
		if !want[n] && !dontcare[n] {
			extra = append(extra, n)
		}
	}
	sort.Strings(missing)
	sort.Strings(extra)
	shared := func(names []string) string {
		// circumstance for the signature: does one secret hold several registrations on one phantom?
		seen := map[string]int{}
		all := map[string]bool{}
		for n := range impl {
			all[n] = true
		}
		for n := range want {
			all[n] = true
		}
		for n := range all {
			parts := strings.Split(n, "/")
			seen[parts[0]+"/"+parts[2]]++
		}
		for _, c := range seen {
			if c > 1 {
				return "shared-secret-two-transports"
			}
		}
		return "single"
	}
	if len(missing) > 0 {
		if w.r.Fail("C08/removed-early/"+shared(missing), "%s: registrations that are still within their lifetime are no longer tracked: %v", when, missing) {
			return false
		}
	}
	if len(extra) > 0 {
		if w.r.Fail("C08/kept-past-lifetime/"+shared(extra), "%s: registrations past their lifetime (or never made) are still tracked: %v", when, extra) {
			return false
		}
	}
	// lookups never return a swept registration, and return every valid live one
	for k, e := range w.model {
		if !e.valid || w.expired(e, now) {
			continue
		}
		found := false
		for _, rg := range w.rm.GetRegistrations(net.ParseIP(k.phantom)) {
			d := rg.(*DecoyRegistration)
			if d.Transport == c08Transports[k.tr] && bytes.Equal(d.Keys.SharedSecret, c08Secret(k.secret)) {
				found = true
			}
		}
		if !found {
			if w.r.Fail("C08/live-registration-not-matchable", "%s: valid registration %v within its lifetime is not returned by GetRegistrations", when, k) {
				return false
			}
		}
	}
	if when == "after-sweep" {
		// bounded state: both maps agree in size (no orphaned timeout record / registration)
		total := rd.TotalRegistrations()
		if len(rd.decoysTimeouts) != total {
			if w.r.Fail("C08/maps-disagree/"+shared(append(missing, extra...)), "after sweep: %d timeout records but %d tracked registrations", len(rd.decoysTimeouts), total) {
				return false
			}
		}
		recent := 0
		for _, t := range w.made {
			if now.Sub(t) <= 6*time.Hour {
				recent++
			}
		}
		if total > recent {
			if w.r.Fail("C08/unbounded", "after sweep: %d registrations tracked but only %d were made in the last 6 h", total, recent) {
				return false
			}
		}
	}
	return true
}

// small alphabet for the systematic part
func (w *c08World) smallOp(op int) bool {
	switch op {
	case 0:
		w.register(0, 0, 4, true)
	case 1:
		w.register(0, 1, 4, true)
	case 2:
		w.register(1, 0, 4, true)
	case 3:
		w.register(0, 0, 6, false)
	case 4:
		w.connect(0, 0, 4)
	case 5:
		w.connect(0, 1, 4)
	case 6:
		time.Sleep(c08Deltas[3])
		w.r.Logf("advance %v", c08Deltas[3])
	case 7:
		time.Sleep(c08Deltas[5])
		w.r.Logf("advance %v", c08Deltas[5])
	case 8:
		time.Sleep(c08Deltas[2])
		w.r.Logf("advance %v", c08Deltas[2])
	case 9:
		return w.sweep()
	case 10:
		return w.raceSweep(0, 0, 4)
	case 11:
		return w.raceSweepRegister(0, 0, 4)
	}
	return w.check("step")
}

const c08SmallOps = 12

func TestVerifC08(t *testing.T) {
	sim.Main(t, sim.Config{
		Prop:     "C08",
		Scenario: c08Scenario,
		ExhaustRoots: func(tier string) [][]int {
			// root = [mode=1, length, first op] so that the enumeration spreads over the shards
			maxLen := 3
			if tier == "thorough" {
				maxLen = 6
			}
			var roots [][]int
			for l := 1; l <= maxLen; l++ {
				for op := 0; op < c08SmallOps; op++ {
					roots = append(roots, []int{1, l, op})
				}
			}
			return roots
		},
		ExhaustLabels: func(string, int) []string { return []string{"mode", "len", "op"} },
		ExhaustMax:    map[string]int{"quick": 200000, "thorough": 2000000},
		Runs:       map[string]int{"quick": 30000, "thorough": 400000},
		NoCrypto:   true,
		Real:       []string{"RegistrationManager.TrackRegistration / AddRegistration / GetRegistrations / MarkActive / RemoveOldRegistrations", "RegisteredDecoys (both maps, expiry rule)", "min / prefix / obfs4 GetIdentifier, core.GenSharedKeys"},
		Stub:       []string{"wall clock (synctest bubble)", "detector announcements (recording functions)", "goroutine scheduling and the registry mutex during the raced sweep (simulator)"},
		Rule: "systematic: every history of length 1..3 (thorough: 1..6, bounded per root) over a 12-operation alphabet {register+validate (s0,min,v4) / (s0,prefix,v4) / (s1,min,v4), register (s0,min,v6), connect x2, advance 9m59s / 5h59m / 3m, sweep, sweep raced by a connection handler, sweep raced by a re-registration (two tasks each, interleavings at the registry's lock operations chosen by the tape; systematic part: at most 2 preemptions per history)}; random: histories up to length 200 over 3 secrets x 3 transports x 2 families with duplicates, unvalidated registrations and 7 time steps. " +
			"The implementation's tracked set is compared with the reference model after every operation (exactly after a sweep). non-trivial = a sweep removed at least one model entry; distinct = distinct histories (hash of the operation sequence)",
		Assume: []string{"ages are kept at least 1 ms away from the 10 min / 6 h thresholds, so > versus >= is never decisive"},
	})
}

// c08Flood: "tracked state stays bounded by the registration rate" for a rate that is not small:
// thousands of registrations arrive within a minute (distinct sessions, distinct phantoms), none is
// used; eleven minutes later one sweep must leave nothing behind, and a flood half as large that
// arrived nine minutes later must be there in full.
func c08Flood(w *c08World, n int) {
	r := w.r
	mk := func(i int) *DecoyRegistration {
		secret := make([]byte, 32)
		secret[0], secret[1], secret[2], secret[3] = 0xF1, byte(i>>16), byte(i>>8), byte(i)
		keys, err := core.GenSharedKeys(uint(core.CurrentClientLibraryVersion()), secret, pb.TransportType_Min)
		if err != nil {
			panic(err)
		}
		src := pb.RegistrationSource_API
		t := w.rm.registeredDecoys.transports[pb.TransportType_Min]
		return &DecoyRegistration{PhantomIp: net.IPv4(10, byte(i>>16), byte(i>>8), byte(i)).To4(), PhantomPort: 443, Keys: &keys, Covert: "203.0.113.5:443",
			Transport: pb.TransportType_Min, TransportPtr: &t, RegistrationSource: &src, RegistrationTime: time.Now()}
	}
	add := func(from, to int) bool {
		for i := from; i < to; i++ {
			reg := mk(i)
			if err := w.rm.TrackRegistration(reg); err != nil {
				r.Fail("C08/track-error", "TrackRegistration: %v", err)
				return false
			}
			w.rm.AddRegistration(reg)
			if i%100 == 99 {
				time.Sleep(time.Second)
			}
		}
		return true
	}
	r.Logf("flood of %d registrations", n)
	r.Probe("flood_of_registrations")
	r.CoverU(uint64(n))
	if !add(0, n) {
		return
	}
	time.Sleep(9 * time.Minute)
	if !add(n, n+n/2) {
		return
	}
	time.Sleep(2*time.Minute + 10*time.Second)
	w.rm.RemoveOldRegistrations()
	rd := w.rm.registeredDecoys
	rd.m.RLock()
	regs, recs := rd.totalRegistrations(), len(rd.decoysTimeouts)
	rd.m.RUnlock()
	r.Nontrivial()
	if regs > n/2 || recs > n/2 {
		r.Fail("C08/kept-past-lifetime/flood", "%d unused registrations arrived within a minute, %d more nine minutes later; a sweep 11 min 10 s after the first flood leaves %d registrations and %d timeout records tracked (only the second flood, %d, is younger than 10 minutes)", n, n/2, regs, recs, n/2)
		return
	}
	if regs < n/2 || recs < n/2 {
		r.Fail("C08/removed-early/flood", "after the sweep %d registrations / %d timeout records are tracked, but the %d registrations of the second flood are only about 2 minutes old", regs, recs, n/2)
	}
}

func c08Scenario(r *sim.Run) {
	tp := r.Tape
	s := hook.Install(tp)
	defer s.Uninstall()
	defer s.Finish()
	s.LockYield = true
	w := &c08World{r: r, rm: c08NewManager(), model: map[c08Key]*c08Entry{}, s: s}
	w.rm.registeredDecoys.registerForDetector = func(*DecoyRegistration) { w.news++ }
	w.rm.registeredDecoys.updateInDetector = func(*DecoyRegistration) { w.upd++ }
	if tp.Choose("mode", 2) == 1 {
		s.MaxPreempt = 2 // systematic histories: every schedule of a raced sweep with at most 2 preemptions
		n := tp.Choose("len", 8)
		for i := 0; i < n; i++ {
			op := tp.Choose("op", c08SmallOps)
			r.CoverU(uint64(op))
			if !w.smallOp(op) {
				return
			}
		}
		// always end with a sweep far in the future? no: end with a sweep now, so every history is judged
		w.sweep()
		return
	}
	if tp.Prob("flood", 1, 400) {
		c08Flood(w, 5000+1500*tp.Choose("flood-size", 5))
		return
	}
	n := 1 + tp.Choose("len", 200)
	for i := 0; i < n; i++ {
		k := tp.Choose("kind", 12)
		r.CoverU(uint64(k))
		switch {
		case k == 11:
			sc, tr, f := tp.Choose("secret", 3), tp.Choose("transport", 3), 4+2*tp.Choose("family", 2)
			if !w.raceSweepRegister(sc, tr, f) {
				return
			}
			continue
		case k == 10:
			sc, tr, f := tp.Choose("secret", 3), tp.Choose("transport", 3), 4+2*tp.Choose("family", 2)
			if !w.raceSweep(sc, tr, f) {
				return
			}
			continue
		case k < 3:
			s, tr, f := tp.Choose("secret", 3), tp.Choose("transport", 3), 4+2*tp.Choose("family", 2)
			r.CoverU(uint64(s*100 + tr*10 + f))
			w.register(s, tr, f, !tp.Prob("unvalidated", 1, 5))
		case k < 5:
			s, tr, f := tp.Choose("secret", 3), tp.Choose("transport", 3), 4+2*tp.Choose("family", 2)
			r.CoverU(uint64(s*100 + tr*10 + f))
			w.connect(s, tr, f)
		case k < 8:
			d := c08Deltas[tp.Choose("delta", len(c08Deltas))]
			r.CoverU(uint64(d))
			time.Sleep(d)
			r.Logf("advance %v", d)
		default:
			if !w.sweep() {
				return
			}
			continue
		}
		if !w.check("step") {
			return
		}
	}
	w.sweep()
}
