//go:build verif

package lib

// Export shims for the simulator's worlds that live in other packages
// (cmd/application, pkg/regserver/regprocessor). Overlaid into the package at
// build time by /verif/bin/check with -tags verif; never part of /repo.

import (
	golog "log"
	"net"
	"os"
	"sync"

	"github.com/go-redis/redis/v8"
	"github.com/refraction-networking/conjure/pkg/station/log"
)

// VerifInitStatsNoTickers initialises the Stat() singleton without its two
// real-time tickers (see zz_verif_main_test.go).
func VerifInitStatsNoTickers() {
	statsOnce.Do(func() {
		statInstance = Stats{
			logger:      log.New(os.Stdout, "[STATS] ", golog.Ldate|golog.Lmicroseconds),
			generations: make(map[uint32]int64),
			genMutex:    &sync.Mutex{},
		}
	})
}

// VerifSetDetector replaces the two functions through which validated /
// activated registrations are announced to the detector.
func VerifSetDetector(rm *RegistrationManager, onNew, onUpdate func(*DecoyRegistration)) {
	rm.registeredDecoys.registerForDetector = onNew
	rm.registeredDecoys.updateInDetector = onUpdate
}

// VerifCounts returns the sizes of the two registry maps (counting only).
func VerifCounts(rm *RegistrationManager) (registrations, timeouts int) {
	rd := rm.registeredDecoys
	rd.m.RLock()
	defer rd.m.RUnlock()
	return rd.totalRegistrations(), len(rd.decoysTimeouts)
}

// VerifRegistrationAddr returns the registrant address stored in a registration.
func VerifRegistrationAddr(reg *DecoyRegistration) net.IP { return reg.registrationAddr }

// VerifParse runs the station's parsing of a forwarded registration message.
func VerifParse(rm *RegistrationManager, msg []byte) ([]*DecoyRegistration, error) {
	return rm.parseRegMessage(msg)
}

// VerifTransportParams returns the transport parameters the station attached to a registration.
func VerifTransportParams(reg *DecoyRegistration) any { return reg.transportParams }

// VerifIngest runs the station's admission procedure for one parsed registration.
func VerifIngest(rm *RegistrationManager, reg *DecoyRegistration) { rm.ingestRegistration(reg) }

// VerifSetRedis lets the C10 world install a go-redis client built over a
// simulated connection (the package-level client is normally created once,
// for localhost:6379).
func VerifSetRedis(c *redis.Client) {
	once = sync.Once{}
	once.Do(func() {})
	client = c
}

// verifRedisNewClient is what the rewritten initRedisClient calls instead of redis.NewClient
// (seamgen rule redisnew).
var verifRedisNewClient = redis.NewClient

// VerifOwnRedis makes the station build its detector client itself (the real getRedisClient /
// initRedisClient run on first use), through newClient, which can add a dialer into the
// simulated network to the station's own options.
func VerifOwnRedis(newClient func(*redis.Options) *redis.Client) {
	once = sync.Once{}
	client = nil
	if newClient == nil {
		newClient = redis.NewClient
	}
	verifRedisNewClient = newClient
}

// VerifZMQRegChan returns the channel a ZMQIngester delivers registration messages into (the main
// world stands in for the ZMQ sockets of RunZMQ and publishes into the channel main() created).
func VerifZMQRegChan(zi *ZMQIngester) chan<- interface{} { return zi.regChan }

// VerifResetStatsModules forgets the statistics modules earlier runs of main() added to the
// process-wide Stat() singleton.
func VerifResetStatsModules() {
	statInstance.moduleStats = nil
	statInstance.verboseStats = nil
}

// VerifPrintStats runs one statistics epoch of the Stat() singleton (what its tickers do).
func VerifPrintStats(verbose bool) { statInstance.PrintStats(verbose) }
