package assets

// Child side of the syscall-level crash / fault injector for property C20
// ("the client's stored ClientConf is replaced atomically").
//
// This file is overlaid into package pkg/client/assets by /verif/bin/check; it
// is never part of /repo. The resulting test binary is run by the tracer
// /verif/bin/ptracefi with VERIF_C20_CHILD set; it then does not run any Go
// test but one of the child modes below and exits.
//
//   VERIF_C20_CHILD   init  | store (or 1) | load | describe
//   VERIF_C20_DIR     the asset directory (absolute)
//   VERIF_C20_SEQ     the sequence seed (decimal, 60 bits, layout below)
//   VERIF_C20_REPORT  file the JSON-lines report is appended to; every line is
//                     written with exactly one write(2), the tracer uses those
//                     writes as markers (start, begin 0, end 0, begin 1, ...)
//
// Sequence seed layout (the tracer relies on bits 0..3 only, to drop stores
// while minimising; everything else it learns from the report):
//   bits  0..3   which of the four store positions are present (0 => position 0)
//   bits  4..5   initial directory: 0 no ClientConf file, 1 library default
//                configuration, 2 small custom configuration, 3 multi-megabyte
//   bits  6..17  four 3-bit operation codes, one per position
//   bits 18..59  parameter seed; the parameters of position p depend on
//                (parameter seed, p) only, so dropping a store leaves the others unchanged
//
// The child is strictly sequential: one goroutine, no timers, its own
// splitmix64 generator.

import (
	"crypto/sha256"
	"encoding/hex"
	"encoding/json"
	"fmt"
	"io"
	"os"
	"path"
	"strconv"
	"strings"
	"testing"

	"github.com/refraction-networking/conjure/pkg/station/log"
	pb "github.com/refraction-networking/conjure/proto"
	"google.golang.org/protobuf/proto"
)

func TestMain(m *testing.M) {
	if mode := os.Getenv("VERIF_C20_CHILD"); mode != "" {
		os.Exit(verifC20Child(mode))
	}
	os.Exit(m.Run())
}

// TestVerifC20 exists so that the orchestrator's table has a test name; the
// check itself is driven from outside the process by ptracefi.
func TestVerifC20(t *testing.T) {
	t.Skip("C20 is checked by /verif/bin/ptracefi tracing this binary as a child process")
}

type verifC20Rng struct{ s uint64 }

func (r *verifC20Rng) next() uint64 {
	r.s += 0x9e3779b97f4a7c15
	z := r.s
	z = (z ^ (z >> 30)) * 0xbf58476d1ce4e5b9
	z = (z ^ (z >> 27)) * 0x94d049bb133111eb
	return z ^ (z >> 31)
}

func (r *verifC20Rng) intn(n int) int { return int(r.next() % uint64(n)) }

func (r *verifC20Rng) bytes(n int) []byte {
	b := make([]byte, n)
	for i := 0; i < n; i += 8 {
		v := r.next()
		for j := 0; j < 8 && i+j < n; j++ {
			b[i+j] = byte(v >> (8 * j))
		}
	}
	return b
}

func (r *verifC20Rng) word(n int) string {
	const al = "abcdefghijklmnopqrstuvwxyz0123456789"
	b := make([]byte, n)
	for i := range b {
		b[i] = al[r.intn(len(al))]
	}
	return string(b)
}

const (
	verifC20OpSCCSmall = iota
	verifC20OpSCCBig
	verifC20OpDecoys
	verifC20OpPubkey
	verifC20OpGeneration
	verifC20OpPhantoms
)

var verifC20OpNames = []string{"SetClientConf/small", "SetClientConf/big", "SetDecoys", "SetPubkey", "SetGeneration", "SetPhantomSubnets"}

type verifC20Store struct {
	pos int
	op  int
	rng *verifC20Rng
}

type verifC20Seq struct {
	seed   uint64
	init   int
	stores []verifC20Store
}

func verifC20Decode(seed uint64) verifC20Seq {
	s := verifC20Seq{seed: seed, init: int(seed>>4) & 3}
	mask := int(seed & 15)
	if mask == 0 {
		mask = 1
	}
	pseed := seed >> 18
	for p := 0; p < 4; p++ {
		if mask&(1<<p) == 0 {
			continue
		}
		code := int(seed>>(6+3*p)) & 7
		op := code
		if code == 6 {
			op = verifC20OpSCCSmall
		} else if code == 7 {
			op = verifC20OpSCCBig
		}
		s.stores = append(s.stores, verifC20Store{pos: p, op: op, rng: &verifC20Rng{s: pseed*0x9e3779b97f4a7c15 + uint64(p+1)*0xd1342543de82ef95}})
	}
	return s
}

func verifC20Decoys(r *verifC20Rng, n int, hostLen int) []*pb.TLSDecoySpec {
	out := make([]*pb.TLSDecoySpec, 0, n)
	for i := 0; i < n; i++ {
		host := r.word(hostLen) + ".example"
		ip := uint32(r.next())
		d := &pb.TLSDecoySpec{Hostname: &host, Ipv4Addr: &ip}
		switch r.intn(4) {
		case 0:
			d.Ipv6Addr = r.bytes(16)
		case 1:
			to := uint32(20000 + r.intn(10000))
			d.Timeout = &to
		case 2:
			kt := pb.KeyType_AES_GCM_128
			d.Pubkey = &pb.PubKey{Key: r.bytes(32), Type: &kt}
		}
		out = append(out, d)
	}
	return out
}

func verifC20Phantoms(r *verifC20Rng) *pb.PhantomSubnetsList {
	l := &pb.PhantomSubnetsList{}
	for i, n := 0, 1+r.intn(3); i < n; i++ {
		w := uint32(1 + r.intn(9))
		ps := &pb.PhantomSubnets{Weight: &w}
		for j, m := 0, 1+r.intn(4); j < m; j++ {
			if r.intn(2) == 0 {
				ps.Subnets = append(ps.Subnets, fmt.Sprintf("192.%d.%d.0/24", r.intn(256), r.intn(256)))
			} else {
				ps.Subnets = append(ps.Subnets, fmt.Sprintf("2001:%x:%x::/64", r.intn(65536), r.intn(65536)))
			}
		}
		if r.intn(2) == 0 {
			b := true
			ps.RandomizeDstPort = &b
		}
		l.WeightedSubnets = append(l.WeightedSubnets, ps)
	}
	return l
}

func verifC20Conf(r *verifC20Rng, big bool) *pb.ClientConf {
	var decoys []*pb.TLSDecoySpec
	if big {
		// 2.2 .. 4.4 MB: hostnames of 200 bytes, about 220 bytes per decoy
		decoys = verifC20Decoys(r, 10000+r.intn(10000), 200)
	} else {
		decoys = verifC20Decoys(r, 1+r.intn(6), 12)
	}
	gen := uint32(2 + r.intn(1<<20))
	kt := pb.KeyType_AES_GCM_128
	kt2 := pb.KeyType_AES_GCM_256
	c := &pb.ClientConf{
		DecoyList:     &pb.DecoyList{TlsDecoys: decoys},
		Generation:    &gen,
		DefaultPubkey: &pb.PubKey{Key: r.bytes(32), Type: &kt},
		ConjurePubkey: &pb.PubKey{Key: r.bytes(32), Type: &kt2},
	}
	if r.intn(2) == 0 {
		c.PhantomSubnetsList = verifC20Phantoms(r)
	}
	if r.intn(2) == 0 {
		m := pb.DnsRegMethod_DOH
		target := "https://" + r.word(8) + ".example/dns-query"
		domain := r.word(6) + ".example"
		c.DnsRegConf = &pb.DnsRegConf{DnsRegMethod: &m, Target: &target, Domain: &domain, Pubkey: r.bytes(32)}
	}
	return c
}

// verifC20Do performs one store through the library's public setter.
func verifC20Do(st verifC20Store) error {
	r := st.rng
	switch st.op {
	case verifC20OpSCCSmall:
		return Assets().SetClientConf(verifC20Conf(r, false))
	case verifC20OpSCCBig:
		return Assets().SetClientConf(verifC20Conf(r, true))
	case verifC20OpDecoys:
		return Assets().SetDecoys(verifC20Decoys(r, 1+r.intn(8), 10))
	case verifC20OpPubkey:
		kt := pb.KeyType_AES_GCM_128
		return Assets().SetPubkey(&pb.PubKey{Key: r.bytes(32), Type: &kt})
	case verifC20OpGeneration:
		return Assets().SetGeneration(uint32(2 + r.intn(1<<24)))
	case verifC20OpPhantoms:
		return Assets().SetPhantomSubnets(verifC20Phantoms(r))
	}
	return fmt.Errorf("verif: unknown op %d", st.op)
}

type verifC20Line struct {
	Ev     string `json:"ev"`
	I      int    `json:"i"`
	Pos    int    `json:"pos"`
	Op     string `json:"op,omitempty"`
	Err    string `json:"err,omitempty"`
	Failed bool   `json:"failed"`
	Mem    string `json:"mem,omitempty"`     // sha256 of proto.Marshal(Assets().GetClientConfPtr())
	MemLen int    `json:"mem_len,omitempty"` // its length
	Raw    string `json:"raw,omitempty"`     // load: sha256 of the bytes of the file ClientConf
	RawLen int    `json:"raw_len"`
	Gen    uint32 `json:"gen,omitempty"`
	Decoys int    `json:"decoys,omitempty"`
	Init   int    `json:"init"`
	Seed   uint64 `json:"seed,omitempty"`
	Shape  string `json:"shape,omitempty"`
}

var verifC20Report *os.File

func verifC20Emit(l verifC20Line) {
	b, err := json.Marshal(l)
	if err != nil {
		panic(err)
	}
	b = append(b, '\n')
	if verifC20Report == nil {
		os.Stdout.Write(b)
		return
	}
	// one write(2) per line: the tracer counts them
	if _, err := verifC20Report.Write(b); err != nil {
		fmt.Fprintln(os.Stderr, "verif-c20: report write failed:", err)
		os.Exit(3)
	}
}

func verifC20Mem(l *verifC20Line) {
	c := Assets().GetClientConfPtr()
	b, err := proto.Marshal(c)
	if err != nil {
		l.Mem = "marshal-error:" + err.Error()
		return
	}
	h := sha256.Sum256(b)
	l.Mem = hex.EncodeToString(h[:])
	l.MemLen = len(b)
	l.Gen = c.GetGeneration()
	l.Decoys = len(c.GetDecoyList().GetTlsDecoys())
}

func verifC20Child(mode string) int {
	log.SetOutput(io.Discard)
	dir := os.Getenv("VERIF_C20_DIR")
	if rp := os.Getenv("VERIF_C20_REPORT"); rp != "" {
		f, err := os.OpenFile(rp, os.O_WRONLY|os.O_CREATE|os.O_APPEND, 0o644)
		if err != nil {
			fmt.Fprintln(os.Stderr, "verif-c20: cannot open report:", err)
			return 3
		}
		verifC20Report = f
	}
	if mode == "describe" {
		for _, s := range strings.Split(os.Getenv("VERIF_C20_SEQS"), ",") {
			seed, err := strconv.ParseUint(strings.TrimSpace(s), 10, 64)
			if err != nil {
				continue
			}
			seq := verifC20Decode(seed)
			verifC20Emit(verifC20Line{Ev: "describe", Seed: seed, Init: seq.init, Shape: verifC20Shape(seq)})
		}
		return 0
	}
	if dir == "" || !path.IsAbs(dir) {
		fmt.Fprintln(os.Stderr, "verif-c20: VERIF_C20_DIR must be an absolute path")
		return 3
	}
	seed, _ := strconv.ParseUint(os.Getenv("VERIF_C20_SEQ"), 10, 64)
	seq := verifC20Decode(seed)

	// The singleton is initialised exactly once per process. For sequences with an odd parameter
	// seed the store child initialises it from ANOTHER (empty) directory first and then switches to
	// the directory under test, as an application does that calls AssetsSetDir twice: what is in
	// memory before the first store is then the result of a re-read, not of the initialisation.
	if (mode == "store" || mode == "1") && (seed>>18)&1 == 1 {
		boot := dir + ".boot"
		if err := os.MkdirAll(boot, 0o755); err != nil {
			fmt.Fprintln(os.Stderr, "verif-c20: cannot create the boot directory:", err)
			return 3
		}
		AssetsSetDir(boot)
	}
	_, lerr := AssetsSetDir(dir)

	switch mode {
	case "load":
		l := verifC20Line{Ev: "load", Init: seq.init}
		if lerr != nil {
			l.Err = lerr.Error()
			l.Failed = true
		}
		verifC20Mem(&l)
		if raw, err := os.ReadFile(path.Join(dir, "ClientConf")); err == nil {
			h := sha256.Sum256(raw)
			l.Raw = hex.EncodeToString(h[:])
			l.RawLen = len(raw)
		} else {
			l.Raw = "unreadable:" + err.Error()
			l.RawLen = -1
		}
		verifC20Emit(l)
		return 0

	case "init":
		// Prepare the directory of a sequence: nothing, the library default, or a custom configuration.
		l := verifC20Line{Ev: "init", Init: seq.init}
		r := &verifC20Rng{s: (seed>>18)*0x9e3779b97f4a7c15 + 0x5bd1e995}
		var err error
		switch seq.init {
		case 0:
		case 1:
			err = Assets().SetGeneration(1)
		case 2:
			err = Assets().SetClientConf(verifC20Conf(r, false))
		case 3:
			err = Assets().SetClientConf(verifC20Conf(r, true))
		}
		if err != nil {
			l.Err = err.Error()
			l.Failed = true
		}
		verifC20Mem(&l)
		verifC20Emit(l)
		return 0

	case "store", "1":
		l := verifC20Line{Ev: "start", Init: seq.init, Seed: seed, Shape: verifC20Shape(seq)}
		if lerr != nil {
			l.Err = lerr.Error()
			l.Failed = true
		}
		verifC20Mem(&l)
		verifC20Emit(l)
		for i, st := range seq.stores {
			verifC20Emit(verifC20Line{Ev: "begin", I: i, Pos: st.pos, Op: verifC20OpNames[st.op]})
			err := verifC20Do(st)
			e := verifC20Line{Ev: "end", I: i, Pos: st.pos, Op: verifC20OpNames[st.op]}
			if err != nil {
				e.Err = err.Error()
				e.Failed = true
			}
			verifC20Mem(&e)
			verifC20Emit(e)
		}
		verifC20Emit(verifC20Line{Ev: "done", I: len(seq.stores)})
		return 0
	}
	fmt.Fprintln(os.Stderr, "verif-c20: unknown child mode", mode)
	return 3
}

func verifC20Shape(seq verifC20Seq) string {
	parts := []string{"init=" + []string{"none", "default", "small", "big"}[seq.init]}
	for _, st := range seq.stores {
		parts = append(parts, verifC20OpNames[st.op])
	}
	return strings.Join(parts, ",")
}
