package regprocessor

// C13 — the registrar keeps answering while its phantom-subnet configuration is
// reloaded. Real RegProcessor.RegisterBidirectional / ReloadSubnets (real
// phantoms selector loaded from real files); every lock operation of the
// package is a scheduling point of the simulator, locks are emulated with
// sync.RWMutex's writer preference, so a blocked registrar shows up as a
// wait-for cycle, deterministically.

import (
	"fmt"
	"net"
	"os"
	"path/filepath"
	"strings"
	"sync"
	"testing"
	"time"

	zmq "github.com/pebbe/zmq4"
	"github.com/refraction-networking/conjure/pkg/core"
	"github.com/refraction-networking/conjure/pkg/phantoms"
	"github.com/refraction-networking/conjure/pkg/transports/wrapping/min"
	pb "github.com/refraction-networking/conjure/proto"
	"google.golang.org/protobuf/proto"

	"verif/sim"
	"verif/sim/hook"
)

type c13Sock struct {
	mu   sync.Mutex
	msgs [][]byte
}

func (s *c13Sock) SendBytes(b []byte, f zmq.Flag) (int, error) {
	s.mu.Lock()
	s.msgs = append(s.msgs, append([]byte(nil), b...))
	s.mu.Unlock()
	return len(b), nil
}
func (s *c13Sock) Close() error { return nil }

var c13Files [2]string
var c13Nets = [2][2]*net.IPNet{}

func c13Setup(t *testing.T) {
	dir := os.Getenv("VERIF_SCRATCH")
	if dir == "" {
		dir = t.TempDir()
	}
	specs := [2][2]string{{"192.0.2.0/24", "2001:db8:a::/48"}, {"198.51.100.0/24", "2001:db8:b::/48"}}
	for i, sp := range specs {
		p := filepath.Join(dir, fmt.Sprintf("c13_subnets_%d.toml", i))
		body := fmt.Sprintf("[Networks]\n  [Networks.1]\n    Generation = 1\n    [[Networks.1.WeightedSubnets]]\n      Weight = 1\n      RandomizeDstPort = true\n      Subnets = [%q, %q]\n"+
			"  [Networks.2]\n    Generation = 2\n    [[Networks.2.WeightedSubnets]]\n      Weight = 1\n      RandomizeDstPort = true\n      Subnets = [%q]\n", sp[0], sp[1], sp[0])
		// generation 4 has IPv4 subnets only in the first file and both families in the second: a dual-stack
		// request of that generation fails under the old set and is served under the new one - in full
		if i == 0 {
			body += fmt.Sprintf("  [Networks.4]\n    Generation = 4\n    [[Networks.4.WeightedSubnets]]\n      Weight = 1\n      RandomizeDstPort = true\n      Subnets = [%q]\n", sp[0])
		} else {
			body += fmt.Sprintf("  [Networks.4]\n    Generation = 4\n    [[Networks.4.WeightedSubnets]]\n      Weight = 1\n      RandomizeDstPort = true\n      Subnets = [%q, %q]\n", sp[0], sp[1])
		}
		if i == 0 {
			// generation 3 exists only in the first file: after a reload to the second file it must be gone
			body += fmt.Sprintf("  [Networks.3]\n    Generation = 3\n    [[Networks.3.WeightedSubnets]]\n      Weight = 1\n      RandomizeDstPort = true\n      Subnets = [%q, %q]\n", sp[0], sp[1])
		}
		if err := os.WriteFile(p, []byte(body), 0o644); err != nil {
			t.Fatal(err)
		}
		c13Files[i] = p
		c13BadFiles[0] = filepath.Join(dir, "c13_does_not_exist.toml")
		c13BadFiles[1] = filepath.Join(dir, "c13_malformed.toml")
		os.WriteFile(c13BadFiles[1], []byte("[Networks]\n  [Networks.1\n Generation = \n"), 0o644)
		for j := 0; j < 2; j++ {
			_, n, _ := net.ParseCIDR(sp[j])
			c13Nets[i][j] = n
		}
	}
}

// small scenarios for the systematic part: request kinds (0=v4, 1=v6, 2=dual) and number of reloads
// reload kinds: 0 = valid file (alternating between the two sets), 1 = missing file, 2 = malformed file
var c13Small = []struct {
	reqs    []int
	reloads []int
}{
	{[]int{2}, []int{0}},
	{[]int{2, 0}, []int{0}},
	{[]int{2, 2}, []int{0}},
	{[]int{2}, []int{0, 0}},
	{[]int{1, 0}, []int{0}},
	{[]int{2, 1}, []int{0, 0}},
	{[]int{2}, []int{1}},
	{[]int{2, 0}, []int{2, 0}},
	{[]int{0}, []int{1, 1}},
	{[]int{3}, []int{0}},
	{[]int{3, 2}, []int{0}},
	{[]int{4, 0}, []int{0}},
	{[]int{5, 3}, []int{0, 1}},
	{[]int{7}, []int{0}},
	{[]int{7, 2}, []int{0}},
}

var c13BadFiles [2]string

func TestVerifC13(t *testing.T) {
	if os.Getenv("VERIF_PROP") == "C13" {
		c13Setup(t)
	}
	sim.Main(t, sim.Config{
		Prop:     "C13",
		Scenario: c13Scenario,
		ExhaustRoots: func(tier string) [][]int {
			var roots [][]int
			for i := range c13Small {
				roots = append(roots, []int{1, i})
			}
			return roots
		},
		ExhaustLabels: func(string, int) []string { return []string{"mode", "scn"} },
		ExhaustMax:    map[string]int{"quick": 4000, "thorough": 200000},
		Runs:       map[string]int{"quick": 20000, "thorough": 2000000},
		LeakSig:    "",
		Real:       []string{"regprocessor.RegisterBidirectional / processBdReq / processC2SWrapper / sendToZMQ / ReloadSubnets", "phantoms.GetPhantomSubnetSelector + PhantomIPSelector.Select (real files)", "min transport"},
		Stub:       []string{"ZMQ socket (recording zmqSender)", "goroutine scheduling and the package's mutexes (simulator, emulated RWMutex with writer preference)"},
		Rule: "systematic: for six small scenarios (1-2 requests x 1-2 reloads) every schedule with at most 2 preemptions at lock operations is enumerated depth-first; random: 1-3 requests (v4/v6/dual) x 0-2 reloads under uniformly random / stay-biased schedules. " +
			"non-trivial = at least one reload overlapped a request (a reload's lock operation was scheduled between the first and last step of a request); distinct = distinct schedule signatures (sequence of task,lock-operation)",
		Assume: []string{"harness test files built with //go:debug asynctimerchan=0", "lock and go statements of pkg/regserver/regprocessor are redirected to the simulator by the seamgen overlay; the emulation reproduces sync.RWMutex writer preference"},
	})
}

func c13Scenario(r *sim.Run) {
	tp := r.Tape
	s := hook.Install(tp)
	defer s.Uninstall()
	s.LockYield = true
	s.UnlockYield = true
	s.Trace = func(l string) { r.Logf("step %s", l) }

	var reqs []int
	var rkinds []int
	if tp.Choose("mode", 2) == 1 {
		sc := c13Small[tp.Choose("scn", len(c13Small))]
		reqs, rkinds = sc.reqs, sc.reloads
		s.MaxPreempt = 2
	} else {
		n := 1 + tp.Choose("nreq", 3)
		for i := 0; i < n; i++ {
			reqs = append(reqs, []int{0, 1, 2, 2, 3, 4, 5, 7}[tp.Choose("kind", 8)])
		}
		nr := tp.Choose("nreload", 4)
		for i := 0; i < nr; i++ {
			rkinds = append(rkinds, []int{0, 0, 0, 1, 2}[tp.Choose("reloadkind", 5)])
		}
		if tp.Bool("staybias") {
			s.StayNum, s.StayDen = 2, 3
		}
	}
	reloads := len(rkinds)
	// The subnet file is named by a process-wide environment variable. When reloads of different
	// kinds run concurrently, which file a particular reload reads depends on where the code reads
	// the variable relative to its lock operations; per-reload outcomes are then don't-cares and
	// only completion, old-or-new-in-full and continued service are judged.
	mixedKinds := false
	for _, k := range rkinds {
		if k != rkinds[0] {
			mixedKinds = true
		}
	}
	goodReloads := 0
	for _, k := range rkinds {
		if k == 0 {
			goodReloads++
		} else {
			r.Fault("reload/" + []string{"", "missing-file", "malformed-file"}[k])
		}
	}
	r.Logf("C13 reqs=%v reloads=%v", reqs, rkinds)

	os.Setenv("PHANTOM_SUBNET_LOCATION", c13Files[0])
	sel, err := phantoms.GetPhantomSubnetSelector()
	if err != nil {
		r.Fail("harness/c13-selector", "%v", err)
		return
	}
	sock := &c13Sock{}
	p := &RegProcessor{ipSelector: sel, sock: sock, metrics: verifMetrics}
	p.AddTransport(pb.TransportType_Min, min.Transport{})

	type out struct {
		resp *pb.RegistrationResponse
		err  error
		done bool
	}
	outs := make([]out, len(reqs))
	reloadDone := make([]bool, reloads)
	reloadErr := make([]error, reloads)
	// request kinds: 0 = IPv4 only, 1 = IPv6 only, 2 = dual stack (generation 1, both families
	// configured); requests that the registrar must REJECT, and that must not leave anything
	// behind: 3 = dual stack on generation 2 (no IPv6 subnets: the IPv6 selection fails after the
	// IPv4 one succeeded), 4 = IPv6 only on an unknown generation, 5 = IPv4 only on an unknown generation
	// 7 = dual stack on generation 4, which only the second file can serve for both families: the
	// request either fails (old set) or gets both addresses from the second file (new set)
	failing := func(kind int) bool { return kind >= 3 && kind != 7 }
	mkReq := func(i, kind int) *pb.C2SWrapper {
		secret := make([]byte, 32)
		for j := range secret {
			secret[j] = byte(i*31 + j*7 + 1)
		}
		tt := pb.TransportType_Min
		c2s := &pb.ClientToStation{
			Transport:           &tt,
			DecoyListGeneration: proto.Uint32(map[int]uint32{3: 2, 4: 9, 5: 9, 6: 3, 7: 4}[kind] + map[bool]uint32{true: 0, false: 1}[kind >= 3]),
			CovertAddress:       proto.String("203.0.113.9:443"),
			V4Support:           proto.Bool(kind != 1 && kind != 4),
			V6Support:           proto.Bool(kind != 0 && kind != 5),
			ClientLibVersion:    proto.Uint32(core.CurrentClientLibraryVersion()),
		}
		return &pb.C2SWrapper{SharedSecret: secret, RegistrationPayload: c2s}
	}
	// a panic in a request or reload goroutine takes the registrar down
	spawn := func(name string, f func()) {
		s.Spawn(name, func() {
			defer func() {
				if pv := recover(); pv != nil {
					r.Fail("C13/panic/"+strings.TrimRight(name, "0123456789"), "%s panicked: %v", name, pv)
				}
			}()
			f()
		})
	}
	for i, kind := range reqs {
		i, kind := i, kind
		spawn(fmt.Sprintf("req%d", i), func() {
			resp, err := p.RegisterBidirectional(mkReq(i, kind), pb.RegistrationSource_API, net.ParseIP("198.18.0.7").To4())
			outs[i] = out{resp, err, true}
		})
	}
	for j := 0; j < reloads; j++ {
		j := j
		spawn(fmt.Sprintf("reload%d", j), func() {
			switch rkinds[j] {
			case 0:
				os.Setenv("PHANTOM_SUBNET_LOCATION", c13Files[1])
			default:
				os.Setenv("PHANTOM_SUBNET_LOCATION", c13BadFiles[rkinds[j]-1])
			}
			reloadErr[j] = p.ReloadSubnets()
			reloadDone[j] = true
		})
	}
	st := sim.Drive(r, s, sim.DriveOpt{Horizon: time.Hour, MaxSteps: 2000})
	defer s.Finish()
	r.CoverU(s.SigHash)
	if reloads > 0 && len(reqs) > 0 {
		r.Nontrivial()
	}
	switch st {
	case sim.Failed:
		return
	case sim.Deadlock:
		r.Fail("C13/deadlock", "registrar blocked for ever: %s", s.WaitForGraph())
		return
	case sim.AllExited:
	default:
		r.Fail("C13/not-finished", "requests/reloads did not all complete (%v): %v", st, s.LiveNames())
		return
	}
	which := func(ip net.IP, fam int) int {
		for f := 0; f < 2; f++ {
			if c13Nets[f][fam].Contains(ip) {
				return f
			}
		}
		return -1
	}
	nOK := 0
	for i, o := range outs {
		if failing(reqs[i]) {
			if !o.done {
				r.Fail("C13/request-not-finished", "request %d (kind %d) did not return", i, reqs[i])
				return
			}
			if o.err == nil {
				// which set is in force decides nothing here: generation 2 has no IPv6 in either file, generation 9 exists in neither
				r.Fail("C13/unservable-request-accepted", "request %d (kind %d: no phantom can be selected) was answered without error", i, reqs[i])
				return
			}
			r.Probe("request_rejected_by_selection")
			continue
		}
		if reqs[i] == 7 && o.done && o.err != nil {
			r.Probe("family_missing_in_old_set_request_rejected")
			continue
		}
		nOK++
		if !o.done || o.err != nil || o.resp == nil {
			r.Fail("C13/request-failed", "request %d (kind %d): done=%v err=%v", i, reqs[i], o.done, o.err)
			return
		}
		f4, f6 := -2, -2
		if reqs[i] != 1 {
			if o.resp.Ipv4Addr == nil {
				r.Fail("C13/missing-address", "request %d: no IPv4 phantom in the response", i)
				return
			}
			f4 = which(uint32ToIPv4(o.resp.Ipv4Addr), 0)
		}
		if reqs[i] != 0 {
			if len(o.resp.Ipv6Addr) != 16 {
				r.Fail("C13/missing-address", "request %d: no IPv6 phantom in the response", i)
				return
			}
			f6 = which(net.IP(o.resp.Ipv6Addr), 1)
		}
		r.Logf("req%d kind=%d v4-from-file=%d v6-from-file=%d", i, reqs[i], f4, f6)
		if f4 == -1 || f6 == -1 {
			r.Fail("C13/address-outside-both-sets", "request %d: phantom is in neither the old nor the new subnet set (v4 file %d, v6 file %d)", i, f4, f6)
			return
		}
		if f4 >= 0 && f6 >= 0 && f4 != f6 {
			r.Fail("C13/mixed-subnet-sets", "request %d (dual stack): IPv4 phantom from subnet file %d but IPv6 phantom from file %d", i, f4, f6)
			return
		}
	}
	for j := range reloadDone {
		if !reloadDone[j] {
			r.Fail("C13/reload-not-finished", "reload %d did not complete", j)
			return
		}
		if mixedKinds {
			continue
		}
		if rkinds[j] == 0 && reloadErr[j] != nil {
			r.Fail("C13/reload-failed", "reload %d of a valid file: err=%v", j, reloadErr[j])
			return
		}
		if rkinds[j] != 0 && reloadErr[j] == nil {
			r.Fail("C13/bad-reload-accepted", "reload %d of a missing/malformed file reported success", j)
			return
		}
	}
	if len(sock.msgs) != nOK {
		_ = reloads
		r.Fail("C13/forward-count", "%d answered requests but %d messages forwarded to the stations", nOK, len(sock.msgs))
		return
	}
	// after everything completed: a further request and a further reload must still be served
	// (a failed reload must not leave the registrar blocked), a successful reload is in force, a
	// failed one changed nothing
	want := 0
	if goodReloads > 0 {
		want = 1
	}
	spawn("after.req", func() {
		resp, err := p.RegisterBidirectional(mkReq(99, 2), pb.RegistrationSource_API, net.ParseIP("198.18.0.7").To4())
		if err != nil || resp == nil {
			r.Fail("C13/request-failed", "request after the reloads: %v", err)
			return
		}
		got4, got6 := which(uint32ToIPv4(resp.Ipv4Addr), 0), which(net.IP(resp.Ipv6Addr), 1)
		if got4 != got6 || got4 < 0 {
			r.Fail("C13/mixed-subnet-sets", "request after the reloads: IPv4 phantom from file %d, IPv6 from file %d", got4, got6)
		} else if !mixedKinds && got4 != want {
			if want == 1 {
				r.Fail("C13/reload-lost", "a request issued after a successful reload completed still used the old subnet set")
			} else {
				r.Fail("C13/failed-reload-changed-selector", "only failing reloads ran, yet a later request did not use the original subnet set")
			}
		}
		os.Setenv("PHANTOM_SUBNET_LOCATION", c13Files[want])
		if err := p.ReloadSubnets(); err != nil {
			r.Fail("C13/reload-failed", "reload after the scenario: %v", err)
			return
		}
		// file `want` is in force now, whatever happened before. Generation 3 exists only in file 0:
		// the new set must be in force IN FULL, not merged into what was there
		resp3, err3 := p.RegisterBidirectional(mkReq(98, 6), pb.RegistrationSource_API, net.ParseIP("198.18.0.7").To4())
		if want == 1 && err3 == nil {
			r.Fail("C13/old-generation-survives-reload", "after a completed reload to a subnet file without generation 3, a generation-3 request is still answered (v4 %v): the old set was not replaced in full", uint32ToIPv4(resp3.Ipv4Addr))
		} else if want == 0 && err3 != nil {
			r.Fail("C13/request-failed", "generation-3 request with the first subnet file in force: %v", err3)
		}
	})
	switch st2 := sim.Drive(r, s, sim.DriveOpt{Horizon: 2 * time.Hour, MaxSteps: 2000}); st2 {
	case sim.AllExited, sim.Failed:
	case sim.Deadlock:
		r.Fail("C13/blocked-after-reload", "a request/reload issued after the scenario completed is blocked for ever: %s", s.WaitForGraph())
	default:
		r.Fail("C13/blocked-after-reload", "a request/reload issued after the scenario completed did not finish (%v): %v", st2, s.LiveNames())
	}
}
