package regprocessor

// C12 — what the registrar tells the client is what it tells the stations,
// unforgeably.
//
// World 3.4 (registrar + stations). Real RegProcessor.RegisterBidirectional →
// processBdReq → processC2SWrapper → sendToZMQ on a recording socket, real
// phantom selector loaded from a generated subnet file, real override sets
// (pkg/regserver/overrides), real subnet-override configuration decoded from
// generated TOML through the same functions NewRegProcessor uses. The forwarded
// bytes travel through a channel that may duplicate, delay and reorder them and
// are parsed by 1–2 real station RegistrationManagers
// (parseRegMessage → NewRegistrationC2SWrapper). The client side is the real
// ClientTransport of each transport, with the registration response applied the
// way gotapdance v1.7.10 ConjureReg.UnpackRegResp applies it.
//
// Three views are compared: (A) the RegistrationResponse returned to the
// client, (B) the RegistrationResponse inside the forwarded wrapper (and
// RegRespBytes when authenticated), (C) the DecoyRegistration(s) the station
// builds from the forwarded bytes.

import (
	"bytes"
	"context"
	"crypto/ed25519"
	"errors"
	"fmt"
	"io"
	mrand "math/rand"
	"net"
	"os"
	"path/filepath"
	"runtime"
	"sort"
	"strings"
	"testing"
	"testing/cryptotest"
	"time"

	"github.com/BurntSushi/toml"
	zmq "github.com/pebbe/zmq4"
	"github.com/refraction-networking/conjure/pkg/core"
	"github.com/refraction-networking/conjure/pkg/core/interfaces"
	"github.com/refraction-networking/conjure/pkg/phantoms"
	"github.com/refraction-networking/conjure/pkg/regserver/overrides"
	"github.com/refraction-networking/conjure/pkg/station/lib"
	stlog "github.com/refraction-networking/conjure/pkg/station/log"
	"github.com/refraction-networking/conjure/pkg/transports"
	"github.com/refraction-networking/conjure/pkg/transports/wrapping/min"
	"github.com/refraction-networking/conjure/pkg/transports/wrapping/obfs4"
	"github.com/refraction-networking/conjure/pkg/transports/wrapping/prefix"
	pb "github.com/refraction-networking/conjure/proto"
	"google.golang.org/protobuf/proto"
	"google.golang.org/protobuf/types/known/anypb"

	"verif/sim"
	"verif/sim/hook"
)

// ---------------------------------------------------------------------------
// process-wide setup (outside any bubble)

var (
	c12T    *testing.T
	c12Dir  string
	c12Null *os.File
)

func c12Setup(t *testing.T) {
	c12T = t
	c12Dir = os.Getenv("VERIF_SCRATCH")
	if c12Dir == "" {
		c12Dir = t.TempDir()
	}
	f, err := os.OpenFile(os.DevNull, os.O_WRONLY, 0)
	if err != nil {
		t.Fatal(err)
	}
	c12Null = f
}

// c12StatConfigs are the fixed configurations of the statistical sub-scenario
// ("every override subnet with a non-zero weight is used"): weights of the
// override subnets of the Min and of the Prefix transport.
var c12StatConfigs = []struct {
	min, pref []float64
}{
	{[]float64{1, 2, 1}, []float64{3, 1}},
	{[]float64{1, 1, 1, 1}, []float64{1, 0, 1}},
	{[]float64{9, 1}, []float64{1, 2, 3, 4}},
}

func TestVerifC12(t *testing.T) {
	if os.Getenv("VERIF_PROP") == "C12" {
		c12Setup(t)
	}
	sim.Main(t, sim.Config{
		Prop:     "C12",
		Scenario: c12Scenario,
		// systematic part: the statistical sub-scenario once per fixed configuration
		EnumN: func(tier string) int { return len(c12StatConfigs) },
		EnumAt: func(tier string, i int) []int {
			return []int{c12StatDen - 1, i}
		},
		EnumLabels: func(string, int) []string { return []string{"statistical", "stat-config"} },
		Runs: map[string]int{"quick": 40000, "thorough": 2000000},
		Real: []string{
			"regprocessor.RegisterBidirectional / processBdReq / processC2SWrapper / sendToZMQ (struct literal built the way NewRegProcessor builds it: validateOverridePercentages, splitOverrideSubnets, processOverrideSubnetsWeights on a TOML-decoded []Subnet)",
			"phantoms.GetPhantomSubnetSelector + PhantomIPSelector.Select on generated subnet files (1-3 generations, weighted groups, port randomisation on/off)",
			"overrides.RandPrefixOverride / FixedPrefixOverride / PrefixOverride (ParsePrefixes), interfaces.Overrides",
			"station lib.NewRegistrationManager + parseRegMessage + NewRegistrationC2SWrapper + NewRegistration (via lib.VerifParse), real min/obfs4/prefix station transports",
			"client min/obfs4/prefix ClientTransport (SetParams, Prepare, GetParams, SetSessionParams(.., true), GetDstPort), phantoms.SelectPhantom",
			"crypto/ed25519 signing and verification, protobuf marshalling",
		},
		Stub: []string{
			"ZMQ socket (recording zmqSender; may refuse one send)",
			"transport between registrar and stations (harness channel that duplicates, delays and reorders the forwarded messages)",
			"client library glue: gotapdance v1.7.10 ConjureReg.UnpackRegResp is re-stated in ~40 harness lines around the real ClientTransport objects (the library's ConjureReg cannot be built without its asset store)",
			"HTTP/DNS front ends (apiregserver/dnsregserver): RegisterBidirectional is called directly with the arguments they pass",
		},
		Rule: "random: per run one registrar configuration (authenticated or not; override set none/rand/fixed/file/rand+fixed; subnet overrides on/off with 0-4 weighted Min and Prefix override subnets, 0-2 exclusions, percentages 0/50/100/33.3/out-of-range) x one generated phantom subnet file x 1-2 stations x 1-4 requests " +
			"(transport min/prefix(all ids + random)/obfs4, params present/absent/mistyped, randomise on/off, flush policy, v4/v6/dual, client lib versions 0-5, overrides allowed/disabled/unset, forged registration_response / reg_resp_bytes / reg_resp_signature, registration source and address variants, short secrets, unknown generations); " +
			"each forwarded message is delivered 1-3 times per station in an order chosen by the tape, interleaved with later requests. " +
			"systematic: the statistical sub-scenario (every non-zero-weight override subnet is used within n = 28/min-weight-fraction substitutions) once per fixed configuration; it also appears in 1 of " + fmt.Sprint(c12StatDen) + " random runs. " +
			"non-trivial = at least one request was answered and its forwarded message was ingested by a station; distinct = distinct tuples (configuration class: authenticated, override set, subnet overrides, stations; set of per-request classes: transport, version class, family, overrides disabled, params present, forged, substituted, original excluded, params overridden; delivery pattern: duplicated, reordered, delayed)",
		Assume: []string{
			"harness test files built with //go:debug asynctimerchan=0",
			"registrar and stations load the same phantom subnet file; the stations support every prefix id the registrar's override sets can hand out (ids of the default prefix set)",
			"override subnet ports are in 1..65535 and override subnets are IPv4 CIDRs (as in the shipped reg_config.toml); override subnets of one transport are pairwise disjoint and disjoint from the phantom subnets so that a substitution can be attributed",
			"a station builds an IPv4 registration only for a registrant with an IPv4 address (documented in parseRegMessage); registrations the station does not build by that rule are not compared",
			"for client library versions < 3 the randomise flag of the transport parameters is not compared (the station normalises it to false for clients that cannot randomise)",
			"a client that configured a non-default flush policy keeps it whatever the registrar says (ClientTransport.SetSessionParams); the flush policy is therefore compared between response, forwarded message and station, not against the client object",
			"the client view of a field the response omits is the client's own derivation from the seed (phantoms.SelectPhantom, ClientTransport.GetDstPort); for library versions < 2 that derivation is not modelled and the field is not compared",
		},
	})
}

const c12StatDen = 100

// ---------------------------------------------------------------------------
// recording socket

type c12Sock struct {
	msgs     [][]byte
	failNext bool
	failed   int
}

func (s *c12Sock) SendBytes(b []byte, f zmq.Flag) (int, error) {
	if s.failNext {
		s.failNext = false
		s.failed++
		return 0, errors.New("resource temporarily unavailable (injected)")
	}
	s.msgs = append(s.msgs, append([]byte(nil), b...))
	return len(b), nil
}
func (s *c12Sock) Close() error { return nil }

// ---------------------------------------------------------------------------
// configuration

type c12Group struct {
	weight uint32
	rand   bool
	nets   []string
}

type c12Gen struct {
	id     uint32
	groups []c12Group
}

type c12Sub struct {
	cidr      string
	weight    float64
	port      uint32
	transport string
	prefixID  int
}

type c12Cfg struct {
	gens      []c12Gen
	auth      bool
	ovKind    int // 0 none, 1 rand, 2 fixed, 3 file, 4 rand+fixed
	ovFixedID int
	ovFile    string
	enforce   bool
	subs      []c12Sub
	excl      []string
	pMin      float64
	pPref     float64
	nStations int
	st2v6     bool
	st2v4     bool
}

var (
	c12V4Pool   = []string{"192.0.2.0/24", "198.51.100.0/25", "203.0.113.64/26", "100.64.0.0/16", "172.20.0.0/14", "198.18.7.9/32"}
	c12V6Pool   = []string{"2001:db8:a::/48", "2001:db8:b:1::/64", "2001:db8:c::/96", "fd00:12::/32", "2001:db8:d::7/128"}
	c12ExclPool = []string{"192.0.2.0/25", "198.51.100.0/25", "100.64.0.0/17", "172.20.0.0/15", "203.0.113.64/26", "192.0.2.0/24", "198.18.7.9/32", "100.64.128.0/17"}
	c12MinPool  = []string{"10.1.0.0/16", "10.2.3.0/24", "10.3.3.3/32", "10.4.0.0/30", "10.5.128.0/17"}
	c12PrefPool = []string{"10.101.0.0/16", "10.102.3.0/24", "10.103.3.3/32", "10.104.0.0/31", "10.105.0.0/20"}
	c12GenIDs   = []uint32{1, 2, 957, 1164}
	c12Ports    = []uint32{443, 80, 53, 22, 8443, 65535, 1}
	c12Weights  = []float64{1, 10, 10.7, 0.5, 3, 0}
	c12Prcnt    = []float64{100, 50, 0, 33.3, 150}
)

// forged marker values a client may put into its own C2SWrapper; none of them
// can be produced by the registrar (port 7 is below every port a transport or
// the configurations above can yield).
var (
	c12ForgedV4   = uint32(0x06060606)
	c12ForgedV6   = net.ParseIP("2001:db8:bad::6")
	c12ForgedPort = uint32(7)
	c12ForgedRand = []byte("forged-server-random")
	c12ForgedErr  = "forged-error-text"
)

func c12DrawCfg(tp *sim.Tape) *c12Cfg {
	c := &c12Cfg{}
	// phantom subnet file
	ngen := 1 + tp.Choose("ngen", 3)
	for g := 0; g < ngen; g++ {
		gen := c12Gen{id: c12GenIDs[g]}
		ngrp := 1 + tp.Choose("ngroup", 3)
		for k := 0; k < ngrp; k++ {
			grp := c12Group{weight: uint32(1 + tp.Choose("gweight", 9)), rand: !tp.Bool("norandport")}
			n4 := 1 + tp.Choose("n4", 2)
			for i := 0; i < n4; i++ {
				grp.nets = append(grp.nets, c12V4Pool[tp.Choose("v4net", len(c12V4Pool))])
			}
			n6 := 1 + tp.Choose("n6", 2)
			if tp.Prob("no-v6-in-group", 1, 16) {
				n6 = 0
			}
			for i := 0; i < n6; i++ {
				grp.nets = append(grp.nets, c12V6Pool[tp.Choose("v6net", len(c12V6Pool))])
			}
			gen.groups = append(gen.groups, grp)
		}
		c.gens = append(c.gens, gen)
	}
	c.auth = tp.Bool("auth")
	c.ovKind = tp.Choose("overrides", 5)
	c.ovFixedID = tp.Choose("fixed-prefix", 10)
	if c.ovKind == 3 {
		// max bar id port prefix-bytes
		nl := 1 + tp.Choose("ovlines", 3)
		var sb strings.Builder
		sb.WriteString("# generated\n")
		for i := 0; i < nl; i++ {
			bar := []int{100, 50, 0, 1}[tp.Choose("bar", 4)]
			fmt.Fprintf(&sb, "100 %d %d %d %s\n", bar, tp.Choose("ovid", 10), c12Ports[tp.Choose("ovport", len(c12Ports))], []string{"GET", "HTTP/1.1", "\x16\x03"}[tp.Choose("ovbytes", 3)])
		}
		c.ovFile = sb.String()
	}
	c.enforce = tp.Bool("enforce-subnet-overrides")
	if c.enforce {
		nmin := tp.Choose("nminsub", 5)
		perm := c12Perm(tp, len(c12MinPool))
		for i := 0; i < nmin; i++ {
			c.subs = append(c.subs, c12Sub{cidr: c12MinPool[perm[i]], weight: c12Weights[tp.Choose("weight", len(c12Weights))],
				port: c12Ports[tp.Choose("port", len(c12Ports))], transport: "Min_Transport"})
		}
		npref := tp.Choose("nprefsub", 5)
		perm = c12Perm(tp, len(c12PrefPool))
		for i := 0; i < npref; i++ {
			c.subs = append(c.subs, c12Sub{cidr: c12PrefPool[perm[i]], weight: c12Weights[tp.Choose("weight", len(c12Weights))],
				port: c12Ports[tp.Choose("port", len(c12Ports))], transport: "Prefix_Transport", prefixID: tp.Choose("subprefix", 11) - 1})
		}
		if tp.Prob("foreign-transport-subnet", 1, 8) {
			c.subs = append(c.subs, c12Sub{cidr: "10.200.0.0/16", weight: 5, port: 443, transport: "Obfs4_Transport"})
		}
		nex := tp.Choose("nexcl", 3)
		for i := 0; i < nex; i++ {
			c.excl = append(c.excl, c12ExclPool[tp.Choose("excl", len(c12ExclPool))])
		}
		c.pMin = c12Prcnt[tp.Choose("prcnt-min", len(c12Prcnt))]
		c.pPref = c12Prcnt[tp.Choose("prcnt-prefix", len(c12Prcnt))]
	}
	c.nStations = 1 + tp.Choose("nstations", 2)
	c.st2v4, c.st2v6 = true, true
	if c.nStations == 2 {
		switch tp.Choose("station2", 3) {
		case 1:
			c.st2v6 = false
		case 2:
			c.st2v4 = false
		}
	}
	return c
}

// c12Perm draws a permutation of 0..n-1 (identity when every draw is 0).
func c12Perm(tp *sim.Tape, n int) []int {
	p := make([]int, n)
	for i := range p {
		p[i] = i
	}
	for i := 0; i < n-1; i++ {
		j := i + tp.Choose("perm", n-i)
		p[i], p[j] = p[j], p[i]
	}
	return p
}

func (c *c12Cfg) subnetToml() string {
	var sb strings.Builder
	sb.WriteString("[Networks]\n")
	for _, g := range c.gens {
		fmt.Fprintf(&sb, "  [Networks.%d]\n    Generation = %d\n", g.id, g.id)
		for _, grp := range g.groups {
			fmt.Fprintf(&sb, "    [[Networks.%d.WeightedSubnets]]\n      Weight = %d\n      RandomizeDstPort = %v\n      Subnets = [", g.id, grp.weight, grp.rand)
			for i, n := range grp.nets {
				if i > 0 {
					sb.WriteString(", ")
				}
				fmt.Fprintf(&sb, "%q", n)
			}
			sb.WriteString("]\n")
		}
	}
	return sb.String()
}

func (c *c12Cfg) regToml() string {
	var sb strings.Builder
	fmt.Fprintf(&sb, "enforce_subnet_overrides = %v\nprcnt_min_regs_to_override = %v\nprcnt_prefix_regs_to_override = %v\n", c.enforce, c.pMin, c.pPref)
	for _, s := range c.subs {
		fmt.Fprintf(&sb, "[[override_subnet]]\ncidr = %q\nweight = %v\nport = %d\ntransport = %q\n", s.cidr, s.weight, s.port, s.transport)
		if s.transport == "Prefix_Transport" {
			fmt.Fprintf(&sb, "prefix_id = %d\n", s.prefixID)
		}
	}
	for _, e := range c.excl {
		fmt.Fprintf(&sb, "[[excluded_subnet_from_overrides]]\ncidr = %q\nweight = 28.7\nport = 80\ntransport = \"Min_Transport\"\n", e)
	}
	return sb.String()
}

func (c *c12Cfg) String() string {
	var gs []string
	for _, g := range c.gens {
		var grs []string
		for _, grp := range g.groups {
			grs = append(grs, fmt.Sprintf("w%d/rand=%v%v", grp.weight, grp.rand, grp.nets))
		}
		gs = append(gs, fmt.Sprintf("gen%d{%s}", g.id, strings.Join(grs, " ")))
	}
	var ss []string
	for _, s := range c.subs {
		ss = append(ss, fmt.Sprintf("%s:%s w=%v port=%d pid=%d", strings.TrimSuffix(s.transport, "_Transport"), s.cidr, s.weight, s.port, s.prefixID))
	}
	return fmt.Sprintf("auth=%v overrides=%s enforce=%v prcnt(min=%v,prefix=%v) subs=[%s] excl=%v stations=%d(st2 v4=%v v6=%v) subnets=%s",
		c.auth, c.ovName(), c.enforce, c.pMin, c.pPref, strings.Join(ss, "; "), c.excl, c.nStations, c.st2v4, c.st2v6, strings.Join(gs, " "))
}

func (c *c12Cfg) ovName() string {
	switch c.ovKind {
	case 1:
		return "rand"
	case 2:
		return fmt.Sprintf("fixed(%d)", c.ovFixedID)
	case 3:
		return fmt.Sprintf("file(%q)", c.ovFile)
	case 4:
		return fmt.Sprintf("rand+fixed(%d)", c.ovFixedID)
	}
	return "none"
}

type c12RegConf struct {
	Enforce bool     `toml:"enforce_subnet_overrides"`
	PMin    float64  `toml:"prcnt_min_regs_to_override"`
	PPref   float64  `toml:"prcnt_prefix_regs_to_override"`
	Subs    []Subnet `toml:"override_subnet"`
	Excl    []Subnet `toml:"excluded_subnet_from_overrides"`
}

// ---------------------------------------------------------------------------
// world

type c12Station struct {
	name    string
	rm      *lib.RegistrationManager
	pending []int          // outcome indices, one entry per copy in flight
	first   map[int]string // outcome index -> what the first delivered copy produced
	seen    map[int]int
}

type c12World struct {
	r        *sim.Run
	tp       *sim.Tape
	cfg      *c12Cfg
	p        *RegProcessor
	sock     *c12Sock
	sel      *phantoms.PhantomIPSelector
	pub      ed25519.PublicKey
	stations []*c12Station
	outs     []*c12Outcome
	quiet    bool
	ingested int
	// per transport: configured override subnets (all of them) and which were used
	subNets map[pb.TransportType][]*net.IPNet
	used    map[pb.TransportType][]int
	exclNet []*net.IPNet
}

func c12NewWorld(r *sim.Run, cfg *c12Cfg) *c12World {
	w := &c12World{r: r, tp: r.Tape, cfg: cfg, sock: &c12Sock{}, subNets: map[pb.TransportType][]*net.IPNet{}, used: map[pb.TransportType][]int{}}
	// everything below may print (geoip warning, percentage reset notice): keep the runner's output clean
	oldOut := os.Stdout
	os.Stdout = c12Null
	defer func() { os.Stdout = oldOut }()

	path := filepath.Join(c12Dir, "c12_subnets.toml")
	if err := os.WriteFile(path, []byte(cfg.subnetToml()), 0o644); err != nil {
		r.Fail("harness/c12-write", "%v", err)
		return nil
	}
	os.Setenv("PHANTOM_SUBNET_LOCATION", path)
	sel, err := phantoms.GetPhantomSubnetSelector()
	if err != nil {
		r.Fail("harness/c12-selector", "%v\n%s", err, cfg.subnetToml())
		return nil
	}
	w.sel = sel

	var rc c12RegConf
	if _, err := toml.Decode(cfg.regToml(), &rc); err != nil {
		r.Fail("harness/c12-regconf", "%v\n%s", err, cfg.regToml())
		return nil
	}
	// the steps of NewRegProcessor / NewRegProcessorNoAuth, minus the ZMQ socket
	pMin, pPref := validateOverridePercentages(rc.PMin, rc.PPref)
	minSubs, prefSubs := splitOverrideSubnets(rc.Subs)
	var priv ed25519.PrivateKey
	if cfg.auth {
		priv = ed25519.NewKeyFromSeed(w.tp.Bytes("registrar-key", ed25519.SeedSize))
		w.pub = priv.Public().(ed25519.PublicKey)
	}
	var ov interfaces.Overrides
	fixed := prefix.DefaultPrefixes[prefix.PrefixID(cfg.ovFixedID)]
	switch cfg.ovKind {
	case 1:
		ov = interfaces.Overrides([]interfaces.RegOverride{overrides.NewRandPrefixOverride()})
	case 2:
		ov = interfaces.Overrides([]interfaces.RegOverride{overrides.NewFixedPrefixOverride(fixed)})
	case 3:
		po, err := overrides.ParsePrefixes(strings.NewReader(cfg.ovFile))
		if err != nil {
			r.Fail("harness/c12-prefix-file", "%v", err)
			return nil
		}
		ov = interfaces.Overrides([]interfaces.RegOverride{po})
	case 4:
		ov = interfaces.Overrides([]interfaces.RegOverride{overrides.NewRandPrefixOverride(), overrides.NewFixedPrefixOverride(fixed)})
	}
	p := &RegProcessor{
		ipSelector:                             sel,
		sock:                                   w.sock,
		metrics:                                verifMetrics,
		authenticated:                          cfg.auth,
		privkey:                                priv,
		regOverrides:                           ov,
		transports:                             make(map[pb.TransportType]lib.Transport),
		enforceSubnetOverrides:                 rc.Enforce,
		minOverrideSubnets:                     minSubs,
		prefixOverrideSubnets:                  prefSubs,
		minOverrideSubnetsCumulativeWeights:    processOverrideSubnetsWeights(minSubs),
		prefixOverrideSubnetsCumulativeWeights: processOverrideSubnetsWeights(prefSubs),
		exclusionsFromOverride:                 make([]Subnet, len(rc.Excl)),
		prcntMinRegsToOverride:                 pMin,
		prcntPrefixRegsToOverride:              pPref,
	}
	copy(p.exclusionsFromOverride, rc.Excl)
	// the transports cmd/registration-server registers
	p.AddTransport(pb.TransportType_Min, min.Transport{})
	p.AddTransport(pb.TransportType_Obfs4, obfs4.Transport{})
	p.AddTransport(pb.TransportType_Prefix, prefix.DefaultSet())
	w.p = p

	// the oracle's own reading of the configuration (from the generator's data, not from the registrar's fields)
	for _, s := range cfg.subs {
		_, n, err := net.ParseCIDR(s.cidr)
		if err != nil {
			r.Fail("harness/c12-cidr", "%v", err)
			return nil
		}
		switch s.transport {
		case "Min_Transport":
			w.subNets[pb.TransportType_Min] = append(w.subNets[pb.TransportType_Min], n)
		case "Prefix_Transport":
			w.subNets[pb.TransportType_Prefix] = append(w.subNets[pb.TransportType_Prefix], n)
		}
	}
	for tt, ns := range w.subNets {
		w.used[tt] = make([]int, len(ns))
	}
	for _, e := range cfg.excl {
		_, n, _ := net.ParseCIDR(e)
		w.exclNet = append(w.exclNet, n)
	}

	for i := 0; i < cfg.nStations; i++ {
		conf := &lib.RegConfig{EnableIPv4: true, EnableIPv6: true}
		if i == 1 {
			conf.EnableIPv4, conf.EnableIPv6 = cfg.st2v4, cfg.st2v6
		}
		rm := lib.NewRegistrationManager(conf)
		if rm == nil {
			r.Fail("harness/c12-station", "NewRegistrationManager returned nil")
			return nil
		}
		rm.Logger = stlog.New(io.Discard, "[REG] ", 0)
		var key [32]byte
		copy(key[:], w.tp.Bytes("station-key", 32))
		pt, err := prefix.Default([][32]byte{key})
		if err != nil {
			r.Fail("harness/c12-prefix", "%v", err)
			return nil
		}
		rm.AddTransport(pb.TransportType_Min, min.Transport{})
		rm.AddTransport(pb.TransportType_Obfs4, obfs4.Transport{})
		rm.AddTransport(pb.TransportType_Prefix, pt)
		w.stations = append(w.stations, &c12Station{name: fmt.Sprintf("station%d", i), rm: rm, first: map[int]string{}, seen: map[int]int{}})
	}
	return w
}

// ---------------------------------------------------------------------------
// requests and the client model

type c12Req struct {
	idx       int
	secret    []byte
	libver    uint32
	tt        pb.TransportType
	v4, v6    bool
	gen       uint32
	disable   int // 0 unset, 1 explicit false, 2 true
	paramKind int // 0 present, 1 absent, 2 mistyped
	params    *anypb.Any
	forge     int // 0 none, 1 response, 2 response+bytes+signature, 3 bytes+signature
	wsrc      int
	waddr     int
	method    pb.RegistrationSource
	clientIP  []byte
	sendFault bool

	// real client transports (one of them is used)
	cmin  *min.ClientTransport
	cobfs *obfs4.ClientTransport
	cpref *prefix.ClientTransport
}

func (q *c12Req) disabled() bool { return q.disable == 2 }

var c12LibVers = []uint32{4, 4, 4, 4, 4, 3, 2, 1, 0, 5}

func c12DrawReq(tp *sim.Tape, cfg *c12Cfg, idx int) *c12Req {
	q := &c12Req{idx: idx}
	q.tt = []pb.TransportType{pb.TransportType_Min, pb.TransportType_Prefix, pb.TransportType_Obfs4}[tp.Choose("transport", 3)]
	q.libver = c12LibVers[tp.Choose("libver", len(c12LibVers))]
	switch tp.Choose("family", 3) {
	case 0:
		q.v4 = true
	case 1:
		q.v4, q.v6 = true, true
	case 2:
		q.v6 = true
	}
	q.gen = cfg.gens[tp.Choose("gen", len(cfg.gens))].id
	if tp.Prob("unknown-generation", 1, 32) {
		q.gen = 7777
	}
	q.disable = tp.Choose("disable-overrides", 3)
	q.paramKind = 0
	switch tp.Choose("params", 16) {
	case 14:
		q.paramKind = 1
	case 15:
		q.paramKind = 2
	case 13, 12:
		q.paramKind = 1
	}
	randomize := tp.Bool("randomize")
	keepURL := tp.Bool("typeurl")
	q.secret = tp.Bytes("secret", 32)
	if tp.Prob("short-secret", 1, 48) {
		q.secret = q.secret[:6]
	}
	var m proto.Message
	switch q.tt {
	case pb.TransportType_Min:
		q.cmin = &min.ClientTransport{}
		if q.paramKind != 1 {
			q.cmin.SetParams(&pb.GenericTransportParams{RandomizeDstPort: proto.Bool(randomize)})
			q.cmin.Prepare(context.Background(), nil)
			m, _ = q.cmin.GetParams()
		}
	case pb.TransportType_Obfs4:
		q.cobfs = &obfs4.ClientTransport{}
		if q.paramKind != 1 {
			q.cobfs.SetParams(&pb.GenericTransportParams{RandomizeDstPort: proto.Bool(randomize)})
			q.cobfs.Prepare(context.Background(), nil)
			m, _ = q.cobfs.GetParams()
		}
	case pb.TransportType_Prefix:
		id := int32(tp.Choose("prefix-id", 11))
		if id == 10 {
			id = int32(prefix.Rand)
		}
		flush := int32(tp.Choose("flush", 3))
		if q.paramKind != 1 {
			q.cpref = &prefix.ClientTransport{}
			if err := q.cpref.SetParams(&prefix.ClientParams{RandomizeDstPort: randomize, FlushPolicy: flush, PrefixID: id}); err != nil {
				q.cpref = nil
				q.paramKind = 1
			} else if err := q.cpref.Prepare(context.Background(), nil); err != nil {
				q.cpref = nil
				q.paramKind = 1
			} else {
				m, _ = q.cpref.GetParams()
			}
		}
	}
	if m != nil {
		a, err := anypb.New(m)
		if err == nil {
			if !keepURL {
				a.TypeUrl = "" // what the client library does to save space
			}
			q.params = a
		}
	}
	if q.paramKind == 2 {
		// parameters of the wrong message type, type URL left in place
		var wrong proto.Message = &pb.PrefixTransportParams{PrefixId: proto.Int32(1)}
		if q.tt == pb.TransportType_Prefix {
			wrong = &pb.GenericTransportParams{RandomizeDstPort: proto.Bool(true)}
		}
		q.params, _ = anypb.New(wrong)
		q.cmin, q.cobfs, q.cpref = nil, nil, nil
	}
	q.forge = tp.Choose("forge", 4)
	q.wsrc = tp.Choose("wrapper-source", 3)
	q.waddr = tp.Choose("wrapper-address", 3)
	q.method = []pb.RegistrationSource{pb.RegistrationSource_BidirectionalAPI, pb.RegistrationSource_BidirectionalDNS}[tp.Choose("method", 2)]
	switch tp.Choose("client-address", 5) {
	case 0:
		q.clientIP = []byte(net.ParseIP("198.18.0.7").To16()) // what apiregserver passes
	case 1:
		q.clientIP = []byte(net.ParseIP("198.18.0.8").To4())
	case 2:
		q.clientIP = []byte(net.ParseIP("2001:db8:c11e::9").To16())
	case 3:
		q.clientIP = make([]byte, 16) // client address logging disabled
	case 4:
		q.clientIP = nil
	}
	q.sendFault = tp.Prob("zmq-send-error", 1, 32)
	return q
}

// wrapper builds the client's C2SWrapper; forged says whether the client-forged
// response / signature fields are included.
func (q *c12Req) wrapper(forged bool) *pb.C2SWrapper {
	tt := q.tt
	c2s := &pb.ClientToStation{
		ClientLibVersion:    proto.Uint32(q.libver),
		CovertAddress:       proto.String("203.0.113.200:443"),
		DecoyListGeneration: proto.Uint32(q.gen),
		V4Support:           proto.Bool(q.v4),
		V6Support:           proto.Bool(q.v6),
		Transport:           &tt,
	}
	if q.params != nil {
		c2s.TransportParams = proto.Clone(q.params).(*anypb.Any)
	}
	switch q.disable {
	case 1:
		c2s.DisableRegistrarOverrides = proto.Bool(false)
	case 2:
		c2s.DisableRegistrarOverrides = proto.Bool(true)
	}
	w := &pb.C2SWrapper{SharedSecret: append([]byte(nil), q.secret...), RegistrationPayload: c2s}
	switch q.wsrc {
	case 1:
		s := q.method
		w.RegistrationSource = &s
	case 2:
		s := pb.RegistrationSource_DNS
		w.RegistrationSource = &s
	}
	switch q.waddr {
	case 1:
		w.RegistrationAddress = []byte(net.ParseIP("198.18.0.66").To16())
	case 2:
		w.RegistrationAddress = []byte(net.ParseIP("2001:db8:c11e::66").To16())
	}
	if forged && q.forge != 0 {
		fr := &pb.RegistrationResponse{
			Ipv4Addr:                proto.Uint32(c12ForgedV4),
			Ipv6Addr:                []byte(c12ForgedV6.To16()),
			DstPort:                 proto.Uint32(c12ForgedPort),
			ServerRandom:            c12ForgedRand,
			Error:                   proto.String(c12ForgedErr),
			PhantomsSupportPortRand: proto.Bool(true),
		}
		var fp proto.Message = &pb.GenericTransportParams{RandomizeDstPort: proto.Bool(true)}
		if q.tt == pb.TransportType_Prefix {
			fp = &pb.PrefixTransportParams{PrefixId: proto.Int32(int32(prefix.OpenSSH2)), Prefix: []byte("forged"), CustomFlushPolicy: proto.Int32(prefix.FlushAfterPrefix), RandomizeDstPort: proto.Bool(true)}
		}
		fr.TransportParams, _ = anypb.New(fp)
		frb, _ := proto.Marshal(fr)
		attacker := ed25519.NewKeyFromSeed(bytes.Repeat([]byte{0x66}, ed25519.SeedSize))
		if q.forge == 1 || q.forge == 2 {
			w.RegistrationResponse = fr
		}
		if q.forge == 2 || q.forge == 3 {
			w.RegRespBytes = frb
			w.RegRespSignature = ed25519.Sign(attacker, frb)
		}
	}
	return w
}

func (q *c12Req) String() string {
	return fmt.Sprintf("req%d %s libver=%d v4=%v v6=%v gen=%d disable=%s params=%s forge=%d wsrc=%d waddr=%d method=%s src=%s secret=%s",
		q.idx, q.tt, q.libver, q.v4, q.v6, q.gen, []string{"unset", "false", "true"}[q.disable], c12AnyStr(q.tt, q.params), q.forge, q.wsrc, q.waddr, q.method, c12IPStr(q.clientIP), sim.Hex(q.secret, 6))
}

func c12IPStr(b []byte) string {
	if b == nil {
		return "nil"
	}
	return net.IP(b).String()
}

// c12Params is the comparable content of transport parameters.
type c12Params struct {
	present bool
	prefix  bool
	id      int32
	rand    bool
	flush   int32
	err     string
}

func (p c12Params) String() string {
	if p.err != "" {
		return "undecodable(" + p.err + ")"
	}
	if !p.present {
		return "none"
	}
	if p.prefix {
		return fmt.Sprintf("prefix{id=%d rand=%v flush=%d}", p.id, p.rand, p.flush)
	}
	return fmt.Sprintf("generic{rand=%v}", p.rand)
}

func c12DecodeAny(tt pb.TransportType, a *anypb.Any) c12Params {
	if a == nil {
		return c12Params{}
	}
	a = proto.Clone(a).(*anypb.Any) // UnmarshalAnypbTo rewrites the type URL of its argument
	if tt == pb.TransportType_Prefix {
		m := &pb.PrefixTransportParams{}
		if err := transports.UnmarshalAnypbTo(a, m); err != nil {
			return c12Params{err: "type"}
		}
		return c12Params{present: true, prefix: true, id: m.GetPrefixId(), rand: m.GetRandomizeDstPort(), flush: m.GetCustomFlushPolicy()}
	}
	m := &pb.GenericTransportParams{}
	if err := transports.UnmarshalAnypbTo(a, m); err != nil {
		return c12Params{err: "type"}
	}
	return c12Params{present: true, rand: m.GetRandomizeDstPort()}
}

func c12AnyStr(tt pb.TransportType, a *anypb.Any) string {
	if a == nil {
		return "none"
	}
	return fmt.Sprintf("%s(url=%v)", c12DecodeAny(tt, a), a.TypeUrl != "")
}

func c12FromMsg(m any) c12Params {
	switch p := m.(type) {
	case *pb.PrefixTransportParams:
		if p == nil {
			return c12Params{}
		}
		return c12Params{present: true, prefix: true, id: p.GetPrefixId(), rand: p.GetRandomizeDstPort(), flush: p.GetCustomFlushPolicy()}
	case *pb.GenericTransportParams:
		if p == nil {
			return c12Params{}
		}
		return c12Params{present: true, rand: p.GetRandomizeDstPort()}
	case nil:
		return c12Params{}
	}
	return c12Params{err: fmt.Sprintf("%T", m)}
}

// c12View is what the client will use after applying the response.
type c12View struct {
	ip4, ip6  net.IP // nil = not compared
	port      uint16
	portKnown bool
	// message-level effective parameters (response parameters when present and allowed, else the client's own)
	eff c12Params
	// the real client transport after SetSessionParams (when one could be built)
	cli      c12Params
	cliKnown bool
	rejects  string // non-empty: the client library refuses this response
}

func (v c12View) String() string {
	s := fmt.Sprintf("v4=%v v6=%v", v.ip4, v.ip6)
	if v.portKnown {
		s += fmt.Sprintf(" port=%d", v.port)
	} else {
		s += " port=?"
	}
	s += " params=" + v.eff.String()
	if v.cliKnown {
		s += " client-transport=" + v.cli.String()
	}
	if v.rejects != "" {
		s += " CLIENT-REJECTS(" + v.rejects + ")"
	}
	return s
}

// clientView applies the response the way ConjureReg.UnpackRegResp does
// (gotapdance v1.7.10), on the real ClientTransport of the request.
func (w *c12World) clientView(q *c12Req, resp *pb.RegistrationResponse, seed []byte) c12View {
	var v c12View
	var gen *c12Gen
	for i := range w.cfg.gens {
		if w.cfg.gens[i].id == q.gen {
			gen = &w.cfg.gens[i]
		}
	}
	derive := func(v6 bool) (net.IP, bool, bool) {
		// the client's own choice from the seed (what it would use had the registrar said nothing)
		if gen == nil || q.libver < uint32(core.PhantomHkdfMinVersion) {
			return nil, false, false
		}
		list := &pb.PhantomSubnetsList{}
		for _, g := range gen.groups {
			g := g
			list.WeightedSubnets = append(list.WeightedSubnets, &pb.PhantomSubnets{Weight: proto.Uint32(g.weight), Subnets: g.nets, RandomizeDstPort: proto.Bool(g.rand)})
		}
		filter := phantoms.V4Only
		if v6 {
			filter = phantoms.V6Only
		}
		ph, err := phantoms.SelectPhantom(seed, list, filter, true)
		if err != nil || ph == nil {
			return nil, false, false
		}
		return *ph.IP(), ph.SupportRandomPort(), true
	}
	support := true
	derivedAll := true
	if q.v4 {
		if resp.Ipv4Addr != nil {
			a := resp.GetIpv4Addr()
			v.ip4 = net.IPv4(byte(a>>24), byte(a>>16), byte(a>>8), byte(a)).To4()
		}
		ip, sup, ok := derive(false)
		support = support && sup
		derivedAll = derivedAll && ok
		if resp.Ipv4Addr == nil && ok {
			v.ip4 = ip
		}
	}
	if q.v6 {
		if resp.Ipv6Addr != nil {
			v.ip6 = net.IP(resp.GetIpv6Addr())
		}
		ip, sup, ok := derive(true)
		support = support && sup
		derivedAll = derivedAll && ok
		if resp.Ipv6Addr == nil && ok {
			v.ip6 = ip
		}
	}

	// transport parameters
	own := c12DecodeAny(q.tt, q.params)
	v.eff = own
	tpResp := resp.GetTransportParams()
	if tpResp != nil && q.disabled() {
		v.rejects = "registrar failed to respect disabled overrides"
	} else if tpResp != nil {
		v.eff = c12DecodeAny(q.tt, tpResp)
	}
	var getPort func([]byte) (uint16, error)
	apply := func(set func(*anypb.Any, ...bool) error, get func() (proto.Message, error)) {
		if tpResp != nil && !q.disabled() {
			if err := set(proto.Clone(tpResp).(*anypb.Any), true); err != nil {
				v.rejects = "Param Parse error: " + err.Error()
				return
			}
		}
		m, err := get()
		if err == nil {
			v.cli = c12FromMsg(m)
			v.cliKnown = true
		}
	}
	switch {
	case q.cmin != nil:
		apply(q.cmin.SetSessionParams, q.cmin.GetParams)
		getPort = q.cmin.GetDstPort
	case q.cobfs != nil:
		apply(q.cobfs.SetSessionParams, q.cobfs.GetParams)
		getPort = q.cobfs.GetDstPort
	case q.cpref != nil:
		apply(q.cpref.SetSessionParams, q.cpref.GetParams)
		if v.cliKnown && q.cpref.Prefix != nil {
			v.cli.id = int32(q.cpref.Prefix.ID())
		}
		getPort = q.cpref.GetDstPort
	}

	// destination port
	if p := uint16(resp.GetDstPort()); p != 0 {
		v.port, v.portKnown = p, true
	} else if getPort != nil && derivedAll && q.libver >= uint32(core.RandomizeDstPortMinVersion) {
		if support {
			if p, err := getPort(seed); err == nil {
				v.port, v.portKnown = p, true
			}
		} else {
			v.port, v.portKnown = 443, true
		}
	}
	return v
}

// ---------------------------------------------------------------------------
// one request through the registrar; oracle for views A and B

type c12Outcome struct {
	q     *c12Req
	idx   int
	msg   []byte
	fwd   *pb.C2SWrapper
	resp  *pb.RegistrationResponse
	view  c12View
	cover string
}

type c12Call struct {
	resp *pb.RegistrationResponse
	err  error
	msgs [][]byte
	pan  string
}

func (w *c12World) call(c2sw *pb.C2SWrapper, q *c12Req) (c c12Call) {
	before := len(w.sock.msgs)
	func() {
		defer func() {
			if p := recover(); p != nil {
				c.pan = fmt.Sprintf("%v at %s", p, c12Stack())
			}
		}()
		c.resp, c.err = w.p.RegisterBidirectional(c2sw, q.method, q.clientIP)
	}()
	c.msgs = append([][]byte(nil), w.sock.msgs[before:]...)
	w.sock.msgs = w.sock.msgs[:before]
	return c
}

// c12Stack names the conjure frames of a recovered panic (no addresses, no goroutine ids: the event log must be reproducible).
func c12Stack() string {
	pcs := make([]uintptr, 48)
	n := runtime.Callers(3, pcs)
	fr := runtime.CallersFrames(pcs[:n])
	var out []string
	for {
		f, more := fr.Next()
		if strings.Contains(f.Function, "refraction-networking/conjure") && !strings.Contains(f.Function, ".c12") && !strings.Contains(f.Function, "(*c12") {
			fn := f.Function[strings.LastIndex(f.Function, "/")+1:]
			out = append(out, fmt.Sprintf("%s (%s:%d)", fn, filepath.Base(f.File), f.Line))
		}
		if !more || len(out) >= 6 {
			break
		}
	}
	return strings.Join(out, " <- ")
}

func c12Reseed(s uint64) {
	cryptotest.SetGlobalRandom(c12T, s)
	mrand.Seed(int64(s & 0x7fffffffffffffff))
}

func c12RespStr(rr *pb.RegistrationResponse, tt pb.TransportType) string {
	if rr == nil {
		return "<no response>"
	}
	v4, v6, port := "-", "-", "-"
	if rr.Ipv4Addr != nil {
		v4 = uint32ToIPv4(rr.Ipv4Addr).String()
	}
	if rr.Ipv6Addr != nil {
		v6 = net.IP(rr.Ipv6Addr).String()
	}
	if rr.DstPort != nil {
		port = fmt.Sprint(rr.GetDstPort())
	}
	return fmt.Sprintf("v4=%s v6=%s port=%s params=%s", v4, v6, port, c12AnyStr(tt, rr.GetTransportParams()))
}

// c12RespDiff compares the fields the property names; "" when equal.
func c12RespDiff(a, b *pb.RegistrationResponse) string {
	if (a == nil) != (b == nil) {
		return "missing"
	}
	if a == nil {
		return ""
	}
	if (a.Ipv4Addr == nil) != (b.Ipv4Addr == nil) || a.GetIpv4Addr() != b.GetIpv4Addr() {
		return "ipv4"
	}
	if (a.Ipv6Addr == nil) != (b.Ipv6Addr == nil) || !bytes.Equal(a.GetIpv6Addr(), b.GetIpv6Addr()) {
		return "ipv6"
	}
	if (a.DstPort == nil) != (b.DstPort == nil) || a.GetDstPort() != b.GetDstPort() {
		return "port"
	}
	if !proto.Equal(a.GetTransportParams(), b.GetTransportParams()) {
		return "params"
	}
	return ""
}

func c12In(nets []*net.IPNet, ip net.IP) int {
	for i, n := range nets {
		if n.Contains(ip) {
			return i
		}
	}
	return -1
}

// register performs one request. It returns nil when the registrar answered
// with an error (then nothing may have been forwarded) or when the run must stop.
// unidirectional sends the same client's wrapper through the unidirectional entry point (API / DNS
// registrars without a response channel). The client derives everything itself there, so whatever
// it put into registration_response / reg_resp_bytes / reg_resp_signature must be gone from what
// the stations are told, whatever source the wrapper claims.
func (w *c12World) unidirectional(q *c12Req) bool {
	r := w.r
	tp := r.Tape
	saveForge, saveSrc := q.forge, q.wsrc
	defer func() { q.forge, q.wsrc = saveForge, saveSrc }()
	q.forge = 1 + tp.Choose("uni-forge", 3)
	claim := tp.Choose("uni-claimed-source", 4) // 0 none, 1 API, 2 DNS, 3 a station's prescan relay
	c2sw := q.wrapper(true)
	switch claim {
	case 0:
		c2sw.RegistrationSource = nil
	case 1:
		c2sw.RegistrationSource = pb.RegistrationSource_API.Enum()
	case 2:
		c2sw.RegistrationSource = pb.RegistrationSource_DNS.Enum()
	default:
		c2sw.RegistrationSource = pb.RegistrationSource_DetectorPrescan.Enum()
	}
	method := []pb.RegistrationSource{pb.RegistrationSource_API, pb.RegistrationSource_DNS}[tp.Choose("uni-method", 2)]
	before := len(w.sock.msgs)
	var err error
	pan := ""
	func() {
		defer func() {
			if p := recover(); p != nil {
				pan = fmt.Sprintf("%v at %s", p, c12Stack())
			}
		}()
		err = w.p.RegisterUnidirectional(c2sw, method, q.clientIP)
	}()
	msgs := append([][]byte(nil), w.sock.msgs[before:]...)
	w.sock.msgs = w.sock.msgs[:before]
	r.Probe("unidirectional_request")
	if !w.quiet {
		r.Logf("  unidirectional %s forge=%d claimed-source=%d -> err=%v forwarded=%d", method, q.forge, claim, err, len(msgs))
	}
	if pan != "" {
		return !r.Fail("C12/panic/unidirectional", "req%d: RegisterUnidirectional panicked: %s", q.idx, pan)
	}
	for _, m := range msgs {
		var fwd pb.C2SWrapper
		if e := proto.Unmarshal(m, &fwd); e != nil {
			return !r.Fail("C12/forwarded-unparseable", "req%d (unidirectional): %v", q.idx, e)
		}
		if rr := fwd.GetRegistrationResponse(); rr != nil {
			return !r.Fail("C12/forged/response-forwarded/unidirectional", "req%d: a unidirectional registration (method %s, wrapper claims source %v) was forwarded to the stations WITH the registration_response the client supplied {%s}: a station adopts its phantom, port and parameters", q.idx, method, c2sw.GetRegistrationSource(), c12RespStr(rr, q.tt))
		}
		if !w.cfg.auth && (len(fwd.GetRegRespBytes()) > 0 || len(fwd.GetRegRespSignature()) > 0) {
			return !r.Fail("C12/forged/signature-fields-forwarded", "req%d (unidirectional): unauthenticated registrar forwarded reg_resp_bytes (%d bytes) / reg_resp_signature (%d bytes)", q.idx, len(fwd.GetRegRespBytes()), len(fwd.GetRegRespSignature()))
		}
	}
	return true
}

func (w *c12World) register(q *c12Req) *c12Outcome {
	r := w.r
	if !w.quiet {
		r.Logf("%s", q)
	}
	if !q.sendFault && r.Tape.Prob("also-unidirectional", 1, 4) {
		if !w.unidirectional(q) {
			return nil
		}
	}
	keys, kerr := core.GenSharedKeys(uint(q.libver), q.secret, q.tt)
	// the phantoms the seed selects, computed by the harness with the same selector before the registrar runs
	var orig4, orig6 net.IP
	if kerr == nil {
		func() {
			defer func() { recover() }()
			if q.v4 {
				if ph, err := w.sel.Select(keys.ConjureSeed, uint(q.gen), uint(q.libver), false); err == nil {
					orig4 = *ph.IP()
				}
			}
			if q.v6 {
				if ph, err := w.sel.Select(keys.ConjureSeed, uint(q.gen), uint(q.libver), true); err == nil {
					orig6 = *ph.IP()
				}
			}
		}()
	}

	var c c12Call
	if q.forge != 0 && !q.sendFault {
		// twin execution from identical random state: with and without the forged fields
		s := sim.Mix(r.Seed, "C12/twin", uint64(q.idx))
		c12Reseed(s)
		c = w.call(q.wrapper(true), q)
		c12Reseed(s)
		clean := w.call(q.wrapper(false), q)
		r.Probe("forged_fields_twin")
		if c.pan == "" && clean.pan == "" {
			diff := ""
			switch {
			case (c.err == nil) != (clean.err == nil):
				diff = fmt.Sprintf("outcome: with forged fields err=%v, without err=%v", c.err, clean.err)
			case c.err != nil && c.err.Error() != clean.err.Error():
				diff = fmt.Sprintf("error: with forged fields %q, without %q", c.err, clean.err)
			case c.err == nil && !proto.Equal(c.resp, clean.resp):
				diff = fmt.Sprintf("response: with forged fields {%s}, without {%s}", c12RespStr(c.resp, q.tt), c12RespStr(clean.resp, q.tt))
			case len(c.msgs) != len(clean.msgs):
				diff = fmt.Sprintf("forwarded messages: %d with forged fields, %d without", len(c.msgs), len(clean.msgs))
			case len(c.msgs) == 1:
				a, b := &pb.C2SWrapper{}, &pb.C2SWrapper{}
				if proto.Unmarshal(c.msgs[0], a) == nil && proto.Unmarshal(clean.msgs[0], b) == nil && !proto.Equal(a, b) {
					diff = "forwarded message differs"
				}
			}
			if diff != "" {
				if r.Fail("C12/forged/influence", "req%d: fields of the client's own wrapper (registration_response / reg_resp_bytes / reg_resp_signature, forge kind %d) changed the registrar's result — %s", q.idx, q.forge, diff) {
					return nil
				}
			}
		}
	} else {
		if q.sendFault {
			w.sock.failNext = true
		}
		c = w.call(q.wrapper(q.forge != 0), q)
		if q.sendFault && w.sock.failNext {
			w.sock.failNext = false // the registrar never reached the socket
		} else if q.sendFault {
			r.Fault("zmq-send-error")
		}
	}
	if c.pan != "" {
		r.Fail("C12/panic/registrar", "req%d: RegisterBidirectional panicked: %s", q.idx, c.pan)
		return nil
	}
	if c.err != nil {
		if !w.quiet {
			r.Logf("  registrar: error %q, %d message(s) forwarded", c.err.Error(), len(c.msgs))
		}
		r.Probe("registrar_error")
		if len(c.msgs) != 0 {
			r.Fail("C12/forwarded-without-response", "req%d: the registrar answered the client with an error (%v) but forwarded %d message(s) to the stations", q.idx, c.err, len(c.msgs))
		}
		return nil
	}
	resp := c.resp
	if resp == nil {
		r.Fail("C12/nil-response", "req%d: no error and no response", q.idx)
		return nil
	}
	if !w.quiet {
		r.Logf("  A (to client):  %s", c12RespStr(resp, q.tt))
	}
	if len(c.msgs) != 1 {
		sig := "C12/forward-count"
		if len(c.msgs) == 0 {
			sig = "C12/response-without-forward"
		}
		r.Fail(sig, "req%d: the client got a response {%s} but %d messages were forwarded to the stations", q.idx, c12RespStr(resp, q.tt), len(c.msgs))
		return nil
	}
	fwd := &pb.C2SWrapper{}
	if err := proto.Unmarshal(c.msgs[0], fwd); err != nil {
		r.Fail("C12/forwarded-unparsable", "req%d: %v", q.idx, err)
		return nil
	}
	B := fwd.GetRegistrationResponse()
	if !w.quiet {
		r.Logf("  B (forwarded):  %s respbytes=%d sig=%d src=%s addr=%s", c12RespStr(B, q.tt), len(fwd.GetRegRespBytes()), len(fwd.GetRegRespSignature()), fwd.GetRegistrationSource(), c12IPStr(fwd.GetRegistrationAddress()))
	}

	// --- A vs B
	if d := c12RespDiff(resp, B); d != "" {
		if r.Fail("C12/client-vs-forwarded/"+d, "req%d: the response returned to the client {%s} differs from the response inside the forwarded message {%s}", q.idx, c12RespStr(resp, q.tt), c12RespStr(B, q.tt)) {
			return nil
		}
	}

	// --- client-supplied response / signature fields are discarded
	if q.forge != 0 {
		r.Probe("forged_fields")
		for _, x := range []struct {
			name string
			rr   *pb.RegistrationResponse
		}{{"returned", resp}, {"forwarded", B}} {
			rr := x.rr
			if rr == nil {
				continue
			}
			what := ""
			switch {
			case rr.Ipv4Addr != nil && rr.GetIpv4Addr() == c12ForgedV4:
				what = "ipv4addr"
			case bytes.Equal(rr.GetIpv6Addr(), c12ForgedV6.To16()):
				what = "ipv6addr"
			case rr.DstPort != nil && rr.GetDstPort() == c12ForgedPort:
				what = "dst_port"
			case bytes.Equal(rr.GetServerRandom(), c12ForgedRand):
				what = "serverRandom"
			case rr.GetError() == c12ForgedErr:
				what = "error"
			}
			if what != "" {
				if r.Fail("C12/forged/response-kept", "req%d: field %s of the registration_response supplied by the client survived in the %s response {%s}", q.idx, what, x.name, c12RespStr(rr, q.tt)) {
					return nil
				}
			}
		}
	}
	if !w.cfg.auth {
		if len(fwd.GetRegRespBytes()) != 0 || len(fwd.GetRegRespSignature()) != 0 {
			if r.Fail("C12/forged/signature-fields-forwarded", "req%d: unauthenticated registrar forwarded reg_resp_bytes (%d bytes) / reg_resp_signature (%d bytes); forge kind %d", q.idx, len(fwd.GetRegRespBytes()), len(fwd.GetRegRespSignature()), q.forge) {
				return nil
			}
		}
	} else {
		r.Probe("auth_signed")
		rb, sg := fwd.GetRegRespBytes(), fwd.GetRegRespSignature()
		switch {
		case len(sg) != ed25519.SignatureSize || !ed25519.Verify(w.pub, rb, sg):
			if r.Fail("C12/auth/bad-signature", "req%d: reg_resp_signature (%d bytes) does not verify over the forwarded reg_resp_bytes (%d bytes) with the registrar's key", q.idx, len(sg), len(rb)) {
				return nil
			}
		default:
			signed := &pb.RegistrationResponse{}
			if err := proto.Unmarshal(rb, signed); err != nil || !proto.Equal(signed, B) {
				if r.Fail("C12/auth/signed-bytes-differ", "req%d: the signed reg_resp_bytes decode to {%s} (err %v) but the forwarded response is {%s}", q.idx, c12RespStr(signed, q.tt), err, c12RespStr(B, q.tt)) {
					return nil
				}
			}
		}
	}

	// --- parameter overrides only if the client allowed them
	if resp.GetTransportParams() != nil || B.GetTransportParams() != nil {
		if q.disabled() {
			if r.Fail("C12/override-despite-disabled", "req%d: the client set disable_registrar_overrides but transport parameters were overridden: to client {%s}, forwarded {%s}", q.idx, c12RespStr(resp, q.tt), c12RespStr(B, q.tt)) {
				return nil
			}
		} else {
			r.Probe("params_overridden")
		}
	} else if q.disabled() && w.cfg.ovKind != 0 && q.tt == pb.TransportType_Prefix {
		r.Probe("override_skipped_disabled")
	}

	// --- phantom substitution
	cover := ""
	check := func(fam string, orig, got net.IP) bool {
		if orig == nil || got == nil || orig.Equal(got) {
			return true
		}
		cover += "S" + fam
		nets := w.subNets[q.tt]
		i := c12In(nets, got)
		if i < 0 {
			return !r.Fail("C12/substitute/outside-configured-subnets", "req%d (%s): the %s phantom %v selected by the seed was replaced by %v, which lies in none of the override subnets configured for this transport %v", q.idx, q.tt, fam, orig, got, nets)
		}
		w.used[q.tt][i]++
		if q.tt == pb.TransportType_Min {
			r.Probe("substituted_min")
		} else {
			r.Probe("substituted_prefix")
		}
		if e := c12In(w.exclNet, orig); e >= 0 {
			return !r.Fail("C12/substitute/replaced-excluded", "req%d (%s): the %s phantom %v lies in the excluded subnet %v but was replaced by %v", q.idx, q.tt, fam, orig, w.exclNet[e], got)
		}
		return true
	}
	if q.v4 && resp.Ipv4Addr != nil {
		if orig4 != nil && c12In(w.exclNet, orig4) >= 0 {
			r.Probe("original_in_excluded")
			cover += "X"
		}
		if !check("IPv4", orig4, uint32ToIPv4(resp.Ipv4Addr)) {
			return nil
		}
	}
	if q.v6 && resp.Ipv6Addr != nil {
		if !check("IPv6", orig6, net.IP(resp.Ipv6Addr)) {
			return nil
		}
	}
	if !q.v4 && resp.Ipv4Addr != nil {
		r.Probe("v4_phantom_for_v6only_client") // unused by client and station: not compared
	}

	o := &c12Outcome{q: q, idx: len(w.outs), msg: c.msgs[0], fwd: fwd, resp: resp, cover: cover}
	o.view = w.clientView(q, resp, keys.ConjureSeed)
	if !w.quiet {
		r.Logf("  client view:    %s", o.view)
	}
	if o.view.rejects != "" && !(q.disabled() && resp.GetTransportParams() != nil) {
		// the real client transport cannot apply what the registrar sent
		if r.Fail("C12/client-cannot-apply-response", "req%d: %s", q.idx, o.view.rejects) {
			return nil
		}
	}
	if o.view.cliKnown && o.view.eff.err == "" && o.view.cli.present && o.view.eff.present {
		// real client transport vs message-level reading of the same response (prefix id and randomise flag)
		if o.view.cli.prefix && o.view.cli.id != o.view.eff.id {
			if r.Fail("C12/client-vs-response/prefix-id", "req%d: after applying the response the client transport uses prefix %d, the response says %s", q.idx, o.view.cli.id, o.view.eff) {
				return nil
			}
		}
	}
	w.outs = append(w.outs, o)
	return o
}

// ---------------------------------------------------------------------------
// station side; oracle for view C

func (w *c12World) deliver(st *c12Station, o *c12Outcome) bool {
	r := w.r
	q := o.q
	var regs []*lib.DecoyRegistration
	var err error
	pan := ""
	func() {
		defer func() {
			if p := recover(); p != nil {
				pan = fmt.Sprintf("%v at %s", p, c12Stack())
			}
		}()
		regs, err = lib.VerifParse(st.rm, o.msg)
	}()
	if pan != "" {
		return !r.Fail("C12/panic/station", "req%d at %s: parsing the forwarded message panicked: %s", q.idx, st.name, pan)
	}
	var parts []string
	for _, reg := range regs {
		parts = append(parts, fmt.Sprintf("%v:%d/%s/%s", reg.PhantomIp, reg.PhantomPort, reg.Transport, c12FromMsg(lib.VerifTransportParams(reg))))
	}
	summary := fmt.Sprintf("err=%v regs=[%s]", err != nil, strings.Join(parts, " "))
	st.seen[o.idx]++
	if st.seen[o.idx] > 1 {
		r.Probe("duplicate_ingested")
		if !w.quiet {
			r.Logf("  %s <- req%d copy %d: %s", st.name, q.idx, st.seen[o.idx], summary)
		}
		if summary != st.first[o.idx] {
			return !r.Fail("C12/delivery-dependence", "req%d at %s: copy %d of the same forwarded message produced {%s}, the first copy {%s}", q.idx, st.name, st.seen[o.idx], summary, st.first[o.idx])
		}
		return true
	}
	st.first[o.idx] = summary
	if !w.quiet {
		r.Logf("  C %s <- req%d: %s", st.name, q.idx, summary)
	}
	w.ingested++

	src := net.IP(o.fwd.GetRegistrationAddress())
	want4 := q.v4 && st.rm.EnableIPv4 && src.To4() != nil
	want6 := q.v6 && st.rm.EnableIPv6
	if q.v4 && st.rm.EnableIPv4 && !want4 {
		r.Probe("no_v4_registration_for_non_v4_registrant")
	}
	if !want4 && !want6 {
		r.Probe("station_builds_nothing")
	}
	if err != nil {
		if want4 || want6 {
			sig := "C12/station-rejects-forwarded"
			if q.tt == pb.TransportType_Prefix && q.libver < uint32(core.RandomizeDstPortMinVersion) {
				// the station's prefix transport refuses parameters for library versions that predate it
				sig += "/prefix-params-for-legacy-libver"
			}
			return !r.Fail(sig, "req%d at %s: the client (%s, libver %d) was told {%s} but the station rejects the forwarded message: %v", q.idx, st.name, q.tt, q.libver, c12RespStr(o.resp, q.tt), err)
		}
		return true
	}
	n := 0
	if want4 {
		n++
	}
	if want6 {
		n++
	}
	if len(regs) != n {
		return !r.Fail("C12/station-registration-count", "req%d at %s: expected %d registration(s) (v4=%v v6=%v) from the forwarded message, the station built %s", q.idx, st.name, n, want4, want6, summary)
	}
	v := o.view
	one := func(reg *lib.DecoyRegistration, fam string, exp net.IP) bool {
		if exp != nil && !exp.Equal(reg.PhantomIp) {
			return !r.Fail("C12/station-vs-client/"+fam, "req%d at %s: the client will connect to %s phantom %v, the station registered %v (response {%s})", q.idx, st.name, fam, exp, reg.PhantomIp, c12RespStr(o.resp, q.tt))
		}
		if v.portKnown && reg.PhantomPort != v.port {
			return !r.Fail("C12/station-vs-client/port", "req%d at %s (%s): the client will connect to port %d, the station registered port %d (response {%s})", q.idx, st.name, fam, v.port, reg.PhantomPort, c12RespStr(o.resp, q.tt))
		}
		if reg.Transport != q.tt {
			return !r.Fail("C12/station-vs-client/transport", "req%d at %s: transport %s registered for a %s client", q.idx, st.name, reg.Transport, q.tt)
		}
		sp := c12FromMsg(lib.VerifTransportParams(reg))
		if v.eff.err != "" && o.resp.GetTransportParams() == nil {
			// the client's own parameters do not decode for its transport, yet registrar and station
			// accepted the request (legacy versions ignore the field): nothing to compare against
			r.Probe("undecodable_client_params_accepted")
			return true
		}
		if sp.err != "" || v.eff.err != "" {
			return !r.Fail("C12/station-vs-client/params-type", "req%d at %s: station parameters %s, response/client parameters %s", q.idx, st.name, sp, v.eff)
		}
		legacy := q.libver < uint32(core.RandomizeDstPortMinVersion)
		if sp.prefix != v.eff.prefix && (sp.present && v.eff.present) {
			return !r.Fail("C12/station-vs-client/params-type", "req%d at %s: station parameters %s, response/client parameters %s", q.idx, st.name, sp, v.eff)
		}
		if q.tt == pb.TransportType_Prefix {
			if sp.present != v.eff.present || sp.id != v.eff.id {
				return !r.Fail("C12/station-vs-client/prefix-id", "req%d at %s: station parameters %s, the response/client say %s", q.idx, st.name, sp, v.eff)
			}
			if sp.flush != v.eff.flush {
				return !r.Fail("C12/station-vs-client/flush-policy", "req%d at %s: station parameters %s, the response/client say %s", q.idx, st.name, sp, v.eff)
			}
			if v.cliKnown && v.cli.present && v.rejects == "" && sp.id != v.cli.id {
				return !r.Fail("C12/station-vs-client/prefix-id", "req%d at %s: station parameters %s, the client transport uses %s", q.idx, st.name, sp, v.cli)
			}
		}
		if !legacy {
			if sp.rand != v.eff.rand {
				return !r.Fail("C12/station-vs-client/randomize", "req%d at %s: station parameters %s, the response/client say %s", q.idx, st.name, sp, v.eff)
			}
			if v.cliKnown && v.rejects == "" && sp.rand != v.cli.rand {
				return !r.Fail("C12/station-vs-client/randomize", "req%d at %s: station parameters %s, the client transport uses %s", q.idx, st.name, sp, v.cli)
			}
		}
		return true
	}
	i := 0
	if want4 {
		if !one(regs[i], "ipv4", v.ip4) {
			return false
		}
		i++
	}
	if want6 {
		if !one(regs[i], "ipv6", v.ip6) {
			return false
		}
	}
	return true
}

// ---------------------------------------------------------------------------
// scenario

// c12Scenario runs the (single-threaded) scenario as one task of a scheduler, so that the
// registrar's locks are emulated: a lock left held on some path is a deadlock verdict, not a hang.
var c12Sched *hook.Sched // the scheduler of the current run (the concurrent sub-scenario spawns request tasks)

func c12Scenario(r *sim.Run) {
	s := hook.Install(r.Tape)
	defer s.Uninstall()
	c12Sched = s
	finished := false
	s.Spawn("director", func() {
		c12Body(r)
		finished = true
	})
	st := sim.Drive(r, s, sim.DriveOpt{Horizon: 100000 * time.Hour, MaxSteps: 1000000, Until: func() bool { return finished }})
	defer s.Finish()
	if st == sim.Deadlock || (st != sim.Done && st != sim.AllExited && st != sim.Failed && !finished) {
		r.Fail("C12/deadlock", "the registrar blocked for ever (%v): %s", st, s.WaitForGraph())
	}
}

func c12Body(r *sim.Run) {
	tp := r.Tape
	if tp.Prob("statistical", 1, c12StatDen) {
		c12Statistical(r)
		return
	}
	cfg := c12DrawCfg(tp)
	r.Logf("C12 config: %s", cfg)
	w := c12NewWorld(r, cfg)
	if w == nil {
		return
	}
	if tp.Prob("concurrent-requests", 1, 6) {
		c12Concurrent(r, w, cfg)
		return
	}
	nreq := 1 + tp.Choose("nreq", 4)
	reordered, dups, delayed := false, false, false
	deliverSome := func(st *c12Station, keep int) bool {
		for len(st.pending) > keep {
			k := tp.Choose("pick", len(st.pending))
			if k > 0 {
				r.Fault("reorder")
				reordered = true
			}
			oi := st.pending[k]
			st.pending = append(st.pending[:k], st.pending[k+1:]...)
			if d := tp.Choose("latency", 4); d > 0 {
				time.Sleep(time.Duration(d) * 700 * time.Millisecond)
			}
			if !w.deliver(st, w.outs[oi]) {
				return false
			}
		}
		return true
	}
	for i := 0; i < nreq; i++ {
		sim.Tick()
		q := c12DrawReq(tp, cfg, i)
		o := w.register(q)
		if r.Failed() {
			return
		}
		if o != nil {
			for _, st := range w.stations {
				copies := 1
				if tp.Prob("duplicate", 1, 4) {
					copies += 1 + tp.Choose("extra-copies", 2)
					r.Fault("duplicate")
					dups = true
				}
				for c := 0; c < copies; c++ {
					st.pending = append(st.pending, o.idx)
				}
			}
		}
		for _, st := range w.stations {
			keep := 0
			if i < nreq-1 && len(st.pending) > 0 {
				keep = tp.Choose("hold", len(st.pending)+1)
				if keep > 0 {
					r.Fault("delay")
					delayed = true
				}
			}
			if !deliverSome(st, keep) {
				return
			}
		}
	}
	for _, st := range w.stations {
		if !deliverSome(st, 0) {
			return
		}
	}
	if w.ingested > 0 {
		r.Nontrivial()
	}
	// coverage signature
	cls := []string{fmt.Sprintf("auth=%v ov=%d enf=%v st=%d", cfg.auth, cfg.ovKind, cfg.enforce, cfg.nStations)}
	for _, o := range w.outs {
		q := o.q
		lv := "cur"
		switch {
		case q.libver < 2:
			lv = "legacy-sel"
		case q.libver < 3:
			lv = "no-randport"
		case q.libver == 3:
			lv = "v3"
		}
		cls = append(cls, fmt.Sprintf("%s/%s/%v%v/d=%v/p=%v/f=%v/%s/tp=%v", q.tt, lv, q.v4, q.v6, q.disabled(), q.paramKind == 0, q.forge != 0, o.cover, o.resp.GetTransportParams() != nil))
	}
	sort.Strings(cls[1:])
	cls = append(cls, fmt.Sprintf("dup=%v reord=%v delay=%v", dups, reordered, delayed))
	r.Cover(cls...)
}

// c12Concurrent: two to four clients register at the same time (the API and DNS front ends call the
// processor from one goroutine per request). Every lock operation of the registrar is a scheduling
// point. What each client was told must be what was forwarded FOR THAT CLIENT: one message per
// answered request, carrying that request's shared secret and the response that client received.
func c12Concurrent(r *sim.Run, w *c12World, cfg *c12Cfg) {
	tp := r.Tape
	s := c12Sched
	s.LockYield, s.UnlockYield = true, true
	n := 2 + tp.Choose("concurrent-n", 3)
	type res struct {
		q    *c12Req
		resp *pb.RegistrationResponse
		err  error
		pan  string
		done bool
	}
	out := make([]*res, n)
	for i := 0; i < n; i++ {
		q := c12DrawReq(tp, cfg, i)
		q.sendFault = false
		out[i] = &res{q: q}
		r.Logf("concurrent %s", q)
	}
	for i := 0; i < n; i++ {
		o := out[i]
		s.Spawn(fmt.Sprintf("creq%d", i), func() {
			defer func() {
				if p := recover(); p != nil {
					o.pan = fmt.Sprintf("%v at %s", p, c12Stack())
				}
				o.done = true
			}()
			o.resp, o.err = w.p.RegisterBidirectional(o.q.wrapper(false), o.q.method, o.q.clientIP)
		})
	}
	all := func() bool {
		for _, o := range out {
			if !o.done {
				return false
			}
		}
		return true
	}
	for k := 0; k < 4 && !all(); k++ {
		hook.ParkIdle("concurrent-requests")
	}
	r.Probe("concurrent_requests")
	if !all() {
		r.Fail("C12/deadlock", "concurrent registration requests did not all return: %s", s.WaitForGraph())
		return
	}
	s.LockYield, s.UnlockYield = false, false
	bySecret := map[string][]*pb.C2SWrapper{}
	for _, m := range w.sock.msgs {
		fwd := &pb.C2SWrapper{}
		if err := proto.Unmarshal(m, fwd); err != nil {
			r.Fail("C12/forwarded-unparsable", "concurrent requests: %v", err)
			return
		}
		bySecret[string(fwd.GetSharedSecret())] = append(bySecret[string(fwd.GetSharedSecret())], fwd)
	}
	answered := 0
	for i, o := range out {
		if o.pan != "" {
			r.Fail("C12/panic/concurrent", "creq%d: %s", i, o.pan)
			return
		}
		fw := bySecret[string(o.q.secret)]
		if o.err != nil || o.resp == nil {
			if len(fw) != 0 {
				r.Fail("C12/concurrent/forwarded-without-answer", "creq%d was refused (%v) but %d message(s) with its secret were forwarded to the stations", i, o.err, len(fw))
				return
			}
			continue
		}
		answered++
		if len(fw) != 1 {
			r.Fail("C12/concurrent/forwarded-for-wrong-session", "creq%d got a response {%s}, but %d message(s) carrying its shared secret were forwarded to the stations (%d messages in all for %d requests): another client's message went out in its place", i, c12RespStr(o.resp, o.q.tt), len(fw), len(w.sock.msgs), n)
			return
		}
		if d := c12RespDiff(o.resp, fw[0].GetRegistrationResponse()); d != "" {
			r.Fail("C12/concurrent/client-vs-forwarded/"+d, "creq%d: the response returned to the client {%s} differs from the one inside the message forwarded for it {%s}", i, c12RespStr(o.resp, o.q.tt), c12RespStr(fw[0].GetRegistrationResponse(), o.q.tt))
			return
		}
	}
	if answered > 0 {
		r.Nontrivial()
	}
	r.CoverU(s.SigHash)
	r.Cover("concurrent", fmt.Sprint(n, answered))
}

// c12Statistical: one fixed configuration, enough substitutions that a
// non-zero-weight override subnet that is never chosen has probability < 1e-12.
func c12Statistical(r *sim.Run) {
	tp := r.Tape
	ci := tp.Choose("stat-config", len(c12StatConfigs))
	sc := c12StatConfigs[ci]
	cfg := &c12Cfg{
		gens:      []c12Gen{{id: 1, groups: []c12Group{{weight: 3, rand: true, nets: []string{"192.0.2.0/24", "2001:db8:a::/48"}}, {weight: 1, rand: false, nets: []string{"100.64.0.0/16", "2001:db8:b:1::/64"}}}}},
		auth:      ci%2 == 0,
		ovKind:    1,
		enforce:   true,
		pMin:      100,
		pPref:     100,
		nStations: 1,
		st2v4:     true, st2v6: true,
	}
	for i, wgt := range sc.min {
		cfg.subs = append(cfg.subs, c12Sub{cidr: c12MinPool[i], weight: wgt, port: 443, transport: "Min_Transport"})
	}
	for i, wgt := range sc.pref {
		cfg.subs = append(cfg.subs, c12Sub{cidr: c12PrefPool[i], weight: wgt, port: c12Ports[i%4], transport: "Prefix_Transport", prefixID: i + 1})
	}
	r.Logf("C12 statistical sub-scenario, config %d: %s", ci, cfg)
	w := c12NewWorld(r, cfg)
	if w == nil {
		return
	}
	w.quiet = true
	r.Probe("statistical_batch")
	for _, part := range []struct {
		tt      pb.TransportType
		name    string
		weights []float64
	}{{pb.TransportType_Min, "min", sc.min}, {pb.TransportType_Prefix, "prefix", sc.pref}} {
		total, minw := 0.0, 0.0
		for _, x := range part.weights {
			total += x
			if x > 0 && (minw == 0 || x < minw) {
				minw = x
			}
		}
		// (1-f)^n <= exp(-f n) = exp(-28) < 1e-12 for the least likely subnet
		need := int(28.0/(minw/total)) + 1
		subst := func() int {
			n := 0
			for _, c := range w.used[part.tt] {
				n += c
			}
			return n
		}
		reqs := 0
		for subst() < need && reqs < 2*need+16 {
			sim.Tick()
			q := &c12Req{idx: reqs, tt: part.tt, libver: core.CurrentClientLibraryVersion(), v4: true, v6: tp.Bool("dual"), gen: 1,
				secret: tp.Bytes("secret", 32), method: pb.RegistrationSource_BidirectionalAPI, clientIP: []byte(net.ParseIP("198.18.0.7").To16())}
			if part.tt == pb.TransportType_Min {
				q.cmin = &min.ClientTransport{}
				q.cmin.SetParams(&pb.GenericTransportParams{RandomizeDstPort: proto.Bool(true)})
				q.cmin.Prepare(context.Background(), nil)
				m, _ := q.cmin.GetParams()
				q.params, _ = anypb.New(m)
			} else {
				q.cpref = &prefix.ClientTransport{}
				q.cpref.SetParams(&prefix.ClientParams{PrefixID: int32(prefix.Min)})
				q.cpref.Prepare(context.Background(), nil)
				m, _ := q.cpref.GetParams()
				q.params, _ = anypb.New(m)
			}
			q.params.TypeUrl = ""
			reqs++
			o := w.register(q)
			if r.Failed() {
				return
			}
			if o == nil {
				continue
			}
			if !w.deliver(w.stations[0], o) {
				return
			}
		}
		r.Logf("%s: %d requests, %d substitutions (needed %d); override subnets %v weights %v used %v", part.name, reqs, subst(), need, w.subNets[part.tt], part.weights, w.used[part.tt])
		if subst() < need {
			// with 100 %% configured every request of this transport is substituted: fewer means the batch is not conclusive
			r.Fail("C12/override-not-applied/"+part.name, "%s: percentage 100 configured, yet only %d of %d requests had their phantom substituted", part.name, subst(), reqs)
			return
		}
		for i, c := range w.used[part.tt] {
			if part.weights[i] > 0 && c == 0 {
				if r.Fail("C12/override-subnet-never-used/"+part.name, "%s transport: override subnet %v (weight %v of %v) was never chosen in %d substitutions (probability of that under the configured weights < 1e-12); counts per subnet %v for weights %v",
					part.name, w.subNets[part.tt][i], part.weights[i], total, subst(), w.used[part.tt], part.weights) {
					return
				}
				break
			}
			if part.weights[i] == 0 && c > 0 {
				r.Probe("zero_weight_subnet_used")
			}
		}
	}
	r.Nontrivial()
	r.Cover("statistical", fmt.Sprint(ci))
}
