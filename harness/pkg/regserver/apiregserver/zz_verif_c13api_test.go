package apiregserver

// C13, additional population "api": the HTTP front end of the registrar. A SIGHUP makes
// cmd/registration-server reload the phantom subnets AND hand the API server the new ClientConf
// (NewClientConf) while requests are being answered (registerBidirectional compares the client's
// generation with the stored ClientConf under the server's RWMutex, then calls the processor).
// Requests and reloads are tasks, every lock operation of the package is a scheduling point, the
// RWMutex is emulated with writer preference: all of them must complete.

import (
	"bytes"
	"fmt"
	"io"
	"net/http"
	"net/http/httptest"
	"testing"
	"time"

	pb "github.com/refraction-networking/conjure/proto"
	log "github.com/sirupsen/logrus"
	"google.golang.org/protobuf/proto"

	"verif/sim"
	"verif/sim/hook"
)

type c13apiProc struct{ calls int }

func (p *c13apiProc) RegisterUnidirectional(*pb.C2SWrapper, pb.RegistrationSource, []byte) error {
	hook.Yield("processor")
	return nil
}
func (p *c13apiProc) RegisterBidirectional(w *pb.C2SWrapper, _ pb.RegistrationSource, _ []byte) (*pb.RegistrationResponse, error) {
	// the processor takes its time (phantom selection, ZMQ): other tasks run meanwhile
	hook.Yield("processor")
	p.calls++
	v4, port := uint32(0xC0000207), uint32(443)
	return &pb.RegistrationResponse{Ipv4Addr: &v4, DstPort: &port}, nil
}

func TestVerifC13API(t *testing.T) {
	sim.Main(t, sim.Config{
		Prop:     "C13",
		Scenario: c13apiScenario,
		ExhaustRoots: func(tier string) [][]int {
			var roots [][]int
			for i := range c13apiSmall {
				roots = append(roots, []int{1, i})
			}
			return roots
		},
		ExhaustLabels: func(string, int) []string { return []string{"mode", "scn"} },
		ExhaustMax:    map[string]int{"quick": 3000, "thorough": 100000},
		Runs:          map[string]int{"quick": 4000, "thorough": 300000},
		Real:          []string{"apiregserver.APIRegServer.registerBidirectional / register / compareClientConfGen / NewClientConf (the ClientConf half of the registrar's SIGHUP reload)"},
		Stub:          []string{"the registration processor behind the API server (a stub that yields and answers), HTTP transport (httptest request / recorder)", "goroutine scheduling and the server's RWMutex (simulator, emulated with writer preference)"},
		Rule: "systematic: for five small scenarios (1-2 requests x 1-2 ClientConf reloads) every schedule with at most 2 preemptions at lock operations and at the processor call; random: 1-4 requests (outdated / current client generation, bidirectional and unidirectional) x 0-3 reloads under uniformly random / stay-biased schedules. Oracle: every request returns with a status line, every reload returns, no deadlock; a further request and reload issued afterwards complete; an outdated client gets a ClientConf that is one of the versions that were installed, whole. non-trivial = a reload overlapped a request",
		Assume: []string{"the SIGHUP goroutine of cmd/registration-server/main.go itself is not executed (its calls are issued by the world)"},
	})
}

var c13apiSmall = []struct{ reqs, reloads int }{{1, 1}, {2, 1}, {1, 2}, {2, 2}, {3, 1}}

func c13apiScenario(r *sim.Run) {
	tp := r.Tape
	s := hook.Install(tp)
	defer s.Uninstall()
	s.LockYield, s.UnlockYield = true, true
	s.Trace = func(l string) { r.Logf("step %s", l) }
	nreq, nrel := 0, 0
	if tp.Choose("mode", 2) == 1 {
		sc := c13apiSmall[tp.Choose("scn", len(c13apiSmall))]
		nreq, nrel = sc.reqs, sc.reloads
		s.MaxPreempt = 2
	} else {
		nreq, nrel = 1+tp.Choose("nreq", 4), tp.Choose("nreload", 4)
		if tp.Bool("staybias") {
			s.StayNum, s.StayDen = 2, 3
		}
	}
	lg := log.New()
	lg.SetOutput(io.Discard)
	gen0 := uint32(5)
	proc := &c13apiProc{}
	srv := &APIRegServer{latestClientConf: &pb.ClientConf{Generation: &gen0}, processor: proc, logger: lg, metrics: verifMetrics}
	installed := map[uint32]bool{gen0: true}

	type out struct {
		code int
		body []byte
		done bool
		uni  bool
	}
	outs := make([]*out, nreq)
	mkBody := func(i int, gen uint32) []byte {
		secret := make([]byte, 32)
		for j := range secret {
			secret[j] = byte(i*17 + j + 1)
		}
		tt := pb.TransportType_Min
		c2s := &pb.ClientToStation{Transport: &tt, DecoyListGeneration: proto.Uint32(gen), CovertAddress: proto.String("203.0.113.9:443"), V4Support: proto.Bool(true), V6Support: proto.Bool(false), ClientLibVersion: proto.Uint32(4)}
		b, _ := proto.Marshal(&pb.C2SWrapper{SharedSecret: secret, RegistrationPayload: c2s})
		return b
	}
	spawn := func(name string, f func()) {
		s.Spawn(name, func() {
			defer func() {
				if pv := recover(); pv != nil {
					r.Fail("C13/panic/api-"+name[:3], "%s panicked: %v", name, pv)
				}
			}()
			f()
		})
	}
	for i := 0; i < nreq; i++ {
		i := i
		gen := []uint32{3, 9, 5}[tp.Choose("client-gen", 3)] // outdated, newer, equal
		o := &out{uni: tp.Prob("unidirectional", 1, 5)}
		outs[i] = o
		spawn(fmt.Sprintf("req%d", i), func() {
			rec := httptest.NewRecorder()
			req := httptest.NewRequest("POST", "/api/register-bidirectional", bytes.NewReader(mkBody(i, gen)))
			req.RemoteAddr = "198.51.100.7:40000"
			if o.uni {
				srv.register(rec, req)
			} else {
				srv.registerBidirectional(rec, req)
			}
			o.code, o.body, o.done = rec.Code, rec.Body.Bytes(), true
		})
	}
	reloaded := make([]bool, nrel)
	for j := 0; j < nrel; j++ {
		j := j
		g := uint32(6 + j)
		installed[g] = true
		spawn(fmt.Sprintf("reload%d", j), func() {
			srv.NewClientConf(&pb.ClientConf{Generation: &g})
			reloaded[j] = true
		})
	}
	st := sim.Drive(r, s, sim.DriveOpt{Horizon: time.Hour, MaxSteps: 3000})
	defer s.Finish()
	r.CoverU(s.SigHash)
	if nreq > 0 && nrel > 0 {
		r.Nontrivial()
	}
	switch st {
	case sim.Failed:
		return
	case sim.Deadlock:
		r.Fail("C13/deadlock/api-registrar", "the API registrar is blocked for ever (requests vs ClientConf reload): %s", s.WaitForGraph())
		return
	case sim.AllExited:
	default:
		r.Fail("C13/not-finished/api-registrar", "requests / reloads did not all complete (%v): %v", st, s.LiveNames())
		return
	}
	for i, o := range outs {
		if !o.done || o.code != http.StatusOK && o.code != http.StatusNoContent {
			r.Fail("C13/request-failed/api-registrar", "request %d (unidirectional=%v): done=%v status=%d", i, o.uni, o.done, o.code)
			return
		}
		if o.uni {
			continue
		}
		resp := &pb.RegistrationResponse{}
		if err := proto.Unmarshal(o.body, resp); err != nil {
			r.Fail("C13/request-failed/api-registrar", "request %d: response does not parse: %v", i, err)
			return
		}
		if cc := resp.GetClientConf(); cc != nil && !installed[cc.GetGeneration()] {
			r.Fail("C13/mixed-clientconf/api-registrar", "request %d was handed a ClientConf of generation %d, which was never installed", i, cc.GetGeneration())
			return
		}
	}
	for j, ok := range reloaded {
		if !ok {
			r.Fail("C13/reload-not-finished/api-registrar", "ClientConf reload %d did not complete", j)
			return
		}
	}
	// afterwards the server still answers and reloads
	after := false
	spawn("after", func() {
		g := uint32(40)
		srv.NewClientConf(&pb.ClientConf{Generation: &g})
		rec := httptest.NewRecorder()
		req := httptest.NewRequest("POST", "/api/register-bidirectional", bytes.NewReader(mkBody(99, 3)))
		req.RemoteAddr = "198.51.100.7:40000"
		srv.registerBidirectional(rec, req)
		resp := &pb.RegistrationResponse{}
		if rec.Code != http.StatusOK || proto.Unmarshal(rec.Body.Bytes(), resp) != nil || resp.GetClientConf().GetGeneration() != 40 {
			r.Fail("C13/reload-lost/api-registrar", "after a completed ClientConf reload an outdated client got status %d and ClientConf generation %d (40 was installed)", rec.Code, resp.GetClientConf().GetGeneration())
		}
		after = true
	})
	switch st2 := sim.Drive(r, s, sim.DriveOpt{Horizon: 2 * time.Hour, MaxSteps: 3000}); {
	case st2 == sim.Failed:
	case !after:
		r.Fail("C13/blocked-after-reload/api-registrar", "a request / reload issued after the scenario completed did not finish (%v): %s", st2, s.WaitForGraph())
	}
}
