//go:debug asynctimerchan=0
package apiregserver

import (
	"io"
	"os"
	"testing"
	"time"

	"github.com/refraction-networking/conjure/pkg/metrics"
	log "github.com/sirupsen/logrus"
)

// verifMetrics is created outside any bubble: NewMetrics starts a goroutine
// that sleeps in a loop for ever.
var verifMetrics *metrics.Metrics

func TestMain(m *testing.M) {
	if os.Getenv("VERIF_PROP") != "" {
		l := log.New()
		l.SetOutput(io.Discard)
		verifMetrics = metrics.NewMetrics(log.NewEntry(l), 1000*time.Hour)
	}
	os.Exit(m.Run())
}
