//go:debug asynctimerchan=0
package phantoms

// Harness entry of the conjure simulator for package pkg/phantoms.
// This file is overlaid into the package by /verif/bin/check; it is never
// part of /repo. The package starts no background goroutine, so there is
// nothing to set up outside the bubbles.

import (
	"os"
	"testing"
)

func TestMain(m *testing.M) {
	os.Exit(m.Run())
}
