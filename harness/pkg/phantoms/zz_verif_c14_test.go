package phantoms

// C14 — phantom selection is a pure function that stays inside the configured
// subnets.
//
// Simulated clause (schedules): 2–32 tasks call the real
// PhantomIPSelector.Select (station entry) and SelectPhantom (client entry) on
// ONE shared selector / subnet list. pkg/phantoms is instrumented by seamgen so
// that every top-level math/rand call (the legacy library-version 0/1 paths
// re-seed the process-global source and draw from it in separate steps) is a
// scheduling point. Oracle: every concurrent result equals the result of the
// same call executed alone before the concurrent phase, and executing it alone
// once more afterwards gives the same result a third time.
//
// Side invariant (input sampling, not exhaustive): every result, over generated
// subnet configurations, is an error or a well-formed address of the requested
// family inside a subnet configured for that generation, carrying that
// subnet's port-randomisation flag.

import (
	"bytes"
	"crypto/sha256"
	"fmt"
	mrand "math/rand"
	"net"
	"os"
	"path/filepath"
	"strings"
	"testing"
	"time"

	pb "github.com/refraction-networking/conjure/proto"

	"verif/sim"
	"verif/sim/hook"
)

// ---------------------------------------------------------------------------
// model of a generated configuration (the harness's own reading of it)

type c14Subnet struct {
	cidr   string     // text handed to the code under test
	ipn    *net.IPNet // network address and mask as computed by the generator
	v6     bool
	ones   int
	lz     bool   // the network address starts with a zero byte
	origin string // fresh | dup | sub | super
	mapped bool   // an IPv4 network written as ::ffff:a.b.c.d/(96+n)
}

// has reports whether ip lies in the subnet, comparing bytes under the mask.
// (net.IPNet.Contains would turn a 16-byte IPv4-mapped value into 4 bytes first
// and so deny that ::ffff:1.2.3.4 lies in an IPv6 network such as ::ff80:0:0/89.)
func (sn *c14Subnet) has(ip net.IP) bool {
	nw, mask := sn.ipn.IP, sn.ipn.Mask
	if len(ip) == 16 && len(nw) == 4 {
		ip = ip.To4() // an IPv4-mapped value counts as the IPv4 address
	}
	if len(ip) != len(nw) || len(mask) != len(nw) {
		return false
	}
	for i := range ip {
		if ip[i]&mask[i] != nw[i] {
			return false
		}
	}
	return true
}

type c14Group struct {
	weight  uint32
	noW     bool // Weight left out
	flag    bool
	noF     bool // RandomizeDstPort left out (= false)
	subnets []c14Subnet
	nilSubs bool // Subnets left out
	pb      *pb.PhantomSubnets
}

type c14Gen struct {
	id      uint
	groups  []c14Group
	removed bool
}

// zeroTotal: the weights of the groups that have a subnet list sum to zero.
func (g *c14Gen) zeroTotal() bool {
	var t uint64
	for i := range g.groups {
		if g.groups[i].pb != nil && g.groups[i].pb.Subnets != nil {
			t += uint64(g.groups[i].weight)
		}
	}
	return t == 0
}

type c14World struct {
	gens    []c14Gen
	sel     *PhantomIPSelector
	lists   []*pb.PhantomSubnetsList // client-side list per generation (same group objects as the selector)
	viaToml bool
}

var c14Scratch string

func c14Bits(v6 bool) int {
	if v6 {
		return 128
	}
	return 32
}

func (w *c14World) toml() string {
	var b strings.Builder
	b.WriteString("[Networks]\n")
	for _, g := range w.gens {
		fmt.Fprintf(&b, "  [Networks.%d]\n    Generation = %d\n", g.id, g.id)
		for _, grp := range g.groups {
			fmt.Fprintf(&b, "    [[Networks.%d.WeightedSubnets]]\n", g.id)
			if !grp.noW {
				fmt.Fprintf(&b, "      Weight = %d\n", grp.weight)
			}
			if !grp.noF {
				fmt.Fprintf(&b, "      RandomizeDstPort = %v\n", grp.flag)
			}
			if !grp.nilSubs {
				var qs []string
				for _, sn := range grp.subnets {
					qs = append(qs, fmt.Sprintf("%q", sn.cidr))
				}
				fmt.Fprintf(&b, "      Subnets = [%s]\n", strings.Join(qs, ", "))
			}
		}
	}
	return b.String()
}

// build creates the real selector (struct literal + AddGeneration, or the real
// TOML loader on a generated file) and the client-side lists.
func (w *c14World) build(r *sim.Run, viaToml bool) bool {
	w.viaToml = viaToml
	if viaToml {
		path := filepath.Join(c14Scratch, "c14_subnets.toml")
		if err := os.WriteFile(path, []byte(w.toml()), 0o644); err != nil {
			r.Fail("harness/c14-toml-write", "%v", err)
			return false
		}
		sel, err := SubnetsFromTomlFile(path)
		if err != nil {
			r.Fail("harness/c14-toml-load", "%v\n%s", err, w.toml())
			return false
		}
		w.sel = sel
		for gi := range w.gens {
			g := &w.gens[gi]
			cfg := sel.Networks[g.id]
			if cfg == nil || len(cfg.WeightedSubnets) != len(g.groups) {
				r.Fail("harness/c14-toml-model-mismatch", "generation %d: loaded %+v\n%s", g.id, cfg, w.toml())
				return false
			}
			for k := range g.groups {
				grp := &g.groups[k]
				p := cfg.WeightedSubnets[k]
				ok := p.GetWeight() == grp.weight && p.GetRandomizeDstPort() == grp.flag && len(p.GetSubnets()) == len(grp.subnets)
				for j := 0; ok && j < len(grp.subnets); j++ {
					ok = p.Subnets[j] == grp.subnets[j].cidr
				}
				if !ok {
					r.Fail("harness/c14-toml-model-mismatch", "generation %d group %d: loaded %v\n%s", g.id, k, p, w.toml())
					return false
				}
				grp.pb = p
			}
		}
	} else {
		w.sel = &PhantomIPSelector{Networks: map[uint]*SubnetConfig{}}
		for gi := range w.gens {
			g := &w.gens[gi]
			cfg := &SubnetConfig{}
			for k := range g.groups {
				grp := &g.groups[k]
				p := &pb.PhantomSubnets{}
				if !grp.noW {
					v := grp.weight
					p.Weight = &v
				}
				if !grp.noF {
					v := grp.flag
					p.RandomizeDstPort = &v
				}
				if !grp.nilSubs {
					p.Subnets = []string{}
					for _, sn := range grp.subnets {
						p.Subnets = append(p.Subnets, sn.cidr)
					}
				}
				grp.pb = p
				cfg.WeightedSubnets = append(cfg.WeightedSubnets, p)
			}
			if got := w.sel.AddGeneration(int(g.id), cfg); got != g.id {
				r.Fail("harness/c14-add-generation", "AddGeneration(%d) stored the configuration as generation %d", g.id, got)
				return false
			}
		}
	}
	w.lists = nil
	for gi := range w.gens {
		g := &w.gens[gi]
		l := &pb.PhantomSubnetsList{}
		for k := range g.groups {
			l.WeightedSubnets = append(l.WeightedSubnets, g.groups[k].pb)
		}
		w.lists = append(w.lists, l)
		if g.removed {
			w.sel.RemoveGeneration(g.id)
		}
	}
	return true
}

func (w *c14World) log(r *sim.Run) {
	for _, g := range w.gens {
		for k, grp := range g.groups {
			var ss []string
			for _, sn := range grp.subnets {
				t := sn.cidr
				if sn.origin != "fresh" {
					t += "(" + sn.origin + ")"
				}
				ss = append(ss, t)
			}
			wt := fmt.Sprint(grp.weight)
			if grp.noW {
				wt = "unset"
			}
			fl := fmt.Sprint(grp.flag)
			if grp.noF {
				fl = "unset"
			}
			sub := "[" + strings.Join(ss, " ") + "]"
			if grp.nilSubs {
				sub = "unset"
			}
			rm := ""
			if g.removed {
				rm = " (generation removed again)"
			}
			r.Logf("config gen=%d group=%d weight=%s randomize-dst-port=%s subnets=%s%s", g.id, k, wt, fl, sub, rm)
		}
	}
}

// ---------------------------------------------------------------------------
// configuration generator

type c14Flavor struct {
	legacy bool // library versions 0 and 1 may be requested
	lz     bool // networks whose address starts with a zero byte may be configured
	zeroW  bool // one generation has total weight zero
	toml   bool // load through SubnetsFromTomlFile
}

func c14Finish(ip net.IP, ones int, v6 bool, host []byte, origin string) c14Subnet {
	bits := c14Bits(v6)
	mask := net.CIDRMask(ones, bits)
	nw := ip.Mask(mask)
	text := nw
	if host != nil {
		t := make(net.IP, len(nw))
		for i := range t {
			t[i] = nw[i] | (host[i] &^ mask[i])
		}
		if !v6 || t.To4() == nil {
			text = t
		}
	}
	return c14Subnet{
		cidr:   fmt.Sprintf("%s/%d", text.String(), ones),
		ipn:    &net.IPNet{IP: nw, Mask: mask},
		v6:     v6,
		ones:   ones,
		lz:     nw[0] == 0,
		origin: origin,
	}
}

func c14Fresh(tp *sim.Tape, v6, lzOK bool) c14Subnet {
	bits := c14Bits(v6)
	n := bits / 8
	ones := 0
	switch tp.Choose("pfxcls", 8) {
	case 0, 3, 6, 7: // medium
		if v6 {
			ones = 32 + tp.Choose("pfx", 92)
		} else {
			ones = 16 + tp.Choose("pfx", 12)
		}
	case 1: // small: every offset can be hit in a batch
		ones = bits - 4 + tp.Choose("pfx", 4)
	case 2: // a single address
		ones = bits
	case 4: // large
		if v6 {
			ones = 1 + tp.Choose("pfx", 31)
		} else {
			ones = 1 + tp.Choose("pfx", 15)
		}
	case 5:
		if lzOK {
			ones = tp.Choose("pfx", 9) // /0 … /8
		} else {
			ones = bits - 4 + tp.Choose("pfx", 5)
		}
	}
	raw := tp.Bytes("net", n)
	lz := false
	if lzOK && (ones == 0 || tp.Bool("lz")) {
		k := 1 + tp.Choose("lzbytes", n-1)
		for i := 0; i < k; i++ {
			raw[i] = 0
		}
		lz = true
	}
	ip := net.IP(raw).Mask(net.CIDRMask(ones, bits))
	if !lz && ip[0] == 0 {
		ip[0] = 0x80
	}
	if v6 && ip.To4() != nil {
		ip[11] = 0xfe // never configure IPv4-mapped IPv6 networks (family would be ambiguous)
	}
	var host []byte
	if tp.Prob("hostbits", 1, 8) {
		host = tp.Bytes("host", n)
	}
	sn := c14Finish(ip, ones, v6, host, "fresh")
	if !v6 && tp.Prob("mapped-spelling", 1, 8) {
		// the same IPv4 network written in IPv4-mapped IPv6 notation (::ffff:a.b.c.d/(96+n)); an
		// operator can write it, net.ParseCIDR accepts it, and it denotes the IPv4 network
		sn.cidr = fmt.Sprintf("::ffff:%s/%d", sn.cidr[:strings.IndexByte(sn.cidr, '/')], 96+ones)
		sn.mapped = true
	}
	return sn
}

func c14Derive(tp *sim.Tape, e c14Subnet, lzOK bool) c14Subnet {
	bits := c14Bits(e.v6)
	n := bits / 8
	dup := e
	dup.origin = "dup"
	switch tp.Choose("derive", 3) {
	case 1: // a sub-network of an earlier subnet
		if e.ones == bits {
			return dup
		}
		ones := e.ones + 1 + tp.Choose("subpfx", bits-e.ones)
		raw := tp.Bytes("subnet", n)
		ip := make(net.IP, n)
		for i := range ip {
			ip[i] = e.ipn.IP[i] | (raw[i] &^ e.ipn.Mask[i])
		}
		ip = ip.Mask(net.CIDRMask(ones, bits))
		if (e.v6 && ip.To4() != nil) || (!lzOK && ip[0] == 0) {
			return dup
		}
		return c14Finish(ip, ones, e.v6, nil, "sub")
	case 2: // a super-network of an earlier subnet
		if e.ones == 0 {
			return dup
		}
		ones := tp.Choose("superpfx", e.ones)
		ip := append(net.IP(nil), e.ipn.IP...).Mask(net.CIDRMask(ones, bits))
		if (e.v6 && ip.To4() != nil) || (!lzOK && ip[0] == 0) {
			return dup
		}
		return c14Finish(ip, ones, e.v6, nil, "super")
	}
	return dup
}

var c14GenIDs = []uint{1, 2, 957, 0, 3, 1 << 31}
var c14Weights = []uint32{1, 1, 2, 9, 0, 1000, 4294967295}

func c14GenWorld(tp *sim.Tape, fl c14Flavor) *c14World {
	w := &c14World{}
	nGens := 1 + tp.Choose("ngens", 3)
	idOff := tp.Choose("genids", len(c14GenIDs))
	zeroGen := -1
	if fl.zeroW {
		zeroGen = tp.Choose("zerogen", nGens)
	}
	for gi := 0; gi < nGens; gi++ {
		g := c14Gen{id: c14GenIDs[(idOff+gi)%len(c14GenIDs)]}
		famMode := tp.Choose("fammode", 4) // 0,1 mixed; 2 only IPv4; 3 only IPv6
		nGroups := 1 + tp.Choose("ngroups", 5)
		var all []c14Subnet
		for k := 0; k < nGroups; k++ {
			grp := c14Group{}
			grp.weight = c14Weights[tp.Choose("weight", len(c14Weights))]
			if tp.Prob("noweight", 1, 16) {
				grp.weight, grp.noW = 0, true
			}
			switch tp.Choose("flag", 3) {
			case 0:
				grp.noF = true
			case 2:
				grp.flag = true
			}
			nSub := 1 + tp.Choose("nsubnets", 4)
			if k > 0 && tp.Prob("emptygroup", 1, 24) {
				nSub = 0
				grp.nilSubs = tp.Bool("nilsubnets")
			}
			for j := 0; j < nSub; j++ {
				kind := tp.Choose("kind", 8)
				if kind >= 5 && len(all) > 0 {
					e := all[tp.Choose("earlier", len(all))]
					sn := c14Derive(tp, e, fl.lz)
					grp.subnets = append(grp.subnets, sn)
					all = append(all, sn)
					continue
				}
				v6 := famMode == 3
				if famMode < 2 {
					v6 = tp.Bool("v6net")
				}
				sn := c14Fresh(tp, v6, fl.lz)
				grp.subnets = append(grp.subnets, sn)
				all = append(all, sn)
			}
			g.groups = append(g.groups, grp)
		}
		if gi == zeroGen {
			for k := range g.groups {
				g.groups[k].weight = 0
			}
		} else {
			var tot uint64
			for k := range g.groups {
				if !g.groups[k].nilSubs {
					tot += uint64(g.groups[k].weight)
				}
			}
			if tot == 0 {
				g.groups[0].weight, g.groups[0].noW = 1, false
			}
		}
		w.gens = append(w.gens, g)
	}
	if nGens >= 2 && tp.Prob("removegen", 1, 16) {
		w.gens[nGens-1].removed = true
	}
	return w
}

// ---------------------------------------------------------------------------
// calls and outcomes

type c14Call struct {
	station    bool
	seed       []byte
	gi         int // index of the generation in the world; -1 = a generation that is not configured
	libver     uint
	v6         bool
	xform      int  // client entry: 0 V4Only, 1 V6Only, 2 no filter
	unweighted bool // client entry
}

const c14UnknownGen = 77777

func (c c14Call) class() string {
	switch {
	case !c.station:
		return "client"
	case c.libver < 2:
		return "legacy"
	}
	return "hkdf"
}

func (c c14Call) entry() string {
	if c.station {
		return "station"
	}
	return "client"
}

// family: 4, 6 or 0 (no family filter)
func (c c14Call) family() int {
	if c.station {
		if c.v6 {
			return 6
		}
		return 4
	}
	return [3]int{4, 6, 0}[c.xform]
}

func (w *c14World) genID(c c14Call) uint {
	if c.gi < 0 {
		return c14UnknownGen
	}
	return w.gens[c.gi].id
}

func (w *c14World) describe(c c14Call) string {
	if c.station {
		return fmt.Sprintf("Select(seed=%s, gen=%d, libver=%d, v6=%v)", sim.Hex(c.seed, 8), w.genID(c), c.libver, c.v6)
	}
	return fmt.Sprintf("SelectPhantom(seed=%s, list-of-gen=%d, filter=%s, weighted=%v)", sim.Hex(c.seed, 8), w.genID(c), [3]string{"V4Only", "V6Only", "none"}[c.xform], !c.unweighted)
}

type c14Out struct {
	ip    []byte
	noIP  bool
	flag  bool
	isErr bool
	err   string
	panic string
	held  *PhantomIP // the value the call returned, kept to be read again later (see stillSame)
}

func (o c14Out) same(p c14Out) bool {
	if (o.panic != "") != (p.panic != "") {
		return false
	}
	if o.panic != "" {
		return true
	}
	if o.isErr != p.isErr {
		return false
	}
	if o.isErr {
		return true // which error is a don't-care
	}
	return o.noIP == p.noIP && o.flag == p.flag && bytes.Equal(o.ip, p.ip)
}

func c14IPText(ip []byte) string {
	if len(ip) == 4 || len(ip) == 16 {
		return net.IP(ip).String()
	}
	return fmt.Sprintf("<%d bytes:%x>", len(ip), ip)
}

func (o c14Out) String() string {
	switch {
	case o.panic != "":
		return "PANIC(" + o.panic + ")"
	case o.isErr:
		return "error(" + o.err + ")"
	case o.noIP:
		return "nil address, nil error"
	}
	return fmt.Sprintf("%s random-port=%v", c14IPText(o.ip), o.flag)
}

// do executes one selection on the shared selector / list.
func (w *c14World) do(c c14Call) (o c14Out) {
	defer func() {
		if p := recover(); p != nil {
			o = c14Out{panic: fmt.Sprint(p)}
		}
	}()
	seed := append([]byte(nil), c.seed...)
	var ph *PhantomIP
	var err error
	if c.station {
		ph, err = w.sel.Select(seed, w.genID(c), c.libver, c.v6)
	} else {
		var f SubnetFilter
		switch c.xform {
		case 0:
			f = V4Only
		case 1:
			f = V6Only
		}
		ph, err = SelectPhantom(seed, w.lists[c.gi], f, !c.unweighted)
	}
	if err != nil {
		return c14Out{isErr: true, err: err.Error()}
	}
	if ph == nil || ph.IP() == nil || *ph.IP() == nil {
		return c14Out{noIP: true}
	}
	return c14Out{ip: append([]byte{}, (*ph.IP())...), flag: ph.SupportRandomPort(), held: ph}
}

// stillSame reads the results the calls returned earlier once more: a result that other selections
// made afterwards have changed is not a function of its own inputs alone.
func (x *c14Ctx) stillSame(calls []c14Call, outs []c14Out, phase, after string) {
	for i, o := range outs {
		if o.held == nil || x.stop {
			continue
		}
		var now []byte
		if p := o.held.IP(); p != nil {
			now = *p
		}
		if bytes.Equal(now, o.ip) && o.held.SupportRandomPort() == o.flag {
			continue
		}
		x.fail("C14/impure/"+calls[i].class()+"/result-changed-after-return",
			"c%02d %s returned %s (%s); read again %s, the same returned value says %s random-port=%v",
			i, x.w.describe(calls[i]), o, phase, after, c14IPText(now), o.held.SupportRandomPort())
	}
}

// ---------------------------------------------------------------------------
// oracles

type c14Ctx struct {
	r    *sim.Run
	w    *c14World
	seen map[string]bool
	stop bool
	okN  int
	cold bool // the concurrent phase runs on a selector that has never been used (built again from the same configuration)
}

// fail reports a signature at most once per run. (A listed known finding does
// not stop the run; the driver's replay passes over listed findings other than
// the replayed one in the same way, so later violations stay replayable.)
func (x *c14Ctx) fail(sig, format string, a ...any) {
	if x.seen[sig] {
		return
	}
	x.seen[sig] = true
	if x.r.Fail(sig, format, a...) {
		x.stop = true
	}
}

// contain is the containment side invariant on one result.
func (x *c14Ctx) contain(c c14Call, o c14Out, where string) {
	r, w := x.r, x.w
	var g *c14Gen
	if c.gi >= 0 {
		g = &w.gens[c.gi]
	}
	what := w.describe(c)
	if o.panic != "" {
		circ := "other"
		switch {
		case g == nil:
			circ = "unknown-generation"
		case c.station && g.removed:
			circ = "removed-generation"
		case g.zeroTotal() && ((c.station && c.libver >= 2) || (!c.station && !c.unweighted)):
			circ = "zero-total-weight"
		}
		x.fail("C14/panic/"+circ+"/"+c.entry(), "%s: %s panicked instead of returning an address or an error: %s", where, what, o.panic)
		return
	}
	// "destination-port randomisation is granted only if THAT subnet allows it": with overlapping
	// subnets in groups of different flags, which subnet was chosen cannot be read off the address.
	// The client library's selection over the same generation list is an independent implementation
	// of the same choice (library versions with HKDF selection): same address => same flag.
	if c.station && g != nil && !g.removed && c.libver >= 2 && !o.isErr && !o.noIP && o.panic == "" && c.gi < len(w.lists) {
		f := V4Only
		if c.v6 {
			f = V6Only
		}
		func() {
			defer func() { recover() }()
			cp, err := SelectPhantom(append([]byte(nil), c.seed...), w.lists[c.gi], f, true)
			if err == nil && cp != nil && cp.IP() != nil && net.IP(o.ip).Equal(*cp.IP()) {
				r.Probe("result/flag-cross-checked-with-client-selection")
				if cp.SupportRandomPort() != o.flag {
					x.fail("C14/containment/random-port-flag-not-of-chosen-subnet", "%s: %s returned %s; the client library selects the same address from the same generation list with random-port=%v: the flag is not that of the subnet the address was chosen from (overlapping subnets in groups with different flags)", where, what, o, cp.SupportRandomPort())
				}
			}
		}()
		if x.stop {
			return
		}
	}
	if c.station && (g == nil || g.removed) {
		if !o.isErr {
			x.fail("C14/containment/unconfigured-generation-selected", "%s: %s returned %s although no subnets are configured for that generation", where, what, o)
			return
		}
		if g == nil {
			r.Probe("error/unknown-generation")
		} else {
			r.Probe("error/removed-generation")
		}
		return
	}
	if o.isErr {
		r.Probe("result/error")
		if len(c.seed) == 0 {
			r.Probe("error/empty-seed")
		}
		return
	}
	if o.noIP {
		x.fail("C14/containment/nil-address", "%s: %s returned neither an address nor an error", where, what)
		return
	}
	want := c.family()
	ip := net.IP(o.ip)
	wellFormed := false
	switch want {
	case 4:
		wellFormed = len(ip) == 4 || (len(ip) == 16 && ip.To4() != nil)
	case 6:
		wellFormed = len(ip) == 16 // an IPv4-mapped value inside a configured IPv6 network is a don't-care
	default:
		wellFormed = len(ip) == 4 || len(ip) == 16
	}
	famOK := func(sn *c14Subnet) bool { return want == 0 || (want == 6) == sn.v6 }
	inside, flagOK := false, false
	var hit *c14Subnet
	if wellFormed {
		for k := range g.groups {
			grp := &g.groups[k]
			for j := range grp.subnets {
				sn := &grp.subnets[j]
				if famOK(sn) && sn.has(ip) {
					inside = true
					if grp.flag == o.flag {
						flagOK = true
						if hit == nil {
							hit = sn
						}
					}
				}
			}
		}
	}
	if inside && flagOK {
		x.okN++
		r.Probe("result/ok")
		if o.flag {
			r.Probe("result/random-port-granted")
		}
		if hit.ones == c14Bits(hit.v6) {
			if hit.v6 {
				r.Probe("result/in-slash-128")
			} else {
				r.Probe("result/in-slash-32")
			}
		}
		if hit.origin != "fresh" {
			r.Probe("result/in-" + hit.origin + "-subnet")
		}
		if hit.mapped {
			r.Probe("result/in-ipv4-subnet-written-ipv4-mapped")
		}
		return
	}
	// Not (well-formed, inside, right flag): is it an address of a leading-zero
	// network with its leading zero bytes cut off, carrying that network's flag?
	// (Asked first: without a family filter a 16-byte address cut down to 4
	// bytes reads as an IPv4 address and may by coincidence lie in a configured
	// IPv4 subnet with another flag.)
	for _, T := range []int{4, 16} {
		if len(ip) >= T || (want == 4 && T != 4) || (want == 6 && T != 16) {
			continue
		}
		padded := make(net.IP, T)
		copy(padded[T-len(ip):], ip)
		for k := range g.groups {
			for j := range g.groups[k].subnets {
				sn := &g.groups[k].subnets[j]
				if sn.v6 == (T == 16) && sn.lz && g.groups[k].flag == o.flag && sn.has(padded) {
					fam := "v4"
					if T == 16 {
						fam = "v6"
					}
					reads := ""
					if len(ip) == 4 {
						reads = fmt.Sprintf(" (a 4-byte value, i.e. it reads as the IPv4 address %s)", ip)
					}
					full := padded.String()
					if T == 16 && padded.To4() != nil {
						full = "::ffff:" + full // net.IP prints IPv4-mapped values in dotted form
					}
					x.fail("C14/containment/truncated-address/leading-zero-network/"+fam,
						"%s: %s returned a %d-byte address %x%s with no error; padded with leading zero bytes it is %s inside the configured subnet %s, whose network address starts with a zero byte",
						where, what, len(ip), []byte(ip), reads, full, sn.cidr)
					return
				}
			}
		}
	}
	switch {
	case inside && o.flag:
		x.fail("C14/containment/random-port-granted-but-subnet-forbids", "%s: %s returned %s, but no configured subnet of generation %d that contains the address allows destination-port randomisation", where, what, o, g.id)
	case inside:
		x.fail("C14/containment/random-port-withheld-but-subnet-allows", "%s: %s returned %s, but every configured subnet of generation %d that contains the address allows destination-port randomisation", where, what, o, g.id)
	case !wellFormed && (len(ip) == 4 || len(ip) == 16):
		x.fail("C14/containment/wrong-family/"+c.entry(), "%s: %s returned %s, which is not an address of the requested family", where, what, o)
	case !wellFormed:
		x.fail("C14/containment/malformed-address/"+c.entry(), "%s: %s returned a %d-byte value %x as address", where, what, len(ip), []byte(ip))
	default:
		other := ""
		for gi := range w.gens {
			for k := range w.gens[gi].groups {
				for _, sn := range w.gens[gi].groups[k].subnets {
					if sn.has(ip) && other == "" {
						other = fmt.Sprintf(" (it lies in %s of generation %d)", sn.cidr, w.gens[gi].id)
					}
				}
			}
		}
		x.fail("C14/containment/outside-configured-subnets/"+c.class(), "%s: %s returned %s, which is in no subnet of the requested family configured for generation %d%s", where, what, o, g.id, other)
	}
}

// runCalls: serial reference, concurrent phase under the scheduler, serial repetition.
func (x *c14Ctx) runCalls(calls []c14Call, setup func(*hook.Sched)) {
	r, w := x.r, x.w
	n := len(calls)
	ref := make([]c14Out, n)
	nLegacy := 0
	for i, c := range calls {
		ref[i] = w.do(c)
		r.Logf("alone c%02d %s -> %s", i, w.describe(c), ref[i])
		x.contain(c, ref[i], fmt.Sprintf("c%02d alone", i))
		if x.stop {
			return
		}
		if c.class() == "legacy" {
			nLegacy++
		}
	}

	x.stillSame(calls, ref, "executed alone", "after the other selections had been executed alone")
	if x.stop {
		return
	}

	if x.cold {
		// The serial reference above has used the selector; anything it computes on first use has been
		// computed. The concurrent selections get a selector (and generation lists) built again from
		// the same configuration, so that their first use of every generation and group overlaps.
		if !w.build(r, w.viaToml) {
			return
		}
		r.Probe("sched/concurrent-first-use-of-a-fresh-selector")
	}
	s := hook.Install(r.Tape)
	defer s.Uninstall()
	s.LockYield = true
	s.UnlockYield = true // a draw made after the lock was dropped must be interleavable too
	if setup != nil {
		setup(s)
	}
	type step struct {
		task  int
		yield bool
	}
	var steps []step
	s.Trace = func(l string) {
		r.Logf("step %s", l)
		name, rest, _ := strings.Cut(l, " ")
		ti := -1
		if len(name) == 3 && name[0] == 'c' {
			ti = int(name[1]-'0')*10 + int(name[2]-'0')
		}
		steps = append(steps, step{ti, strings.HasPrefix(rest, "yield:")})
	}
	conc := make([]c14Out, n)
	done := make([]bool, n)
	for i := range calls {
		i := i
		s.Spawn(fmt.Sprintf("c%02d", i), func() {
			conc[i] = w.do(calls[i])
			done[i] = true
		})
	}
	st := sim.Drive(r, s, sim.DriveOpt{Horizon: time.Hour, MaxSteps: 4000})
	defer s.Finish()
	r.CoverU(s.SigHash)
	switch st {
	case sim.AllExited:
	case sim.Failed:
		return
	case sim.Deadlock:
		x.fail("C14/no-result/deadlock", "concurrent selections block each other for ever: %s", s.WaitForGraph())
		return
	default:
		x.fail("harness/c14-drive", "concurrent phase ended with %v: %v", st, s.LiveNames())
		return
	}

	// which calls had a math/rand step of another call between their own first and last math/rand step
	first := make([]int, n)
	last := make([]int, n)
	nyield := make([]int, n)
	for i := range first {
		first[i], last[i] = -1, -1
	}
	for k, sp := range steps {
		if sp.yield && sp.task >= 0 && sp.task < n {
			if first[sp.task] < 0 {
				first[sp.task] = k
			}
			last[sp.task] = k
			nyield[sp.task]++
		}
	}
	interfered := make([]bool, n)
	anyInter := false
	for i := 0; i < n; i++ {
		for k := first[i] + 1; first[i] >= 0 && k < last[i]; k++ {
			if steps[k].yield && steps[k].task != i {
				interfered[i] = true
			}
		}
		if interfered[i] {
			anyInter = true
			r.Fault("interleave/foreign-rand-step-between-seed-and-draw")
		}
		if nyield[i] > 0 && calls[i].class() == "legacy" {
			r.Probe("sched/legacy-call-parked-at-math-rand")
		}
	}

	for i, c := range calls {
		if !done[i] {
			x.fail("harness/c14-task-lost", "task c%02d did not store a result", i)
			return
		}
		tag := ""
		if interfered[i] {
			tag = " [foreign math/rand step between its seed and its draw]"
		}
		r.Logf("concurrent c%02d -> %s%s", i, conc[i], tag)
		r.Cover(c.class(), fmt.Sprint(c.libver, c.family(), interfered[i], conc[i].isErr, conc[i].panic != ""))
		if conc[i].same(ref[i]) {
			if interfered[i] {
				r.Probe("sched/interleaved-legacy-call-unchanged")
			}
			continue
		}
		x.contain(c, conc[i], fmt.Sprintf("c%02d concurrent", i))
		if x.stop {
			return
		}
		circ := ""
		switch c.class() {
		case "legacy":
			switch {
			case nLegacy >= 2 && interfered[i]:
				circ = "legacy-libver-0-1" // two legacy selections interleaved at the process-global math/rand source
			case nLegacy >= 2:
				circ = "legacy-not-interleaved"
			default:
				circ = "legacy-alone"
			}
		case "hkdf":
			circ = "hkdf-libver-2plus"
		default:
			circ = "client-entry"
		}
		x.fail("C14/impure/"+circ+"/concurrent",
			"c%02d %s returned %s when executed alone, but %s when executed concurrently with %d other selections (%d of all %d are library version 0/1)%s",
			i, w.describe(c), ref[i], conc[i], n-1, nLegacy, n, tag)
		if x.stop {
			return
		}
	}
	x.stillSame(calls, ref, "executed alone", "after the concurrent phase")
	x.stillSame(calls, conc, "executed concurrently", "after all concurrent selections had returned")
	if x.stop {
		return
	}
	if anyInter {
		r.Probe("sched/legacy-calls-interleaved")
	}
	if n == 32 {
		r.Probe("sched/32-tasks")
	}

	for i, c := range calls {
		again := w.do(c)
		if again.same(ref[i]) {
			continue
		}
		r.Logf("again c%02d -> %s", i, again)
		x.contain(c, again, fmt.Sprintf("c%02d repeated alone", i))
		if x.stop {
			return
		}
		x.fail("C14/impure/"+c.class()+"/repeat", "c%02d %s returned %s when first executed alone, but %s when executed alone again after the concurrent phase", i, w.describe(c), ref[i], again)
		if x.stop {
			return
		}
	}
	x.stillSame(calls, ref, "executed alone", "after every selection had been repeated")
	x.stillSame(calls, conc, "executed concurrently", "after every selection had been repeated")
	if x.stop {
		return
	}
	if x.okN > 0 {
		r.Nontrivial()
	}
}

// ---------------------------------------------------------------------------
// scenario 0: generated configuration, generated calls, random schedules

func c14Random(r *sim.Run) {
	tp := r.Tape
	fl := c14Flavor{
		legacy: tp.Choose("population", 2) == 0, // 1 = only library versions 2-4 and the client entry
		lz:     tp.Prob("cfg-leading-zero", 1, 3),
		zeroW:  tp.Prob("cfg-zero-weights", 1, 8),
		toml:   tp.Prob("cfg-via-toml", 1, 8),
	}
	w := c14GenWorld(tp, fl)
	if !w.build(r, fl.toml) {
		return
	}
	w.log(r)
	x := &c14Ctx{r: r, w: w, seen: map[string]bool{}}
	c14ConfigProbes(r, w, fl)

	n := 2
	switch tp.Choose("ntasks-class", 4) {
	case 1:
		n = 3 + tp.Choose("ntasks", 2)
	case 2:
		n = 5 + tp.Choose("ntasks", 8)
	case 3:
		n = 13 + tp.Choose("ntasks", 20)
	}
	var calls []c14Call
	for i := 0; i < n; i++ {
		if i > 0 && tp.Prob("same-call", 1, 8) {
			calls = append(calls, calls[tp.Choose("earlier-call", i)])
			continue
		}
		c := c14Call{station: tp.Choose("entry", 3) != 2}
		if i > 0 && tp.Prob("same-seed", 1, 6) {
			c.seed = calls[tp.Choose("earlier-seed", i)].seed
		} else {
			l := 32
			switch tp.Choose("seedlen", 8) {
			case 5:
				l = 16
			case 6:
				l = []int{8, 1, 10, 11, 64}[tp.Choose("seedlen2", 5)]
			case 7:
				if tp.Prob("empty-seed", 1, 4) {
					l = 0
				}
			}
			c.seed = tp.Bytes("seed", l)
			if l > 0 {
				c.seed[l-1] += byte(i)
			}
		}
		c.gi = tp.Choose("gen", len(w.gens))
		if c.station && tp.Prob("unknown-gen", 1, 24) {
			c.gi = -1
		}
		if c.station {
			if fl.legacy {
				c.libver = uint(tp.Choose("libver", 5))
			} else {
				c.libver = 2 + uint(tp.Choose("libver", 3))
			}
			c.v6 = tp.Bool("v6")
		} else {
			c.xform = tp.Choose("filter", 3)
			c.unweighted = tp.Prob("unweighted", 1, 4)
		}
		calls = append(calls, c)
	}
	stay := tp.Bool("stay-bias")
	x.cold = tp.Bool("cold-concurrent")
	r.Cover("random", fmt.Sprint(fl.legacy, fl.lz, fl.zeroW, fl.toml, len(w.gens)))
	r.Logf("C14 random world: %d concurrent selections, legacy-versions=%v leading-zero-networks=%v zero-weights=%v via-toml=%v stay-bias=%v", n, fl.legacy, fl.lz, fl.zeroW, fl.toml, stay)
	x.runCalls(calls, func(s *hook.Sched) {
		if stay {
			s.StayNum, s.StayDen = 2, 3
		}
	})
}

func c14ConfigProbes(r *sim.Run, w *c14World, fl c14Flavor) {
	if w.viaToml {
		r.Probe("config/loaded-from-toml")
	}
	for _, g := range w.gens {
		seen := map[string]bool{}
		v4, v6 := false, false
		zero, equal := false, len(g.groups) >= 2
		for k, grp := range g.groups {
			if grp.weight == 0 {
				zero = true
			}
			if grp.weight == 0 || grp.weight != g.groups[0].weight {
				equal = false
			}
			_ = k
			for _, sn := range grp.subnets {
				if seen[sn.ipn.String()] {
					r.Probe("config/duplicate-subnet")
				}
				seen[sn.ipn.String()] = true
				if sn.origin == "sub" || sn.origin == "super" {
					r.Probe("config/overlapping-subnets")
				}
				if sn.lz {
					r.Probe("config/leading-zero-network")
				}
				if sn.v6 {
					v6 = true
				} else {
					v4 = true
				}
				if sn.ones == c14Bits(sn.v6) {
					r.Probe("config/host-prefix")
				}
			}
		}
		if g.zeroTotal() {
			r.Probe("config/zero-total-weight")
		} else if zero {
			r.Probe("config/zero-weight-group")
		}
		if equal {
			r.Probe("config/equal-weights")
		}
		if v4 != v6 {
			r.Probe("config/single-family-generation")
		}
		if g.removed {
			r.Probe("config/removed-generation")
		}
	}
}

// ---------------------------------------------------------------------------
// scenario 1: small fixed scenarios whose schedules are enumerated

func c14FixedWorld() *c14World {
	mk := func(cidr string) c14Subnet {
		ip, n, err := net.ParseCIDR(cidr)
		if err != nil {
			panic(err)
		}
		v6 := ip.To4() == nil
		if !v6 {
			n.IP = n.IP.To4()
		}
		ones, _ := n.Mask.Size()
		return c14Subnet{cidr: cidr, ipn: n, v6: v6, ones: ones, lz: n.IP[0] == 0, origin: "fresh"}
	}
	// the shape of generation 957 of the repository's own test configuration
	return &c14World{gens: []c14Gen{{id: 957, groups: []c14Group{
		{weight: 9, flag: true, subnets: []c14Subnet{mk("192.122.190.0/24"), mk("2001:48a8:687f:1::/64")}},
		{weight: 1, flag: false, subnets: []c14Subnet{mk("141.219.0.0/16"), mk("35.8.0.0/16")}},
	}}}}
}

func c14FixedSeed(tag string) []byte {
	h := sha256.Sum256([]byte("verif-c14-" + tag))
	return h[:]
}

type c14SmallScn struct {
	calls      []c14Call
	maxPreempt int // -1: every schedule
}

func c14St(tag string, libver uint, v6 bool) c14Call {
	return c14Call{station: true, seed: c14FixedSeed(tag), libver: libver, v6: v6}
}
func c14Cl(tag string, xform int) c14Call {
	return c14Call{seed: c14FixedSeed(tag), xform: xform}
}

var c14Small = []c14SmallScn{
	{[]c14Call{c14St("a", 1, false), c14St("b", 1, false)}, -1},
	{[]c14Call{c14St("a", 0, false), c14St("b", 0, false)}, -1},
	{[]c14Call{c14St("a", 1, true), c14St("b", 0, false)}, -1},
	{[]c14Call{c14St("a", 1, false), c14St("a", 1, false)}, -1},
	{[]c14Call{c14St("a", 1, false), c14St("b", 4, false)}, -1},
	{[]c14Call{c14St("a", 1, true), c14Cl("b", 1)}, -1},
	{[]c14Call{c14St("a", 2, false), c14St("b", 3, true)}, -1},
	{[]c14Call{c14Cl("a", 0), c14Cl("b", 2)}, -1},
	{[]c14Call{c14St("a", 4, false), c14St("a", 2, false)}, -1},
	{[]c14Call{c14St("a", 1, false), c14St("b", 1, true), c14St("c", 0, false)}, 2},
	{[]c14Call{c14St("a", 1, false), c14St("b", 2, false), c14Cl("c", 0)}, 2},
	{[]c14Call{c14St("a", 0, true), c14St("b", 1, true), c14St("c", 1, false), c14St("d", 0, false)}, 1},
}

func c14SmallScenario(r *sim.Run) {
	tp := r.Tape
	k := tp.Choose("small-scenario", len(c14Small))
	sc := c14Small[k]
	w := c14FixedWorld()
	if !w.build(r, false) {
		return
	}
	w.log(r)
	r.Cover("small", fmt.Sprint(k))
	r.Logf("C14 small scenario %d: %d concurrent selections, preemption bound %d (-1: none)", k, len(sc.calls), sc.maxPreempt)
	x := &c14Ctx{r: r, w: w, seen: map[string]bool{}, cold: k%2 == 1}
	x.runCalls(sc.calls, func(s *hook.Sched) {
		if sc.maxPreempt >= 0 {
			s.MaxPreempt = sc.maxPreempt
		} else {
			s.MaxPreempt = 1 << 20 // value 0 of every scheduling draw = keep running the current task
		}
	})
}

// ---------------------------------------------------------------------------
// scenario 2: offset sweep of small subnets (serial batch; input sampling)

type c14SweepCase struct {
	v6     bool
	ones   int
	libver uint
	lz     bool
}

var c14Sweeps = func() []c14SweepCase {
	var cs []c14SweepCase
	for _, lz := range []bool{false, true} {
		for _, v6 := range []bool{false, true} {
			for d := 0; d <= 4; d++ {
				for _, lv := range []uint{0, 1, 2, 4} {
					cs = append(cs, c14SweepCase{v6, c14Bits(v6) - 4 + d, lv, lz})
				}
			}
		}
	}
	return cs
}()

func c14Sweep(r *sim.Run) {
	tp := r.Tape
	k := tp.Choose("sweep-case", len(c14Sweeps))
	sc := c14Sweeps[k]
	bits := c14Bits(sc.v6)
	n := bits / 8
	raw := tp.Bytes("sweep-net", n)
	if sc.lz {
		z := 1 + tp.Choose("lzbytes", n-1)
		for i := 0; i < z; i++ {
			raw[i] = 0
		}
	} else if raw[0] == 0 {
		raw[0] = 0xc0
	}
	if sc.v6 && net.IP(raw).To4() != nil {
		raw[11] = 0xfe
	}
	a := c14Finish(net.IP(raw), sc.ones, sc.v6, nil, "fresh")
	sib := append(net.IP(nil), a.ipn.IP...)
	sib[(sc.ones-1)/8] ^= 0x80 >> uint((sc.ones-1)%8)
	b := c14Finish(sib, sc.ones, sc.v6, nil, "fresh")
	var o c14Subnet
	if sc.v6 {
		o = c14Finish(net.IP{198, 51, 100, 0}, 24, false, nil, "fresh")
	} else {
		o = c14Finish(net.ParseIP("2001:db8::"), 64, true, nil, "fresh")
	}
	w := &c14World{gens: []c14Gen{{id: 1, groups: []c14Group{
		{weight: 1, flag: true, subnets: []c14Subnet{a, o}},
		{weight: 1, flag: false, subnets: []c14Subnet{b}},
	}}}}
	if !w.build(r, false) {
		return
	}
	w.log(r)
	fam := "v4"
	if sc.v6 {
		fam = "v6"
	}
	r.Cover("sweep", fmt.Sprint(k))
	size := 1 << uint(bits-sc.ones)
	budget := 48*size + 64
	base := tp.Bytes("sweep-seed", 32)
	r.Logf("C14 offset sweep: two /%d %s subnets (%d addresses each), library version %d, leading-zero=%v, up to %d seeds", sc.ones, fam, size, sc.libver, sc.lz, budget)
	x := &c14Ctx{r: r, w: w, seen: map[string]bool{}}
	var hit [2][16]bool
	nhit, tries := 0, 0
	for j := 0; j < budget && nhit < 2*size; j++ {
		h := sha256.Sum256(append(append([]byte(nil), base...), byte(j), byte(j>>8)))
		c := c14Call{station: true, seed: h[:], libver: sc.libver, v6: sc.v6}
		if sc.libver == 4 && j%2 == 1 {
			c = c14Call{seed: h[:], xform: 0}
			if sc.v6 {
				c.xform = 1
			}
		}
		tries++
		out := w.do(c)
		x.contain(c, out, fmt.Sprintf("seed #%d", j))
		if x.stop {
			return
		}
		if again := w.do(c); !again.same(out) {
			x.fail("C14/impure/"+c.class()+"/repeat", "seed #%d %s returned %s and, repeated immediately, %s", j, w.describe(c), out, again)
			if x.stop {
				return
			}
		}
		if out.isErr || out.panic != "" || out.noIP || len(out.ip) != n {
			continue
		}
		for which, sn := range []c14Subnet{a, b} {
			if sn.has(net.IP(out.ip)) {
				off := int(out.ip[n-1]) & (size - 1)
				if !hit[which][off] {
					hit[which][off] = true
					nhit++
				}
			}
		}
	}
	r.Logf("sweep: %d seeds, %d of %d offsets hit, %d selections inside the configuration", tries, nhit, 2*size, x.okN)
	if nhit == 2*size {
		r.Probe(fmt.Sprintf("sweep/all-offsets-hit/%s/libver%d", fam, sc.libver))
		if sc.ones == bits {
			r.Probe("sweep/host-prefix-exact/" + fam)
		}
	}
	if x.okN > 0 {
		r.Nontrivial()
	}
}

// ---------------------------------------------------------------------------

func c14Scenario(r *sim.Run) {
	switch r.Tape.Choose("mode", 16) {
	case 1:
		c14SmallScenario(r)
	case 2:
		c14Sweep(r)
	case 3:
		c14Update(r)
	default:
		c14Random(r)
	}
}

// scenario 3: the configuration of a generation is replaced / removed on a selector that has already
// served selections of it (UpdateGeneration, RemoveGeneration, AddGeneration are the selector's own
// API). "The subnets configured for that generation" are the ones configured at the time of the
// selection, and the result depends on them alone: a selector built from scratch with the new
// configuration must return the same.
func c14Update(r *sim.Run) {
	tp := r.Tape
	fl := c14Flavor{legacy: tp.Choose("population", 2) == 0}
	w := c14GenWorld(tp, fl)
	if !w.build(r, false) {
		return
	}
	x := &c14Ctx{r: r, w: w, seen: map[string]bool{}}
	a := tp.Choose("updated-gen", len(w.gens))
	var calls []c14Call
	n := 2 + tp.Choose("ncalls", 5)
	for i := 0; i < n; i++ {
		c := c14Call{station: true, gi: a, seed: tp.Bytes("seed", 16), v6: tp.Bool("v6")}
		if fl.legacy {
			c.libver = uint(tp.Choose("libver", 5))
		} else {
			c.libver = 2 + uint(tp.Choose("libver", 3))
		}
		calls = append(calls, c)
	}
	r.Cover("update", fmt.Sprint(fl.legacy, len(w.gens)))
	for i, c := range calls {
		o := w.do(c)
		r.Logf("before c%02d %s -> %s", i, w.describe(c), o)
		x.contain(c, o, fmt.Sprintf("c%02d before the update", i))
		if x.stop {
			return
		}
	}
	// the replacement configuration: a freshly generated generation
	w2 := c14GenWorld(tp, c14Flavor{legacy: fl.legacy})
	ng := w2.gens[0]
	ng.id, ng.removed = w.gens[a].id, false
	kind := tp.Choose("update-kind", 3)
	mk := func(g *c14Gen) *SubnetConfig {
		cfg := &SubnetConfig{}
		for k := range g.groups {
			grp := &g.groups[k]
			p := &pb.PhantomSubnets{}
			if !grp.noW {
				v := grp.weight
				p.Weight = &v
			}
			if !grp.noF {
				v := grp.flag
				p.RandomizeDstPort = &v
			}
			if !grp.nilSubs {
				p.Subnets = []string{}
				for _, sn := range grp.subnets {
					p.Subnets = append(p.Subnets, sn.cidr)
				}
			}
			grp.pb = p
			cfg.WeightedSubnets = append(cfg.WeightedSubnets, p)
		}
		return cfg
	}
	switch kind {
	case 0:
		w.sel.UpdateGeneration(ng.id, mk(&ng))
		r.Logf("UpdateGeneration(%d)", ng.id)
	case 1:
		w.sel.RemoveGeneration(ng.id)
		w.sel.UpdateGeneration(ng.id, mk(&ng))
		r.Logf("RemoveGeneration(%d), UpdateGeneration(%d)", ng.id, ng.id)
	default:
		// the generation is removed and not configured again
		w.sel.RemoveGeneration(ng.id)
		ng = w.gens[a]
		ng.removed = true
		r.Logf("RemoveGeneration(%d)", ng.id)
	}
	w.gens[a] = ng
	l := &pb.PhantomSubnetsList{}
	for k := range ng.groups {
		l.WeightedSubnets = append(l.WeightedSubnets, ng.groups[k].pb)
	}
	w.lists[a] = l
	w.log(r)
	r.Probe("update/generation-replaced-after-use")
	after := make([]c14Out, n)
	for i, c := range calls {
		after[i] = w.do(c)
		r.Logf("after c%02d %s -> %s", i, w.describe(c), after[i])
		x.contain(c, after[i], fmt.Sprintf("c%02d after the generation's configuration was replaced", i))
		if x.stop {
			return
		}
	}
	// a selector that never saw the old configuration
	fresh := &c14World{gens: append([]c14Gen(nil), w.gens...)}
	for gi := range fresh.gens {
		fresh.gens[gi].groups = append([]c14Group(nil), fresh.gens[gi].groups...)
	}
	if !fresh.build(r, false) {
		return
	}
	for i, c := range calls {
		o := fresh.do(c)
		if !o.same(after[i]) {
			x.fail("C14/impure/"+c.class()+"/depends-on-replaced-configuration", "c%02d %s returned %s on the selector whose generation %d had been replaced after use, but %s on a selector built from scratch with the same (new) configuration: the result depends on a configuration that is no longer in force", i, w.describe(c), after[i], ng.id, o)
			return
		}
	}
	if x.okN > 0 {
		r.Nontrivial()
	}
}

// c14Preflight: the legacy selection paths only mean anything if math/rand.Seed
// really seeds the process-global source (GODEBUG randseednop=0, the default of
// the repository's go 1.22 line).
func c14Preflight(t *testing.T) {
	mrand.Seed(1)
	a := mrand.Int63()
	mrand.Seed(1)
	b := mrand.Int63()
	mrand.Seed(2)
	c := mrand.Int63()
	if a != b || a == c {
		t.Fatalf("HARNESS TROUBLE (C14): math/rand.Seed does not seed the global source in this binary (randseednop=1?): Seed(1)->%d, Seed(1)->%d, Seed(2)->%d; the go.work / go.mod language version must stay below 1.24", a, b, c)
	}
	c14Scratch = os.Getenv("VERIF_SCRATCH")
	if c14Scratch == "" {
		c14Scratch = t.TempDir()
	}
}

func TestVerifC14(t *testing.T) {
	if os.Getenv("VERIF_PROP") == "C14" {
		c14Preflight(t)
	}
	sim.Main(t, sim.Config{
		Prop:     "C14",
		Scenario: c14Scenario,
		EnumN:    func(tier string) int { return len(c14Sweeps) / 2 }, // the cases without leading-zero networks; the other half is reached by the random part (mode 2)
		EnumAt:   func(tier string, i int) []int { return []int{2, i} },
		EnumLabels:    func(string, int) []string { return []string{"mode", "sweep-case"} },
		ExhaustLabels: func(string, int) []string { return []string{"mode", "small-scenario"} },
		ExhaustRoots: func(tier string) [][]int {
			var roots [][]int
			for i := range c14Small {
				roots = append(roots, []int{1, i})
			}
			return roots
		},
		ExhaustMax: map[string]int{"quick": 6000, "thorough": 200000},
		Runs:       map[string]int{"quick": 60000, "thorough": 5000000},
		Real: []string{
			"phantoms.PhantomIPSelector.Select / AddGeneration / RemoveGeneration / SubnetsFromTomlFile (generated files)",
			"phantoms.SelectPhantom with V4Only / V6Only / no filter, weighted and unweighted",
			"getSubnetsVarint, getSubnetsHkdf, selectPhantomImplV0 / Varint / Hkdf, SelectAddrFromSubnet, selectAddrFromSubnetOffset",
			"math/rand process-global source (really re-seeded: randseednop=0 is verified at start), mroth/weightedrand, x/crypto/hkdf",
		},
		Stub: []string{"goroutine scheduling: every top-level math/rand call and every lock operation of pkg/phantoms is a scheduling point of the simulator (seamgen rules rand, lock, go); code between two such points runs atomically"},
		Rule: "SIMULATED (schedules): 2-32 selections (station Select and client SelectPhantom; seed, generation, library version 0-4, family from the tape; half of the runs use library versions 2-4 only) run as tasks on one shared selector under uniformly random or stay-biased schedules; " +
			"for 12 fixed small scenarios on the repository's generation-957 configuration every schedule of 2 tasks, and every schedule with <=2 (3 tasks) / <=1 (4 tasks) preemptions, is enumerated depth-first; each concurrent result and a serial repetition are compared with the serial reference. " +
			"INPUT SAMPLING (not exhaustive): containment, family, well-formedness and the port-randomisation flag are checked on every result over generated configurations (1-3 generations x 1-5 weighted groups x 0-4 subnets; prefix lengths /0-/32 and /0-/128, host bits in the text, networks with 1-15 leading zero bytes in a third of the runs, duplicate / sub- / super-networks, weights 0, equal, unset, 2^32-1, a total weight of zero in an eighth of the runs, single-family generations, removed and unknown generations, TOML-loaded in an eighth of the runs); " +
			"80 sweep cases (family x /28-/32 resp. /124-/128 x library version 0,1,2,4 x leading-zero or not; the 40 without leading zeros are enumerated, all 80 are drawn by a sixteenth of the random runs) draw seeds until every offset of two sibling subnets was selected. " +
			"non-trivial = at least one selection returned an address that passed the containment check; distinct = distinct (schedule signature, per-call class/version/family/outcome, configuration flavour)",
		Assume: []string{
			"harness test files built with //go:debug asynctimerchan=0; go.work language version 1.22 so that math/rand.Seed seeds the global source (checked at start, otherwise harness trouble)",
			"pkg/phantoms has no shared mutable state other than the process-global math/rand source and emulated locks: code between two scheduling points is treated as atomic (the draw inside mroth/weightedrand.Chooser.Pick is not a scheduling point of its own; it runs atomically with the Seed before it)",
			"an IPv4-mapped network text ::ffff:a.b.c.d/(96+n) denotes the IPv4 network a.b.c.d/n (an eighth of the generated IPv4 subnets is written that way); an IPv4-mapped value inside a configured IPv6 network counts as IPv6",
			"which error a failing selection returns is a don't-care; a zero-weight group being selected is a don't-care of this property",
			"the flag oracle in the direction 'withheld although every containing subnet allows it' follows DESIGN.md (flag = that subnet's flag); the property text itself only forbids granting",
		},
	})
}
