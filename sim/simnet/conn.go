// Package simnet is the simulated network: in-memory net.Conn pairs whose
// segmentation, pacing, errors and scheduling belong to the simulator.
package simnet

import (
	"errors"
	"fmt"
	"io"
	"net"
	"os"
	"sync"
	"syscall"
	"time"

	"verif/sim/hook"
)

// Logger is the part of sim.Run the network needs (avoids an import cycle).
type Logger interface {
	Logf(format string, a ...any)
	Fault(kind string)
}

// Fault is one planned deviation at the k-th operation of a kind on a conn end.
type Fault struct {
	// Kind: "err" (operation fails, no data moved), "data+err" (read returns
	// the available data together with Err), "short" (write accepts N bytes and
	// returns nil), "partial+err" (write accepts N bytes and returns Err).
	Kind string
	Name string // label for the fault counters, e.g. "read/ECONNRESET"
	Err  error
	N    int
}

type opKey struct {
	op  string
	idx int
}

// Conn is one end of a simulated connection.
type Conn struct {
	Name   string
	lg     Logger
	laddr  net.Addr
	raddr  net.Addr
	peer   *Conn
	mu     *sync.Mutex // shared by both ends
	in     [][]byte    // segments waiting to be read at this end
	inEOF  bool        // peer closed
	inRST  bool        // peer reset
	closed bool
	rdl    time.Time
	wdl    time.Time
	wake   chan struct{}
	plan   map[opKey]Fault
	count  map[string]int
	// Sched: park at every Read/Write/Close so the scheduler orders them.
	Sched bool
	// ParkDeadline: park at SetDeadline too.
	ParkDeadline bool
	// Coalesce: a Read may return bytes of several segments.
	Coalesce bool
	// RecvCap > 0 bounds the bytes queued at this end; writers to it block.
	RecvCap int
	// Quiet suppresses per-operation log lines.
	Quiet bool

	// monitors
	Sent          []byte // bytes accepted by Write at this end
	Got           []byte // bytes returned by Read at this end
	CloseCalls    int
	ClosedAt      time.Time
	ReadCalls     int
	WriteCalls    int
	DeadlineCalls int
	// KeepData: record Sent/Got contents (default true)
	NoKeep   bool
	SentN    int
	GotN     int
	LastRead time.Time
	// WriteFailed counts Writes at this end that returned an error or a short count.
	WriteFailed int
	// DataWithErrFired counts reads that returned data together with an error.
	DataWithErrFired int
	// LastReadN is the byte count of the most recent Read that returned data.
	LastReadN int
	// WriteN records the accepted byte count of the first 16 Write calls.
	WriteN []int
	// linger: value of the last SetLinger call (lingerSet false = never called)
	linger    int
	lingerSet bool
	// Discarded counts bytes that Write at this end had accepted and that an abortive close
	// (SetLinger(0) + Close) threw away before the peer read them.
	Discarded int
	// FirstErrAt is the instant of the first operation at this end that
	// returned an error or a short count (zero = none yet).
	FirstErrAt time.Time
}

func (c *Conn) noteErr(err error) {
	if err != nil && c.FirstErrAt.IsZero() {
		c.FirstErrAt = time.Now()
	}
}

// FirstErr returns FirstErrAt under the lock.
func (c *Conn) FirstErr() time.Time {
	c.mu.Lock()
	defer c.mu.Unlock()
	return c.FirstErrAt
}

// PeerClosed reports whether the other end called Close.
func (c *Conn) PeerClosed() bool {
	c.mu.Lock()
	defer c.mu.Unlock()
	return c.peer.closed
}

// Pipe creates a connected pair.
func Pipe(lg Logger, nameA, nameB string, addrA, addrB net.Addr) (*Conn, *Conn) {
	mu := &sync.Mutex{}
	a := &Conn{Name: nameA, lg: lg, laddr: addrA, raddr: addrB, mu: mu, wake: make(chan struct{}), plan: map[opKey]Fault{}, count: map[string]int{}}
	b := &Conn{Name: nameB, lg: lg, laddr: addrB, raddr: addrA, mu: mu, wake: make(chan struct{}), plan: map[opKey]Fault{}, count: map[string]int{}}
	a.peer, b.peer = b, a
	return a, b
}

// PlanFault schedules f for the idx-th (0-based) op ("read","write","close","deadline") at this end.
func (c *Conn) PlanFault(op string, idx int, f Fault) {
	c.mu.Lock()
	c.plan[opKey{op, idx}] = f
	c.mu.Unlock()
}

func (c *Conn) signal() {
	close(c.wake)
	c.wake = make(chan struct{})
}

func (c *Conn) logf(format string, a ...any) {
	if c.lg != nil && !c.Quiet {
		c.lg.Logf(c.Name+" "+format, a...)
	}
}

// ErrName gives a short address-free description of an error for the event log.
func ErrName(err error) string {
	if err == nil {
		return "nil"
	}
	if err == io.EOF {
		return "EOF"
	}
	var en syscall.Errno
	if errors.As(err, &en) {
		return errnoName(en)
	}
	if errors.Is(err, net.ErrClosed) {
		return "closed"
	}
	if errors.Is(err, os.ErrDeadlineExceeded) {
		return "timeout"
	}
	var ne net.Error
	if errors.As(err, &ne) && ne.Timeout() {
		return "timeout"
	}
	if err == io.ErrShortWrite {
		return "shortwrite"
	}
	return fmt.Sprintf("%T", err)
}

func errnoName(e syscall.Errno) string {
	switch e {
	case syscall.ECONNRESET:
		return "ECONNRESET"
	case syscall.EPIPE:
		return "EPIPE"
	case syscall.ECONNABORTED:
		return "ECONNABORTED"
	case syscall.ECONNREFUSED:
		return "ECONNREFUSED"
	case syscall.EHOSTUNREACH:
		return "EHOSTUNREACH"
	case syscall.ENETUNREACH:
		return "ENETUNREACH"
	case syscall.EHOSTDOWN:
		return "EHOSTDOWN"
	case syscall.ENETDOWN:
		return "ENETDOWN"
	case syscall.ENOBUFS:
		return "ENOBUFS"
	case syscall.EIO:
		return "EIO"
	case syscall.EINVAL:
		return "EINVAL"
	case syscall.ENOTCONN:
		return "ENOTCONN"
	case syscall.ETIMEDOUT:
		return "ETIMEDOUT"
	case syscall.ENOTSUP:
		return "ENOTSUP"
	case syscall.ENOMEM:
		return "ENOMEM"
	case syscall.EMFILE:
		return "EMFILE"
	}
	return fmt.Sprintf("errno%d", int(e))
}

// OpErr builds the error the net package would return: OpError -> SyscallError -> Errno,
// whose text contains both endpoints.
func (c *Conn) OpErr(op string, e syscall.Errno) error {
	return &net.OpError{Op: op, Net: "tcp", Source: c.laddr, Addr: c.raddr, Err: os.NewSyscallError(op, e)}
}

// TimeoutErr is the deadline error of the net package.
func (c *Conn) TimeoutErr(op string) error {
	return &net.OpError{Op: op, Net: "tcp", Source: c.laddr, Addr: c.raddr, Err: os.ErrDeadlineExceeded}
}

// ClosedErr is the use-of-closed-connection error of the net package.
func (c *Conn) ClosedErr(op string) error {
	return &net.OpError{Op: op, Net: "tcp", Source: c.laddr, Addr: c.raddr, Err: net.ErrClosed}
}

func (c *Conn) readReadyLocked() bool {
	if c.closed || len(c.in) > 0 || c.inEOF || c.inRST {
		return true
	}
	if f, ok := c.plan[opKey{"read", c.count["read"]}]; ok && f.Kind == "err" {
		return true
	}
	if !c.rdl.IsZero() && !time.Now().Before(c.rdl) {
		return true
	}
	return false
}

func (c *Conn) writeReadyLocked() bool {
	if c.closed || c.peer.closed {
		return true
	}
	if _, ok := c.plan[opKey{"write", c.count["write"]}]; ok {
		return true
	}
	if !c.wdl.IsZero() && !time.Now().Before(c.wdl) {
		return true
	}
	if c.peer.RecvCap > 0 && c.peer.queuedLocked() >= c.peer.RecvCap {
		return false
	}
	return true
}

func (c *Conn) queuedLocked() int {
	n := 0
	for _, s := range c.in {
		n += len(s)
	}
	return n
}

// Queued returns the number of bytes waiting to be read at this end.
func (c *Conn) Queued() int {
	c.mu.Lock()
	defer c.mu.Unlock()
	return c.queuedLocked()
}

func (c *Conn) Read(p []byte) (int, error) {
	if c.Sched {
		hook.Park(&hook.Op{Kind: "read", Site: c.Name,
			Enabled:  func() bool { c.mu.Lock(); defer c.mu.Unlock(); return c.readReadyLocked() },
			Deadline: func() time.Time { c.mu.Lock(); defer c.mu.Unlock(); return c.rdl }})
	}
	for {
		c.mu.Lock()
		if c.readReadyLocked() || len(p) == 0 {
			n, err := c.readLocked(p)
			if n == 0 {
				// data returned together with an error is not yet the end of the
				// stream for the reader: it still has bytes to deliver
				c.noteErr(err)
			}
			c.mu.Unlock()
			return n, err
		}
		ch := c.wake
		dl := c.rdl
		c.mu.Unlock()
		if dl.IsZero() {
			<-ch
		} else {
			tm := time.NewTimer(time.Until(dl))
			select {
			case <-ch:
			case <-tm.C:
			}
			tm.Stop()
		}
	}
}

func (c *Conn) take(p []byte) int {
	n := 0
	for len(c.in) > 0 && n < len(p) {
		k := copy(p[n:], c.in[0])
		n += k
		if k == len(c.in[0]) {
			c.in = c.in[1:]
		} else {
			c.in[0] = c.in[0][k:]
		}
		if !c.Coalesce {
			break
		}
	}
	return n
}

func (c *Conn) readLocked(p []byte) (int, error) {
	idx := c.count["read"]
	c.count["read"] = idx + 1
	c.ReadCalls++
	if c.closed {
		c.logf("read#%d -> closed", idx)
		return 0, c.ClosedErr("read")
	}
	if f, ok := c.plan[opKey{"read", idx}]; ok {
		switch f.Kind {
		case "err":
			c.lg.Fault(f.Name)
			c.logf("read#%d -> FAULT %s", idx, f.Name)
			return 0, f.Err
		case "data+err":
			if len(c.in) > 0 {
				n := c.take(p)
				c.account(p[:n])
				c.lg.Fault(f.Name)
				c.DataWithErrFired++
				c.logf("read#%d -> n=%d FAULT %s", idx, n, f.Name)
				c.peer.signal()
				return n, f.Err
			}
			// no data to come with the error: the fault degenerates to a plain error
			if c.inEOF || c.inRST || (!c.rdl.IsZero() && !time.Now().Before(c.rdl)) {
				break
			}
			c.lg.Fault(f.Name + "(nodata)")
			c.logf("read#%d -> FAULT %s (no data)", idx, f.Name)
			return 0, f.Err
		}
	}
	if len(c.in) > 0 {
		n := c.take(p)
		c.account(p[:n])
		c.logf("read#%d -> n=%d", idx, n)
		c.peer.signal()
		return n, nil
	}
	if c.inRST {
		c.logf("read#%d -> ECONNRESET (peer reset)", idx)
		return 0, c.OpErr("read", syscall.ECONNRESET)
	}
	if c.inEOF {
		c.logf("read#%d -> EOF", idx)
		return 0, io.EOF
	}
	if !c.rdl.IsZero() && !time.Now().Before(c.rdl) {
		c.logf("read#%d -> timeout", idx)
		return 0, c.TimeoutErr("read")
	}
	// len(p)==0
	return 0, nil
}

func (c *Conn) account(b []byte) {
	c.GotN += len(b)
	c.LastReadN = len(b)
	c.LastRead = time.Now()
	if !c.NoKeep {
		c.Got = append(c.Got, b...)
	}
}

func (c *Conn) Write(p []byte) (int, error) {
	if c.Sched {
		hook.Park(&hook.Op{Kind: "write", Site: c.Name,
			Enabled:  func() bool { c.mu.Lock(); defer c.mu.Unlock(); return c.writeReadyLocked() },
			Deadline: func() time.Time { c.mu.Lock(); defer c.mu.Unlock(); return c.wdl }})
	}
	for {
		c.mu.Lock()
		if c.writeReadyLocked() {
			n, err := c.writeLocked(p)
			if err != nil || n < len(p) {
				c.WriteFailed++
				c.noteErr(io.ErrShortWrite)
			}
			if len(c.WriteN) < 16 {
				c.WriteN = append(c.WriteN, n)
			}
			c.mu.Unlock()
			return n, err
		}
		ch := c.wake
		dl := c.wdl
		c.mu.Unlock()
		if dl.IsZero() {
			<-ch
		} else {
			tm := time.NewTimer(time.Until(dl))
			select {
			case <-ch:
			case <-tm.C:
			}
			tm.Stop()
		}
	}
}

func (c *Conn) deliver(b []byte) {
	if len(b) == 0 {
		return
	}
	cp := append([]byte(nil), b...)
	c.SentN += len(cp)
	if !c.NoKeep {
		c.Sent = append(c.Sent, cp...)
	}
	if !c.peer.closed {
		c.peer.in = append(c.peer.in, cp)
	}
	c.peer.signal()
}

func (c *Conn) writeLocked(p []byte) (int, error) {
	idx := c.count["write"]
	c.count["write"] = idx + 1
	c.WriteCalls++
	if c.closed {
		c.logf("write#%d len=%d -> closed", idx, len(p))
		return 0, c.ClosedErr("write")
	}
	if f, ok := c.plan[opKey{"write", idx}]; ok {
		c.lg.Fault(f.Name)
		switch f.Kind {
		case "err":
			c.logf("write#%d len=%d -> FAULT %s", idx, len(p), f.Name)
			return 0, f.Err
		case "short":
			n := f.N
			if n < 0 {
				n = len(p) + n
				if n < 0 {
					n = 0
				}
			}
			if n > len(p) {
				n = len(p)
			}
			c.deliver(p[:n])
			c.logf("write#%d len=%d -> n=%d FAULT %s", idx, len(p), n, f.Name)
			return n, nil
		case "partial+err":
			n := f.N
			if n < 0 {
				n = len(p) + n
				if n < 0 {
					n = 0
				}
			}
			if n > len(p) {
				n = len(p)
			}
			c.deliver(p[:n])
			c.logf("write#%d len=%d -> n=%d FAULT %s", idx, len(p), n, f.Name)
			return n, f.Err
		}
	}
	if c.peer.closed {
		c.logf("write#%d len=%d -> EPIPE (peer closed)", idx, len(p))
		return 0, c.OpErr("write", syscall.EPIPE)
	}
	if !c.wdl.IsZero() && !time.Now().Before(c.wdl) {
		c.logf("write#%d len=%d -> timeout", idx, len(p))
		return 0, c.TimeoutErr("write")
	}
	c.deliver(p)
	c.logf("write#%d len=%d -> ok", idx, len(p))
	return len(p), nil
}

func (c *Conn) Close() error {
	if c.Sched {
		hook.Park(&hook.Op{Kind: "close", Site: c.Name})
	}
	c.mu.Lock()
	defer c.mu.Unlock()
	idx := c.count["close"]
	c.count["close"] = idx + 1
	c.CloseCalls++
	if c.closed {
		c.logf("close#%d -> already closed", idx)
		return c.ClosedErr("close")
	}
	c.closed = true
	c.ClosedAt = time.Now()
	if len(c.in) > 0 {
		// closing with unread data resets the peer, as TCP does
		c.peer.inRST = true
	} else {
		c.peer.inEOF = true
	}
	if c.lingerSet && c.linger == 0 && !c.peer.closed {
		// SO_LINGER with a zero timeout: the close is abortive, whatever this end has written and the
		// peer has not yet received is thrown away and the peer sees a reset. The simulated link has
		// no separate send queue, so "not yet received" is "not yet read by the peer" (worst case).
		n := c.peer.queuedLocked()
		if n > 0 {
			c.Discarded += n
			c.peer.in = nil
			c.logf("close#%d: abortive (linger 0): %d accepted bytes discarded", idx, n)
		}
		c.peer.inRST = true
	}
	c.in = nil
	c.signal()
	c.peer.signal()
	if f, ok := c.plan[opKey{"close", idx}]; ok {
		c.lg.Fault(f.Name)
		c.logf("close#%d -> FAULT %s", idx, f.Name)
		return f.Err
	}
	c.logf("close#%d -> ok", idx)
	return nil
}

// WriteTo mirrors (*net.TCPConn).WriteTo, which io.Copy prefers over a Read loop: the bytes are
// copied with plain Reads, and an error other than io.EOF is wrapped in a second *net.OpError with
// Op "writeto" around the read's own *net.OpError — both name the two endpoints.
func (c *Conn) WriteTo(w io.Writer) (int64, error) {
	var n int64
	buf := make([]byte, 32*1024)
	for {
		nr, er := c.Read(buf)
		if nr > 0 {
			nw, ew := w.Write(buf[:nr])
			n += int64(nw)
			if ew != nil {
				return n, &net.OpError{Op: "writeto", Net: "tcp", Source: c.laddr, Addr: c.raddr, Err: ew}
			}
		}
		if er == io.EOF {
			return n, nil
		}
		if er != nil {
			return n, &net.OpError{Op: "writeto", Net: "tcp", Source: c.laddr, Addr: c.raddr, Err: er}
		}
	}
}

// File mirrors (*net.TCPConn).File: a planned "file" fault makes it fail (dup(2) runs out of
// descriptors under load; the real error is an *net.OpError that names both endpoints); without a
// fault it hands out a descriptor of /dev/null (there is no socket behind a simulated connection).
func (c *Conn) File() (*os.File, error) {
	c.mu.Lock()
	idx := c.count["file"]
	c.count["file"] = idx + 1
	f, ok := c.plan[opKey{"file", idx}]
	c.mu.Unlock()
	if ok {
		c.lg.Fault(f.Name)
		c.logf("file#%d -> FAULT %s", idx, f.Name)
		return nil, f.Err
	}
	c.logf("file#%d -> /dev/null", idx)
	return os.Open(os.DevNull)
}

// SetLinger records SO_LINGER (see Close). It fails on a closed connection like the real call.
func (c *Conn) SetLinger(sec int) error {
	c.mu.Lock()
	defer c.mu.Unlock()
	if c.closed {
		return c.ClosedErr("set")
	}
	c.linger, c.lingerSet = sec, true
	return nil
}

// sockopt is the common body of the socket-option calls of *net.TCPConn: operation kind "sockopt"
// (fault plans index the calls in order), failing on a closed connection like the net package.
func (c *Conn) sockopt(what string) error {
	c.mu.Lock()
	idx := c.count["sockopt"]
	c.count["sockopt"] = idx + 1
	f, ok := c.plan[opKey{"sockopt", idx}]
	closed := c.closed
	c.mu.Unlock()
	if ok {
		c.lg.Fault(f.Name)
		c.logf("sockopt#%d %s -> FAULT %s", idx, what, f.Name)
		return f.Err
	}
	if closed {
		return c.ClosedErr("set")
	}
	c.logf("sockopt#%d %s", idx, what)
	return nil
}

func (c *Conn) SetKeepAlive(bool) error                { return c.sockopt("keepalive") }
func (c *Conn) SetKeepAlivePeriod(time.Duration) error { return c.sockopt("keepalive-period") }
func (c *Conn) SetNoDelay(bool) error                  { return c.sockopt("nodelay") }
func (c *Conn) SetReadBuffer(int) error                { return c.sockopt("rcvbuf") }
func (c *Conn) SetWriteBuffer(int) error               { return c.sockopt("sndbuf") }

// CloseRead shuts the read side down: further Reads of this end fail; nothing is sent to the peer.
func (c *Conn) CloseRead() error { return c.sockopt("shutdown-read") }

// CloseWrite half-closes (FIN) without closing the read side.
func (c *Conn) CloseWrite() error {
	c.mu.Lock()
	defer c.mu.Unlock()
	c.peer.inEOF = true
	c.peer.signal()
	c.logf("closewrite")
	return nil
}

// Reset makes the peer see ECONNRESET and closes this end (harness side).
func (c *Conn) Reset() {
	c.mu.Lock()
	defer c.mu.Unlock()
	c.closed = true
	c.ClosedAt = time.Now()
	c.peer.inRST = true
	c.in = nil
	c.signal()
	c.peer.signal()
	c.logf("reset")
}

// IsClosed reports whether Close was called at this end.
func (c *Conn) IsClosed() bool {
	c.mu.Lock()
	defer c.mu.Unlock()
	return c.closed
}

func (c *Conn) LocalAddr() net.Addr  { return c.laddr }
func (c *Conn) RemoteAddr() net.Addr { return c.raddr }

func (c *Conn) setDeadline(which string, t time.Time) error {
	if c.Sched && c.ParkDeadline {
		hook.Park(&hook.Op{Kind: "deadline", Site: c.Name})
	}
	c.mu.Lock()
	defer c.mu.Unlock()
	idx := c.count["deadline"]
	c.count["deadline"] = idx + 1
	c.DeadlineCalls++
	if f, ok := c.plan[opKey{"deadline", idx}]; ok {
		c.lg.Fault(f.Name)
		c.logf("deadline#%d -> FAULT %s", idx, f.Name)
		c.noteErr(f.Err)
		return f.Err
	}
	if c.closed {
		return c.ClosedErr("set")
	}
	if which != "w" {
		c.rdl = t
	}
	if which != "r" {
		c.wdl = t
	}
	c.signal()
	c.peer.signal()
	return nil
}

func (c *Conn) SetDeadline(t time.Time) error      { return c.setDeadline("rw", t) }
func (c *Conn) SetReadDeadline(t time.Time) error  { return c.setDeadline("r", t) }
func (c *Conn) SetWriteDeadline(t time.Time) error { return c.setDeadline("w", t) }

// Ops returns how many operations of a kind were performed at this end.
func (c *Conn) Ops(kind string) int {
	c.mu.Lock()
	defer c.mu.Unlock()
	return c.count[kind]
}

// TCP is a convenience constructor for addresses.
func TCP(ip string, port int) *net.TCPAddr {
	return &net.TCPAddr{IP: net.ParseIP(ip), Port: port}
}

var _ net.Conn = (*Conn)(nil)
