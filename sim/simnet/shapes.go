package simnet

import (
	"errors"
	"io"
	"net"
	"os"
	"syscall"
)

// Shape is a named way for an operation to go wrong.
type Shape struct {
	Name string
	Make func(c *Conn, op string) Fault
}

func errShape(name string, mk func(c *Conn, op string) error) Shape {
	return Shape{Name: name, Make: func(c *Conn, op string) Fault {
		return Fault{Kind: "err", Name: op + "/" + name, Err: mk(c, op)}
	}}
}

func errnoShape(e syscall.Errno) Shape {
	return errShape(errnoName(e), func(c *Conn, op string) error { return c.OpErr(op, e) })
}

// ErrBare is an error that no sanitiser knows.
var ErrBare = errors.New("simnet: unclassified failure")

// ReadShapes are the ways a Read can fail.
var ReadShapes = []Shape{
	errShape("EOF", func(c *Conn, op string) error { return io.EOF }),
	errnoShape(syscall.ECONNRESET),
	errnoShape(syscall.EPIPE),
	errShape("timeout", func(c *Conn, op string) error { return c.TimeoutErr(op) }),
	errnoShape(syscall.ECONNABORTED),
	errnoShape(syscall.EHOSTUNREACH),
	errnoShape(syscall.ENETUNREACH),
	errnoShape(syscall.EIO),
	errShape("bare", func(c *Conn, op string) error { return ErrBare }),
	errShape("closed", func(c *Conn, op string) error { return c.ClosedErr(op) }),
	errnoShape(syscall.ETIMEDOUT),
	{Name: "data+EOF", Make: func(c *Conn, op string) Fault { return Fault{Kind: "data+err", Name: "read/data+EOF", Err: io.EOF} }},
	{Name: "data+ECONNRESET", Make: func(c *Conn, op string) Fault {
		return Fault{Kind: "data+err", Name: "read/data+ECONNRESET", Err: c.OpErr("read", syscall.ECONNRESET)}
	}},
	{Name: "data+timeout", Make: func(c *Conn, op string) Fault {
		return Fault{Kind: "data+err", Name: "read/data+timeout", Err: c.TimeoutErr("read")}
	}},
}

// WriteShapes are the ways a Write can fail.
var WriteShapes = []Shape{
	errnoShape(syscall.EPIPE),
	errnoShape(syscall.ECONNRESET),
	errShape("timeout", func(c *Conn, op string) error { return c.TimeoutErr(op) }),
	errnoShape(syscall.ENOBUFS),
	errnoShape(syscall.EHOSTUNREACH),
	errnoShape(syscall.ETIMEDOUT),
	errShape("bare", func(c *Conn, op string) error { return ErrBare }),
	errShape("closed", func(c *Conn, op string) error { return c.ClosedErr(op) }),
	{Name: "short1", Make: func(c *Conn, op string) Fault { return Fault{Kind: "short", Name: "write/short1", N: 1} }},
	{Name: "short-1", Make: func(c *Conn, op string) Fault { return Fault{Kind: "short", Name: "write/short-1", N: -1} }},
	{Name: "short0", Make: func(c *Conn, op string) Fault { return Fault{Kind: "short", Name: "write/short0", N: 0} }},
	{Name: "partial+EPIPE", Make: func(c *Conn, op string) Fault {
		return Fault{Kind: "partial+err", Name: "write/partial+EPIPE", N: 1, Err: c.OpErr("write", syscall.EPIPE)}
	}},
	{Name: "partial+timeout", Make: func(c *Conn, op string) Fault {
		return Fault{Kind: "partial+err", Name: "write/partial+timeout", N: -1, Err: c.TimeoutErr("write")}
	}},
}

// CloseShapes are the ways a Close can fail.
var CloseShapes = []Shape{
	errnoShape(syscall.EIO),
	errnoShape(syscall.ECONNRESET),
	errShape("timeout", func(c *Conn, op string) error { return c.TimeoutErr(op) }),
	errShape("bare", func(c *Conn, op string) error { return ErrBare }),
}

// DeadlineShapes are the ways a SetDeadline can fail.
var DeadlineShapes = []Shape{
	errShape("ENOTSUP-bare", func(c *Conn, op string) error { return syscall.ENOTSUP }),
	errShape("closed", func(c *Conn, op string) error { return c.ClosedErr("set") }),
	errnoShape(syscall.EINVAL),
}

// DialShapes are the ways a dial can fail (c may be nil; addresses come from addr).
var DialShapes = []struct {
	Name string
	Make func(addr net.Addr) error
}{
	{"ECONNREFUSED", func(a net.Addr) error { return dialErr(a, syscall.ECONNREFUSED) }},
	{"EHOSTUNREACH", func(a net.Addr) error { return dialErr(a, syscall.EHOSTUNREACH) }},
	{"ENETUNREACH", func(a net.Addr) error { return dialErr(a, syscall.ENETUNREACH) }},
	{"ETIMEDOUT", func(a net.Addr) error { return dialErr(a, syscall.ETIMEDOUT) }},
	{"timeout", func(a net.Addr) error {
		return &net.OpError{Op: "dial", Net: "tcp", Addr: a, Err: timeoutError{}}
	}},
	{"ECONNRESET", func(a net.Addr) error { return dialErr(a, syscall.ECONNRESET) }},
	{"EMFILE", func(a net.Addr) error { return dialErr(a, syscall.EMFILE) }},
	{"bare", func(a net.Addr) error { return ErrBare }},
}

type timeoutError struct{}

func (timeoutError) Error() string   { return "i/o timeout" }
func (timeoutError) Timeout() bool   { return true }
func (timeoutError) Temporary() bool { return true }

func dialErr(a net.Addr, e syscall.Errno) error {
	return &net.OpError{Op: "dial", Net: "tcp", Addr: a, Err: os.NewSyscallError("connect", e)}
}

// FileShapes are the ways (*net.TCPConn).File can fail.
var FileShapes = []Shape{
	{Name: "EMFILE", Make: func(c *Conn, op string) Fault {
		return Fault{Kind: "err", Name: "file/EMFILE", Err: &net.OpError{Op: "file", Net: "tcp", Source: c.laddr, Addr: c.raddr, Err: os.NewSyscallError("dup", syscall.EMFILE)}}
	}},
	{Name: "ENFILE", Make: func(c *Conn, op string) Fault {
		return Fault{Kind: "err", Name: "file/ENFILE", Err: &net.OpError{Op: "file", Net: "tcp", Source: c.laddr, Addr: c.raddr, Err: os.NewSyscallError("dup", syscall.ENFILE)}}
	}},
	{Name: "closed", Make: func(c *Conn, op string) Fault {
		return Fault{Kind: "err", Name: "file/closed", Err: &net.OpError{Op: "file", Net: "tcp", Source: c.laddr, Addr: c.raddr, Err: net.ErrClosed}}
	}},
}

// SockoptShapes are the ways a socket-option call of *net.TCPConn (SetKeepAlive, SetNoDelay, ...) can
// fail on an accepted connection: the peer has reset it already, the descriptor is gone, the option
// is refused.
var SockoptShapes = []Shape{
	{Name: "EINVAL", Make: func(c *Conn, op string) Fault {
		return Fault{Kind: "err", Name: "sockopt/EINVAL", Err: &net.OpError{Op: "set", Net: "tcp", Source: c.laddr, Addr: c.raddr, Err: os.NewSyscallError("setsockopt", syscall.EINVAL)}}
	}},
	{Name: "ENOPROTOOPT", Make: func(c *Conn, op string) Fault {
		return Fault{Kind: "err", Name: "sockopt/ENOPROTOOPT", Err: &net.OpError{Op: "set", Net: "tcp", Source: c.laddr, Addr: c.raddr, Err: os.NewSyscallError("setsockopt", syscall.ENOPROTOOPT)}}
	}},
	{Name: "closed", Make: func(c *Conn, op string) Fault {
		return Fault{Kind: "err", Name: "sockopt/closed", Err: &net.OpError{Op: "set", Net: "tcp", Source: c.laddr, Addr: c.raddr, Err: net.ErrClosed}}
	}},
}
