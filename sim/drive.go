package sim

import (
	"testing/synctest"
	"time"

	"verif/sim/hook"
)

// DriveStatus says why the root loop stopped.
type DriveStatus int

const (
	// AllExited: every task has exited.
	AllExited DriveStatus = iota
	// Done: the caller's predicate became true.
	Done
	// Horizon: simulated time budget reached with nothing enabled (tasks are idle / blocked natively).
	Horizon
	// Deadlock: nothing enabled, nothing can be woken by time before the horizon, and at least one task waits for an emulated lock.
	Deadlock
	// StepLimit: step budget exhausted.
	StepLimit
	// Failed: an oracle failure was recorded.
	Failed
)

func (d DriveStatus) String() string {
	return [...]string{"all-exited", "done", "horizon", "deadlock", "step-limit", "failed"}[d]
}

// DriveOpt configures the root loop.
type DriveOpt struct {
	// Until is evaluated at every quiescent point; true stops the loop.
	Until func() bool
	// Each is called at every quiescent point (invariant checks).
	Each func()
	// MaxSteps bounds scheduling decisions (default 20000).
	MaxSteps int
	// Horizon bounds simulated time since the run started (default 24h).
	Horizon time.Duration
	// IdleStep bounds how far the clock may jump in one idle wait (default: to the horizon).
	IdleStep time.Duration
}

// Drive is the root loop of a run: wait for quiescence, let the tape pick one
// enabled parked task, release it; when nothing is enabled let simulated time
// pass until a task parks, a parked operation's deadline arrives, or the
// horizon is reached.
func Drive(r *Run, s *hook.Sched, o DriveOpt) DriveStatus {
	if o.MaxSteps == 0 {
		o.MaxSteps = 20000
	}
	if o.Horizon == 0 {
		o.Horizon = 24 * time.Hour
	}
	for steps := 0; ; steps++ {
		synctest.Wait()
		Tick()
		if r.Failed() {
			return Failed
		}
		if o.Each != nil {
			o.Each()
			if r.Failed() {
				return Failed
			}
		}
		if o.Until != nil && o.Until() {
			return Done
		}
		ps := s.Snapshot()
		if p, ok := s.Pick(ps); ok {
			if steps >= o.MaxSteps {
				return StepLimit
			}
			s.Release(p)
			continue
		}
		if s.Live() == 0 {
			return AllExited
		}
		remaining := o.Horizon - r.Elapsed()
		if remaining <= 0 {
			if s.LockWaiters() > 0 {
				return Deadlock
			}
			return Horizon
		}
		wait := remaining
		if o.IdleStep > 0 && o.IdleStep < wait {
			wait = o.IdleStep
		}
		now := time.Now()
		for _, p := range ps {
			if p.Op.Deadline != nil {
				if dl := p.Op.Deadline(); !dl.IsZero() {
					d := dl.Sub(now)
					if d < time.Nanosecond {
						d = time.Nanosecond
					}
					if d < wait {
						wait = d
					}
				}
			}
		}
		s.WaitWake(wait)
	}
}
