package sim

import "github.com/anishathalye/porcupine"

// Porcupine is re-exported so that the simulator module carries the
// dependency (harness files in the conjure packages import it through the
// workspace).
type LinModel = porcupine.Model
