package sim

import (
	"fmt"
	"hash/fnv"
	"sort"
	"strings"
	"sync"
	"time"
	"verif/sim/hook"
)

// Violation is an oracle failure.
type Violation struct {
	Sig string `json:"sig"`
	Msg string `json:"msg"`
}

// Run is the context of one simulated execution.
type Run struct {
	Prop string
	Seed uint64
	Tape *Tape

	mu          sync.Mutex
	log         []string
	logHash     uint64
	freeRunning bool
	nlog        int
	Faults      map[string]int
	Probes      map[string]int
	viol        *Violation
	KnownHit    map[string]int
	known       func(sig string) (string, bool)
	cover       uint64
	nontriv     bool
	start       time.Time
	SimTime     time.Duration
	Params      map[string]any
	Replay      bool
	ended       bool
	reseed      func(uint64)
	lastEl      time.Duration
	leakOver    *string
}

// SetLeakSig overrides, for this run, the signature reported when goroutines of
// the bubble remain blocked after the scenario ("" = treat as harness error). A
// world uses it when a leak is the known consequence of a finding it already
// judged under a more specific signature.
func (r *Run) SetLeakSig(sig string) {
	r.mu.Lock()
	r.leakOver = &sig
	r.mu.Unlock()
}

func (r *Run) leakSig(def string) string {
	r.mu.Lock()
	defer r.mu.Unlock()
	if r.leakOver != nil {
		return *r.leakOver
	}
	return def
}

// Reseed re-initialises crypto/rand and math/rand to the state they had at the
// start of the run (plus salt), so that a scenario can execute a twin world
// that makes the same random draws.
func (r *Run) Reseed(salt uint64) {
	if r.reseed != nil {
		r.reseed(r.Seed + salt)
	}
}

// Epoch is the instant at which every bubble's clock starts.
var Epoch = time.Date(2000, 1, 1, 0, 0, 0, 0, time.UTC)

func newRun(prop string, seed uint64, tape *Tape, known func(string) (string, bool)) *Run {
	return &Run{Prop: prop, Seed: seed, Tape: tape, Faults: map[string]int{}, Probes: map[string]int{},
		KnownHit: map[string]int{}, known: known, logHash: 14695981039346656037, cover: 14695981039346656037,
		Params: map[string]any{}}
}

const maxLogLines = 400

// Logf appends one line to the event log. It never draws from the tape and
// reads only the bubble clock.
func (r *Run) Logf(format string, a ...any) {
	if hook.AbortedTask() {
		return
	}
	line := fmt.Sprintf(format, a...)
	r.mu.Lock()
	defer r.mu.Unlock()
	el := time.Duration(0)
	if r.ended {
		el = r.SimTime
	} else if !r.start.IsZero() {
		el = time.Since(r.start)
		r.lastEl = el
	}
	line = fmt.Sprintf("t=%-12v %s", el, line)
	if !r.freeRunning {
		for i := 0; i < len(line); i++ {
			r.logHash = (r.logHash ^ uint64(line[i])) * 1099511628211
		}
		r.logHash = (r.logHash ^ 0xa) * 1099511628211
	}
	r.nlog++
	if len(r.log) < maxLogLines {
		r.log = append(r.log, line)
	} else if len(r.log) == maxLogLines {
		r.log = append(r.log, "... (log truncated; hash covers all lines)")
	}
}

// Fail records an oracle failure. It returns true when the run must stop (an
// unlisted violation); a violation listed in known_findings is counted and the
// run goes on.
func (r *Run) Fail(sig, format string, a ...any) bool {
	msg := fmt.Sprintf(format, a...)
	r.mu.Lock()
	if r.known != nil {
		if k, ok := r.known(sig); ok {
			r.KnownHit[k]++
			r.mu.Unlock()
			r.Logf("KNOWN %s: %s", sig, msg)
			return false
		}
	}
	if r.viol == nil {
		r.viol = &Violation{Sig: sig, Msg: msg}
	}
	r.mu.Unlock()
	r.Logf("VIOLATION %s: %s", sig, msg)
	return true
}

// Failed reports whether an unlisted violation has been recorded.
func (r *Run) Failed() bool {
	r.mu.Lock()
	defer r.mu.Unlock()
	return r.viol != nil
}

// Violation returns the recorded violation or nil.
func (r *Run) Violation() *Violation {
	r.mu.Lock()
	defer r.mu.Unlock()
	return r.viol
}

// Fault counts one injected fault that actually fired.
func (r *Run) Fault(kind string) {
	r.mu.Lock()
	r.Faults[kind]++
	r.mu.Unlock()
}

// Probe counts one occurrence of a named rare condition.
func (r *Run) Probe(name string) {
	r.mu.Lock()
	r.Probes[name]++
	r.mu.Unlock()
}

// Cover folds strings into the run's coverage signature.
func (r *Run) Cover(parts ...string) {
	r.mu.Lock()
	for _, p := range parts {
		for i := 0; i < len(p); i++ {
			r.cover = (r.cover ^ uint64(p[i])) * 1099511628211
		}
		r.cover = (r.cover ^ 0xff) * 1099511628211
	}
	r.mu.Unlock()
}

// CoverU folds an integer into the coverage signature.
func (r *Run) CoverU(v uint64) {
	r.mu.Lock()
	for i := 0; i < 8; i++ {
		r.cover = (r.cover ^ (v & 0xff)) * 1099511628211
		v >>= 8
	}
	r.mu.Unlock()
}

// Nontrivial marks that the run reached the property's decision point.
func (r *Run) Nontrivial() {
	r.mu.Lock()
	r.nontriv = true
	r.mu.Unlock()
}

// Log returns a copy of the event log.
func (r *Run) Log() []string {
	r.mu.Lock()
	defer r.mu.Unlock()
	return append([]string(nil), r.log...)
}

// LogHash returns the hash over all log lines.
func (r *Run) LogHash() uint64 {
	r.mu.Lock()
	defer r.mu.Unlock()
	return r.logHash
}

// FreeRunning declares that from here on the run contains goroutines of third-party code whose
// interleaving the simulator does not decide (they run freely between quiescent points, and the Go
// scheduler's time-slice preemption is driven by the real clock). Event-log lines are still
// recorded, but the log hash — the "exactly the same execution" criterion of replay and of the
// determinism self-test — covers only the lines written before this call (the run's parameters).
func (r *Run) FreeRunning() {
	r.mu.Lock()
	r.freeRunning = true
	r.mu.Unlock()
}

// IsFreeRunning reports whether FreeRunning was called.
func (r *Run) IsFreeRunning() bool {
	r.mu.Lock()
	defer r.mu.Unlock()
	return r.freeRunning
}

// StartClock records the bubble start so log lines carry simulated time.
func (r *Run) StartClock() { r.start = time.Now() }

// Elapsed returns simulated time since StartClock.
func (r *Run) Elapsed() time.Duration {
	if r.start.IsZero() {
		return 0
	}
	return time.Since(r.start)
}

func hashStr(s string) uint64 {
	h := fnv.New64a()
	h.Write([]byte(s))
	return h.Sum64()
}

func sortedKeys(m map[string]int) []string {
	ks := make([]string, 0, len(m))
	for k := range m {
		ks = append(ks, k)
	}
	sort.Strings(ks)
	return ks
}

// Hex renders at most n bytes.
func Hex(b []byte, n int) string {
	var sb strings.Builder
	for i, c := range b {
		if i >= n {
			fmt.Fprintf(&sb, "..(+%d)", len(b)-n)
			break
		}
		fmt.Fprintf(&sb, "%02x", c)
	}
	return sb.String()
}
