// Package sim is the kernel of the deterministic simulator: choice tape,
// per-run context (event log, probes, fault counters, oracle failures),
// the exploration / replay / minimisation driver and the result files the
// check orchestrator consumes.
package sim

import (
	"fmt"
	"encoding/binary"
)

// Draw is one recorded choice.
type Draw struct {
	L string `json:"l"`
	N int    `json:"n"`
	V int    `json:"v"`
}

// Tape is the single source of every choice of a run. In generate mode the
// values come from a PRNG seeded with the run seed (optionally preceded by a
// forced prefix, used for systematic enumeration); in replay mode they come
// from a recorded list. A draw past the end of the list, or one whose bound
// differs from the recorded one, yields 0, which is by construction the
// simplest alternative (no fault, first task, no delay, smallest size).
type Tape struct {
	state  uint64
	forced []int
	fpos   int
	replay []Draw
	isRep  bool
	pos    int
	Rec    []Draw
	// zeroRest: after the forced prefix every draw is 0 (systematic enumeration)
	zeroRest bool
	// flabels: the label of the draw each forced value is meant for. A forced value that is about
	// to be consumed by a draw with another label means that the scenario's draw order no longer
	// matches its enumeration table: the mismatch is recorded (the driver turns it into a harness
	// failure) instead of silently enumerating something else.
	flabels  []string
	Mismatch string
}

// ExpectLabels declares which draw (by label) each value of the forced prefix is meant for.
func (t *Tape) ExpectLabels(l []string) *Tape { t.flabels = l; return t }

// ForcedUsed is the number of forced values that draws have consumed.
func (t *Tape) ForcedUsed() int { return t.fpos }

// NewEnumTape returns a tape that serves the forced prefix and then zeros; the
// driver's depth-first enumeration increments the last incrementable draw.
func NewEnumTape(forced []int) *Tape {
	return &Tape{forced: forced, zeroRest: true}
}

func splitmix(x *uint64) uint64 {
	*x += 0x9e3779b97f4a7c15
	z := *x
	z = (z ^ (z >> 30)) * 0xbf58476d1ce4e5b9
	z = (z ^ (z >> 27)) * 0x94d049bb133111eb
	return z ^ (z >> 31)
}

// Mix derives a run seed from the base seed, a property tag and a run index.
func Mix(base uint64, tag string, idx uint64) uint64 {
	x := base
	for i := 0; i < len(tag); i++ {
		x = (x ^ uint64(tag[i])) * 1099511628211
	}
	x ^= idx * 0x9e3779b97f4a7c15
	splitmix(&x)
	return splitmix(&x)
}

// NewGenTape returns a generating tape.
func NewGenTape(seed uint64, forced []int) *Tape {
	return &Tape{state: seed, forced: forced}
}

// NewReplayTape returns a replaying tape.
func NewReplayTape(draws []Draw) *Tape {
	return &Tape{replay: draws, isRep: true}
}

// Choose returns a value in [0,n).
func (t *Tape) Choose(label string, n int) int {
	if n <= 0 {
		n = 1
	}
	v := 0
	if t.isRep {
		if t.pos < len(t.replay) {
			d := t.replay[t.pos]
			if d.N == n && d.V < n && d.V >= 0 {
				v = d.V
			} else if d.V >= 0 && d.V < n && d.L == label {
				v = d.V
			}
		}
		t.pos++
	} else if t.fpos < len(t.forced) {
		if t.fpos < len(t.flabels) && t.flabels[t.fpos] != label && t.Mismatch == "" {
			t.Mismatch = fmt.Sprintf("forced value #%d (%d) is meant for the draw %q but the scenario's draw #%d is %q", t.fpos, t.forced[t.fpos], t.flabels[t.fpos], len(t.Rec), label)
		}
		if t.forced[t.fpos] >= n && t.Mismatch == "" && t.flabels != nil {
			t.Mismatch = fmt.Sprintf("forced value #%d (%d) is out of range for the draw %q (bound %d)", t.fpos, t.forced[t.fpos], label, n)
		}
		v = t.forced[t.fpos] % n
		if v < 0 {
			v = 0
		}
		t.fpos++
	} else if n > 1 && !t.zeroRest {
		v = int(splitmix(&t.state) % uint64(n))
	}
	t.Rec = append(t.Rec, Draw{label, n, v})
	return v
}

// Bool is Choose(label,2)==1.
func (t *Tape) Bool(label string) bool { return t.Choose(label, 2) == 1 }

// Prob is true with probability num/den; the value 0 means false.
func (t *Tape) Prob(label string, num, den int) bool {
	return t.Choose(label, den) >= den-num
}

// Range returns a value in [lo,hi].
func (t *Tape) Range(label string, lo, hi int) int {
	if hi < lo {
		hi = lo
	}
	return lo + t.Choose(label, hi-lo+1)
}

// Bytes returns n pseudo-random bytes determined by one draw.
func (t *Tape) Bytes(label string, n int) []byte {
	s := uint64(t.Choose(label, 1<<30))
	out := make([]byte, n)
	if s == 0 {
		// the simplest byte string: a counting pattern (not all-zero, so that
		// position-dependent bugs still show after shrinking)
		for i := range out {
			out[i] = byte(i)
		}
		return out
	}
	var b [8]byte
	for i := 0; i < n; i += 8 {
		binary.LittleEndian.PutUint64(b[:], splitmix(&s))
		copy(out[i:], b[:])
	}
	return out
}

// U64 returns a 60-bit value from two draws.
func (t *Tape) U64(label string) uint64 {
	a := uint64(t.Choose(label, 1<<30))
	b := uint64(t.Choose(label, 1<<30))
	return a<<30 | b
}

// Len is the number of draws so far.
func (t *Tape) Len() int { return len(t.Rec) }
