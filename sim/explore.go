package sim

import (
	"bufio"
	"encoding/binary"
	"encoding/json"
	"fmt"
	"math/rand"
	"os"
	"runtime"
	"runtime/debug"
	"sort"
	"strconv"
	"strings"
	"sync/atomic"
	"testing"
	"testing/cryptotest"
	"testing/synctest"
	"time"
)

// Config describes one property's world to the driver.
type Config struct {
	Prop string
	// Scenario runs as the root goroutine of a fresh synctest bubble. It must
	// tear its world down before returning (every goroutine it started, or the
	// system started, must be able to exit).
	Scenario func(r *Run)
	// Systematic part: EnumN forced tape prefixes (may be nil).
	EnumN  func(tier string) int
	EnumAt func(tier string, i int) []int
	// EnumLabels names the draw each value of EnumAt(tier, i) is meant for (required with EnumAt):
	// the driver fails the check (harness trouble, exit 2) when a forced value would go to a draw
	// with another label or is not consumed at all.
	EnumLabels func(tier string, i int) []string
	// ExhaustLabels does the same for the root prefixes of ExhaustRoots (required with it).
	ExhaustLabels func(tier string, ri int) []string
	// Random part: default number of runs per tier (overridden by VERIF_RUNS).
	Runs map[string]int
	// Systematic schedule enumeration: for each root prefix (scenario selector
	// draws) the driver enumerates depth-first every continuation of the tape
	// (all draws after the root are enumerated, so such scenarios must draw
	// only what is to be enumerated, typically scheduling choices under a
	// preemption bound). ExhaustMax caps the leaves per root.
	ExhaustRoots func(tier string) [][]int
	ExhaustMax   map[string]int
	// LeakSig: violation signature used when goroutines of the bubble are still
	// blocked after the scenario returned. Empty = that is a harness error.
	LeakSig string
	// NoBubble runs the scenario outside synctest (worlds with real processes / files only).
	NoBubble bool
	Real     []string
	Stub     []string
	Rule     string
	Assume   []string
	// CryptoSeed: seed crypto/rand per run (default true unless NoCrypto).
	NoCrypto bool
}

// ViolationReport is a minimised, replay-confirmed violation.
type ViolationReport struct {
	Sig        string   `json:"sig"`
	Msg        string   `json:"msg"`
	RunSeed    uint64   `json:"run_seed"`
	RunIndex   int      `json:"run_index"`
	Enum       bool     `json:"enum"`
	Tape       []Draw   `json:"tape"`
	Trace      []string `json:"trace"`
	LogHash    string   `json:"log_hash"`
	OrigDraws  int      `json:"orig_draws"`
	MinDraws   int      `json:"min_draws"`
	Candidates int      `json:"minimise_candidates"`
	Confirmed  bool     `json:"replay_confirmed"`
	// where in the shard's run sequence the violation was found (history replay: a run whose
	// outcome depends on state that earlier runs left in the process)
	Ordinal     int    `json:"ordinal"`
	OrigLogHash string `json:"orig_log_hash"`
}

// Sample is one explored case written out for the evidence file.
type Sample struct {
	RunSeed uint64   `json:"run_seed"`
	Enum    bool     `json:"enum"`
	Draws   int      `json:"draws"`
	Trace   []string `json:"trace"`
}

// Result is what one shard process writes for the orchestrator.
type Result struct {
	Prop         string            `json:"property"`
	Tier         string            `json:"tier"`
	BaseSeed     uint64            `json:"base_seed"`
	Shard        int               `json:"shard"`
	NShards      int               `json:"nshards"`
	Runs         int               `json:"runs"`
	EnumRuns     int               `json:"enum_runs"`
	EnumTotal    int               `json:"enum_total"`
	EnumComplete bool              `json:"enum_complete"`
	RandomRuns   int               `json:"random_runs"`
	Nontrivial   int               `json:"nontrivial_runs"`
	DistinctFile string            `json:"distinct_file"`
	Distinct     int               `json:"distinct_in_shard"`
	Faults       map[string]int    `json:"faults"`
	Probes       map[string]int    `json:"probes"`
	SimTimeS     float64           `json:"sim_time_s"`
	WallS        float64           `json:"wall_s"`
	Steps        int64             `json:"steps"`
	Known        map[string]int    `json:"known"`
	Violations   []ViolationReport `json:"violations"`
	Samples      []Sample          `json:"samples"`
	Errors       []string          `json:"harness_errors"`
	Real         []string          `json:"real"`
	Stub         []string          `json:"stub"`
	Rule         string            `json:"rule"`
	Assume       []string          `json:"assumptions"`
	FirstSeed    uint64            `json:"first_run_seed"`
	LastSeed     uint64            `json:"last_run_seed"`
	Replay       *ReplayResult     `json:"replay,omitempty"`
	Budgeted     bool              `json:"stopped_by_budget"`
	ExhaustRuns  int               `json:"exhaust_runs"`
	ExhaustRoots int               `json:"exhaust_roots"`
	ExhaustDone  int               `json:"exhaust_roots_completed"`
}

// ReplayResult reports a replay.
type ReplayResult struct {
	WantSig    string `json:"want_sig"`
	GotSig     string `json:"got_sig"`
	WantHash   string `json:"want_log_hash"`
	GotHash    string `json:"got_log_hash"`
	Reproduced bool   `json:"reproduced"`
	Msg        string `json:"msg"`
}

// ReplayFile is the on-disk replay format.
type ReplayFile struct {
	Prop    string   `json:"property"`
	Sig     string   `json:"signature"`
	Msg     string   `json:"message"`
	RunSeed uint64   `json:"run_seed"`
	Tape    []Draw   `json:"tape"`
	LogHash string   `json:"log_hash"`
	Trace   []string `json:"trace"`
	Note    string   `json:"note,omitempty"`
	// Mode "history": the run is replayed as the Ordinal-th run of its shard's sequence
	Mode    string `json:"mode,omitempty"`
	Ordinal int    `json:"ordinal,omitempty"`
}

var progress atomic.Int64

// Tick is called by worlds at every root step; the real-time watchdog looks at it.
func Tick() { progress.Add(1) }

func startWatchdog(limit time.Duration) {
	go func() {
		last := progress.Load()
		lastChange := time.Now()
		for {
			time.Sleep(2 * time.Second)
			cur := progress.Load()
			if cur != last {
				last = cur
				lastChange = time.Now()
				continue
			}
			if time.Since(lastChange) > limit {
				buf := make([]byte, 1<<20)
				n := runtime.Stack(buf, true)
				fmt.Fprintf(os.Stderr, "VERIF-WATCHDOG: no simulator progress for %v; goroutine dump:\n%s\n", limit, buf[:n])
				os.Exit(2)
			}
		}
	}()
}

func loadKnown(path, prop string) func(string) (string, bool) {
	var prefixes []string
	if path != "" {
		if f, err := os.Open(path); err == nil {
			sc := bufio.NewScanner(f)
			for sc.Scan() {
				line := strings.TrimSpace(sc.Text())
				if !strings.HasPrefix(line, "known:") {
					continue
				}
				fs := strings.Fields(line)
				p, sig := "", ""
				for _, f := range fs {
					if strings.HasPrefix(f, "property=") {
						p = strings.TrimPrefix(f, "property=")
					}
					if strings.HasPrefix(f, "sig=") {
						sig = strings.TrimPrefix(f, "sig=")
					}
				}
				if p == prop && sig != "" {
					prefixes = append(prefixes, sig)
				}
			}
			f.Close()
		}
	}
	return func(sig string) (string, bool) {
		for _, p := range prefixes {
			if sig == p || (strings.HasSuffix(p, "*") && strings.HasPrefix(sig, strings.TrimSuffix(p, "*"))) {
				return p, true
			}
		}
		return "", false
	}
}

type driver struct {
	t     *testing.T
	cfg   *Config
	known func(string) (string, bool)
	errs  []string
}

// runOnce executes the scenario once under the given tape.
func (d *driver) runOnce(seed uint64, tape *Tape, replay bool) *Run {
	r := newRun(d.cfg.Prop, seed, tape, d.known)
	r.Replay = replay
	Tick()
	r.reseed = func(sd uint64) {
		if !d.cfg.NoCrypto {
			cryptotest.SetGlobalRandom(d.t, sd)
		}
		rand.Seed(int64(sd & 0x7fffffffffffffff))
	}
	r.reseed(seed)
	body := func() {
		defer func() {
			if p := recover(); p != nil {
				if _, ok := p.(stopRun); ok {
					return
				}
				r.Fail("harness/root-panic", "%v\n%s", p, debug.Stack())
			}
		}()
		r.StartClock()
		defer func() {
			r.SimTime = r.Elapsed()
			r.mu.Lock()
			r.ended = true
			r.mu.Unlock()
		}()
		d.cfg.Scenario(r)
	}
	if d.cfg.NoBubble {
		body()
		return r
	}
	func() {
		defer func() {
			if p := recover(); p != nil {
				msg := fmt.Sprint(p)
				r.mu.Lock()
				if !r.ended {
					// the bubble ended without the scenario returning (all goroutines blocked)
					r.ended = true
					r.SimTime = r.lastEl
				}
				r.mu.Unlock()
				if strings.Contains(msg, "deadlock") || strings.Contains(msg, "blocked goroutines") {
					if os.Getenv("VERIF_DEBUG_LEAK") != "" {
						buf := make([]byte, 1<<20)
						n := runtime.Stack(buf, true)
						fmt.Fprintf(os.Stderr, "LEAK DUMP:\n%s\n", buf[:n])
					}
					if sig := r.leakSig(d.cfg.LeakSig); sig != "" {
						r.Fail(sig, "goroutines of the bubble are still blocked after the scenario ended: %s", msg)
					} else {
						r.Fail("harness/bubble-leak", "%s", msg)
					}
					return
				}
				r.Fail("harness/bubble-panic", "%s", msg)
			}
		}()
		synctest.Test(d.t, func(t *testing.T) { body() })
	}()
	return r
}

// checkPrefix: every value of a forced prefix must have gone to the draw it was meant for.
func (d *driver) checkPrefix(r *Run, labels []string, nforced int, what string) {
	switch {
	case labels == nil || len(labels) < nforced:
		var got []string
		for i := 0; i < nforced && i < len(r.Tape.Rec); i++ {
			got = append(got, fmt.Sprintf("%s=%d/%d", r.Tape.Rec[i].L, r.Tape.Rec[i].V, r.Tape.Rec[i].N))
		}
		r.Fail("harness/enum-prefix", "%s: the world declares no draw labels for its forced prefix (%d values, %d labels); the draws that consumed it: %v", what, nforced, len(labels), got)
	case r.Tape.Mismatch != "":
		r.Fail("harness/enum-prefix", "%s: %s", what, r.Tape.Mismatch)
	case r.Tape.ForcedUsed() < nforced && r.Violation() == nil:
		r.Fail("harness/enum-prefix", "%s: only %d of %d forced values were drawn", what, r.Tape.ForcedUsed(), nforced)
	}
}

type stopRun struct{}

// Stop aborts the scenario from the root goroutine (deferred teardown still runs).
func Stop() { panic(stopRun{}) }

func (d *driver) minimise(seed uint64, draws []Draw, sig string) ([]Draw, int) {
	cur := append([]Draw(nil), draws...)
	cands := 0
	deadline := time.Now().Add(45 * time.Second)
	try := func(c []Draw) ([]Draw, bool) {
		if cands >= 600 || time.Now().After(deadline) {
			return nil, false
		}
		cands++
		r := d.runOnce(seed, NewReplayTape(c), true)
		v := r.Violation()
		if v != nil && v.Sig == sig {
			return append([]Draw(nil), r.Tape.Rec...), true
		}
		return nil, false
	}
	// normalise: replay of the full tape must fail the same way
	if rec, ok := try(cur); ok {
		cur = rec
	} else {
		return cur, cands
	}
	for pass := 0; pass < 4; pass++ {
		changed := false
		// delete chunks
		for chunk := len(cur) / 2; chunk >= 1; chunk /= 2 {
			for i := 0; i+chunk <= len(cur); {
				c := append(append([]Draw(nil), cur[:i]...), cur[i+chunk:]...)
				if rec, ok := try(c); ok && len(rec) < len(cur) {
					cur = rec
					changed = true
				} else {
					i += chunk
				}
			}
		}
		// lower values
		for i := 0; i < len(cur); i++ {
			if cur[i].V == 0 {
				continue
			}
			for _, nv := range []int{0, cur[i].V / 2, cur[i].V - 1} {
				if nv >= cur[i].V || nv < 0 {
					continue
				}
				c := append([]Draw(nil), cur...)
				c[i].V = nv
				if rec, ok := try(c); ok {
					cur = rec
					changed = true
					break
				}
			}
			if i >= len(cur) {
				break
			}
		}
		if !changed {
			break
		}
	}
	return cur, cands
}

// EnvSeed returns the base seed of this invocation (VERIF_SEED).
func EnvSeed() uint64 {
	v, _ := strconv.ParseUint(os.Getenv("VERIF_SEED"), 10, 64)
	return v
}

func envInt(name string, def int) int {
	if v := os.Getenv(name); v != "" {
		if n, err := strconv.Atoi(v); err == nil {
			return n
		}
	}
	return def
}

// Main is called from a Test function of the package under test.
func Main(t *testing.T, cfg Config) {
	want := os.Getenv("VERIF_PROP")
	if want == "" {
		t.Skip("VERIF_PROP not set: simulator checks are driven by /verif/bin/check")
	}
	if want != cfg.Prop {
		t.Skip("other property")
	}
	d := &driver{t: t, cfg: &cfg}
	d.known = loadKnown(os.Getenv("VERIF_KNOWN"), cfg.Prop)
	tier := os.Getenv("VERIF_TIER")
	if tier == "" {
		tier = "quick"
	}
	base, _ := strconv.ParseUint(os.Getenv("VERIF_SEED"), 10, 64)
	shard, nshards := 0, 1
	if s := os.Getenv("VERIF_SHARD"); s != "" {
		fmt.Sscanf(s, "%d/%d", &shard, &nshards)
	}
	out := os.Getenv("VERIF_OUT")
	startWatchdog(time.Duration(envInt("VERIF_WATCHDOG_S", 120)) * time.Second)
	res := &Result{Prop: cfg.Prop, Tier: tier, BaseSeed: base, Shard: shard, NShards: nshards,
		Faults: map[string]int{}, Probes: map[string]int{}, Known: map[string]int{},
		Real: cfg.Real, Stub: cfg.Stub, Rule: cfg.Rule, Assume: cfg.Assume}
	wall := time.Now()
	defer func() {
		res.WallS = time.Since(wall).Seconds()
		res.Errors = d.errs
		if out != "" {
			b, _ := json.MarshalIndent(res, "", " ")
			if err := os.WriteFile(out, b, 0o644); err != nil {
				t.Fatalf("write result: %v", err)
			}
		}
	}()

	if rp := os.Getenv("VERIF_REPLAY"); rp != "" {
		d.replay(rp, res)
		return
	}

	// history replay: re-execute this shard's run sequence up to and including the recorded run
	var hist *ReplayFile
	if hp := os.Getenv("VERIF_REPLAY_HISTORY"); hp != "" {
		b, err := os.ReadFile(hp)
		if err == nil {
			hist = &ReplayFile{}
			err = json.Unmarshal(b, hist)
		}
		if err != nil {
			d.errs = append(d.errs, "history replay file: "+err.Error())
			return
		}
		res.Replay = &ReplayResult{WantSig: hist.Sig, WantHash: hist.LogHash}
	}
	budget := time.Duration(envInt("VERIF_BUDGET_S", 0)) * time.Second
	distinct := map[uint64]struct{}{}
	var selflog *os.File
	if p := os.Getenv("VERIF_SELFTEST_LOG"); p != "" {
		selflog, _ = os.Create(p)
		defer selflog.Close()
	}
	account := func(r *Run, enum bool, idx int) bool {
		res.Runs++
		if enum {
			res.EnumRuns++
		} else {
			res.RandomRuns++
		}
		if res.Runs == 1 {
			res.FirstSeed = r.Seed
		}
		res.LastSeed = r.Seed
		for k, v := range r.Faults {
			res.Faults[k] += v
		}
		for k, v := range r.Probes {
			res.Probes[k] += v
		}
		for k, v := range r.KnownHit {
			res.Known[k] += v
		}
		res.SimTimeS += r.SimTime.Seconds()
		if selflog != nil {
			if r.IsFreeRunning() {
				// third-party goroutines ran freely: neither the event log nor the number of
				// scheduling draws is a function of the seed alone (see Run.FreeRunning)
				fmt.Fprintf(selflog, "%v %d %d %016x free-running\n", enum, idx, r.Seed, r.LogHash())
			} else {
				fmt.Fprintf(selflog, "%v %d %d %016x %d\n", enum, idx, r.Seed, r.LogHash(), len(r.Tape.Rec))
			}
			if di := os.Getenv("VERIF_DUMP_INDEX"); di != "" && !enum && (di == strconv.Itoa(idx) || di == "all") {
				// debugging aid for a determinism failure: the full event log of one run / all runs
				if f, err := os.OpenFile(os.Getenv("VERIF_SELFTEST_LOG")+".dump", os.O_CREATE|os.O_APPEND|os.O_WRONLY, 0o644); err == nil {
					fmt.Fprintf(f, "#### run %d\n%s\n", idx, strings.Join(r.Log(), "\n"))
					f.Close()
				}
			}
		}
		if r.nontriv {
			res.Nontrivial++
			distinct[r.cover] = struct{}{}
			if len(res.Samples) < 3 && (res.Nontrivial == 1 || res.Nontrivial == 7 || res.Nontrivial == 31) {
				lg := r.Log()
				if len(lg) > 40 {
					lg = append(lg[:40], "...")
				}
				res.Samples = append(res.Samples, Sample{RunSeed: r.Seed, Enum: enum, Draws: len(r.Tape.Rec), Trace: lg})
			}
		}
		v := r.Violation()
		if v == nil {
			return true
		}
		if strings.HasPrefix(v.Sig, "harness/") {
			d.errs = append(d.errs, fmt.Sprintf("run seed %d: %s: %s", r.Seed, v.Sig, v.Msg))
			return false
		}
		if hist != nil {
			// history replay: the first violation of the re-executed run sequence is the answer
			res.Replay = &ReplayResult{WantSig: hist.Sig, GotSig: v.Sig, WantHash: hist.LogHash, GotHash: fmt.Sprintf("%016x", r.LogHash()), Msg: v.Msg}
			res.Replay.Reproduced = v.Sig == hist.Sig && r.Seed == hist.RunSeed && res.Runs == hist.Ordinal && res.Replay.GotHash == hist.LogHash
			for _, l := range r.Log() {
				fmt.Println(l)
			}
			return false
		}
		// minimise and confirm
		orig := append([]Draw(nil), r.Tape.Rec...)
		min, cands := d.minimise(r.Seed, orig, v.Sig)
		r1 := d.runOnce(r.Seed, NewReplayTape(min), true)
		r2 := d.runOnce(r.Seed, NewReplayTape(min), true)
		v1, v2 := r1.Violation(), r2.Violation()
		rep := ViolationReport{Sig: v.Sig, Msg: v.Msg, RunSeed: r.Seed, RunIndex: idx, Enum: enum, Tape: min,
			OrigDraws: len(orig), MinDraws: len(min), Candidates: cands, Ordinal: res.Runs, OrigLogHash: fmt.Sprintf("%016x", r.LogHash())}
		if v1 != nil && v2 != nil && v1.Sig == v.Sig && v2.Sig == v.Sig {
			rep.Confirmed = r1.LogHash() == r2.LogHash()
			rep.Msg = v1.Msg
			rep.Trace = r1.Log()
			rep.LogHash = fmt.Sprintf("%016x", r1.LogHash())
			if !rep.Confirmed {
				d.errs = append(d.errs, fmt.Sprintf("run seed %d: replays of the minimised tape give the same violation %s but different event logs (%016x vs %016x)", r.Seed, v.Sig, r1.LogHash(), r2.LogHash()))
			}
		} else {
			// the minimised tape does not reproduce: fall back to the original tape
			r3 := d.runOnce(r.Seed, NewReplayTape(orig), true)
			if v3 := r3.Violation(); v3 != nil && v3.Sig == v.Sig {
				rep.Tape = orig
				rep.MinDraws = len(orig)
				rep.Trace = r3.Log()
				rep.LogHash = fmt.Sprintf("%016x", r3.LogHash())
				rep.Confirmed = true
			} else {
				rep.Trace = r.Log()
				d.errs = append(d.errs, fmt.Sprintf("run seed %d: violation %s did not reproduce on replay of its own tape", r.Seed, v.Sig))
			}
		}
		res.Violations = append(res.Violations, rep)
		return false
	}

	over := func() bool {
		if hist != nil {
			// no budget: the sequence is re-executed up to its first violation (at the recorded ordinal
			// if the run sequence alone determines the outcome; later runs are still looked at for
			// the replay-by-signature case, see bin/check)
			return false
		}
		if budget > 0 && time.Since(wall) > budget {
			res.Budgeted = true
			return true
		}
		return false
	}

	// The exploration is a resumable sequence of single runs (enumerated cases, then depth-first
	// schedule/history enumeration, then random runs) executed in batches, each batch inside its
	// own sub-test: testing.T accumulates clean-ups (cryptotest.SetGlobalRandom, synctest.Test)
	// per run, and millions of runs on one T exhaust memory.
	noEnum := os.Getenv("VERIF_NOENUM") != ""
	phase := 0
	enumN, enumI, enumDone := 0, shard, true
	if cfg.EnumN != nil && !noEnum {
		enumN = cfg.EnumN(tier)
		res.EnumTotal = enumN
	}
	var roots [][]int
	if cfg.ExhaustRoots != nil && !noEnum {
		roots = cfg.ExhaustRoots(tier)
		if shard == 0 {
			res.ExhaustRoots = len(roots)
		}
	}
	maxLeaves := cfg.ExhaustMax[tier]
	if maxLeaves == 0 {
		maxLeaves = 20000
	}
	ri, leaves := -1, 0
	var prefix []int
	randN := envInt("VERIF_RUNS", cfg.Runs[tier])
	randI := shard
	nextRoot := func() bool {
		for ri++; ri < len(roots); ri++ {
			if ri%nshards == shard {
				prefix = append([]int(nil), roots[ri]...)
				leaves = 0
				return true
			}
		}
		return false
	}
	// work performs one run; false = nothing left or exploration must stop
	work := func() bool {
		for {
			switch phase {
			case 0: // enumerated cases
				if enumI >= enumN {
					res.EnumComplete = enumDone && enumN > 0
					phase = 1
					if !nextRoot() {
						phase = 2
					}
					continue
				}
				if over() {
					enumDone = false
					res.EnumComplete = false
					return false
				}
				i := enumI
				enumI += nshards
				seed := Mix(base, cfg.Prop+"/enum", uint64(i))
				forced := cfg.EnumAt(tier, i)
				var labels []string
				if cfg.EnumLabels != nil {
					labels = cfg.EnumLabels(tier, i)
				}
				r := d.runOnce(seed, NewGenTape(seed, forced).ExpectLabels(labels), false)
				d.checkPrefix(r, labels, len(forced), fmt.Sprintf("enumerated case %d", i))
				if !account(r, true, i) {
					res.EnumComplete = false
					return false
				}
				return true
			case 1: // depth-first enumeration below the current root
				if over() {
					return false
				}
				if leaves >= maxLeaves {
					if !nextRoot() {
						phase = 2
					}
					continue
				}
				root := roots[ri]
				seed := Mix(base, cfg.Prop+"/exhaust", uint64(ri))
				var labels []string
				if cfg.ExhaustLabels != nil {
					labels = cfg.ExhaustLabels(tier, ri)
				}
				r := d.runOnce(seed, NewEnumTape(prefix).ExpectLabels(labels), false)
				d.checkPrefix(r, labels, len(root), fmt.Sprintf("schedule enumeration root %d", ri))
				leaves++
				res.ExhaustRuns++
				if !account(r, true, ri) {
					return false
				}
				rec := r.Tape.Rec
				i := len(rec) - 1
				for ; i >= len(root); i-- {
					if rec[i].V+1 < rec[i].N {
						break
					}
				}
				if i < len(root) {
					res.ExhaustDone++
					if !nextRoot() {
						phase = 2
					}
					return true
				}
				prefix = prefix[:0]
				for j := 0; j < i; j++ {
					prefix = append(prefix, rec[j].V)
				}
				prefix = append(prefix, rec[i].V+1)
				return true
			default: // random runs
				if randI >= randN || over() {
					return false
				}
				i := randI
				randI += nshards
				seed := Mix(base, cfg.Prop, uint64(i))
				r := d.runOnce(seed, NewGenTape(seed, nil), false)
				return account(r, false, i)
			}
		}
	}
	const batch = 20000
	for more := true; more; {
		t.Run("batch", func(st *testing.T) {
			d.t = st
			for k := 0; k < batch && more; k++ {
				more = work()
			}
		})
		d.t = t
		runtime.GC()
	}
	res.Distinct = len(distinct)
	if out != "" {
		hs := make([]uint64, 0, len(distinct))
		for h := range distinct {
			hs = append(hs, h)
		}
		sort.Slice(hs, func(i, j int) bool { return hs[i] < hs[j] })
		buf := make([]byte, 8*len(hs))
		for i, h := range hs {
			binary.LittleEndian.PutUint64(buf[8*i:], h)
		}
		res.DistinctFile = out + ".distinct"
		os.WriteFile(res.DistinctFile, buf, 0o644)
	}
}

func (d *driver) replay(path string, res *Result) {
	b, err := os.ReadFile(path)
	if err != nil {
		d.errs = append(d.errs, "replay file: "+err.Error())
		return
	}
	var rf ReplayFile
	if err := json.Unmarshal(b, &rf); err != nil {
		d.errs = append(d.errs, "replay file: "+err.Error())
		return
	}
	// a replay must show the recorded violation itself even if it is a listed
	// finding, while other listed findings that fired earlier in the same run
	// are passed over exactly as in the original run
	k := d.known
	d.known = func(sig string) (string, bool) {
		if sig == rf.Sig || k == nil {
			return "", false
		}
		return k(sig)
	}
	r := d.runOnce(rf.RunSeed, NewReplayTape(rf.Tape), true)
	rr := &ReplayResult{WantSig: rf.Sig, WantHash: rf.LogHash, GotHash: fmt.Sprintf("%016x", r.LogHash())}
	if v := r.Violation(); v != nil {
		rr.GotSig = v.Sig
		rr.Msg = v.Msg
	}
	rr.Reproduced = rr.GotSig == rr.WantSig && (rf.LogHash == "" || rr.GotHash == rr.WantHash)
	res.Replay = rr
	res.Runs = 1
	for _, l := range r.Log() {
		fmt.Println(l)
	}
}
