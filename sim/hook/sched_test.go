//go:debug asynctimerchan=0
package hook

import (
	"math/rand"
	"sync"
	"testing"
	"testing/synctest"
	"time"
)

type rndCh struct{ r *rand.Rand }

func (c rndCh) Choose(l string, n int) int { return c.r.Intn(n) }

type spikeS struct {
	m sync.RWMutex
}

func TestSpike(t *testing.T) {
	dead := 0
	start := time.Now()
	const N = 300
	for seed := 0; seed < N; seed++ {
		func() {
			defer func() {
				if r := recover(); r != nil {
					t.Logf("recovered: %v", r)
				}
			}()
			synctest.Test(t, func(t *testing.T) {
				s := Install(rndCh{rand.New(rand.NewSource(int64(seed)))})
				s.LockYield = true
				defer s.Uninstall()
				var x spikeS
				s.Spawn("req", func() {
					RLock("a", &x.m)
					defer RUnlock("a", &x.m)
					RLock("b", &x.m)
					defer RUnlock("b", &x.m)
				})
				s.Spawn("reload", func() {
					Lock("c", &x.m)
					Unlock("c", &x.m)
				})
				for {
					synctest.Wait()
					ps := s.Snapshot()
					if s.Live() == 0 {
						break
					}
					p, ok := s.Pick(ps)
					if !ok {
						if s.WaitWake(time.Hour) {
							continue
						}
						if s.LockWaiters() > 0 {
							dead++
							if dead == 1 {
								t.Logf("seed %d deadlock: %s", seed, s.WaitForGraph())
							}
						}
						s.Abort()
						break
					}
					s.Release(p)
				}
			})
		}()
	}
	t.Logf("deadlocks %d of %d in %v", dead, N, time.Since(start))
	if dead == 0 {
		t.Fatal("expected some deadlocks")
	}
}

func TestSelectPeek(t *testing.T) {
	if !selfTestChanPeek() {
		t.Fatal("channel header layout differs from the one selectpick.go assumes")
	}
	if !SelfTestBlockedPeers(func() { time.Sleep(50 * time.Millisecond) }) {
		t.Fatal("recvq / sendq are not where selectpick.go expects them")
	}
	// a timer-fed channel is reported as unknown
	tm := time.NewTimer(time.Hour)
	defer tm.Stop()
	if R(tm.C).state() != selUnknown {
		t.Fatal("timer channel not recognised")
	}
}
