package hook

import (
	"os"
	"io"
	"net"
	"net/http"
	"sync/atomic"
	"time"
)

// Network seams. Instrumented code calls these instead of the net / http
// functions of the same name (seamgen rule R-net). Unset = the original.

type netSeams struct {
	Dial          func(network, addr string) (net.Conn, error)
	DialTimeout   func(network, addr string, d time.Duration) (net.Conn, error)
	ResolveIPAddr func(network, addr string) (*net.IPAddr, error)
	HTTPPost      func(url, contentType string, body io.Reader) (*http.Response, error)
}

// LookupIP / LookupHost go through the ResolveIPAddr seam when one is installed
// (one scripted lookup per call), so code that resolves names by another
// entry point of package net is still answered by the simulated resolver.
func LookupIP(host string) ([]net.IP, error) {
	if s := seams.Load(); s != nil && s.ResolveIPAddr != nil {
		a, err := s.ResolveIPAddr("ip", host)
		if err != nil {
			return nil, err
		}
		if a == nil || a.IP == nil {
			return nil, &net.DNSError{Err: "no such host", Name: host, IsNotFound: true}
		}
		return []net.IP{a.IP}, nil
	}
	return net.LookupIP(host)
}

func LookupHost(host string) ([]string, error) {
	if s := seams.Load(); s != nil && s.ResolveIPAddr != nil {
		ips, err := LookupIP(host)
		if err != nil {
			return nil, err
		}
		out := make([]string, len(ips))
		for i, ip := range ips {
			out[i] = ip.String()
		}
		return out, nil
	}
	return net.LookupHost(host)
}

var seams atomic.Pointer[netSeams]

// SetNetSeams installs the simulator's implementations (nil fields = original).
func SetNetSeams(dial func(network, addr string) (net.Conn, error),
	resolve func(network, addr string) (*net.IPAddr, error),
	post func(url, contentType string, body io.Reader) (*http.Response, error)) {
	s := &netSeams{Dial: dial, ResolveIPAddr: resolve, HTTPPost: post}
	if dial != nil {
		s.DialTimeout = func(network, addr string, d time.Duration) (net.Conn, error) { return dial(network, addr) }
	}
	seams.Store(s)
}

// ClearNetSeams restores the originals.
func ClearNetSeams() { seams.Store(nil) }

func Dial(network, addr string) (net.Conn, error) {
	if s := seams.Load(); s != nil && s.Dial != nil {
		return s.Dial(network, addr)
	}
	return net.Dial(network, addr)
}

func DialTimeout(network, addr string, d time.Duration) (net.Conn, error) {
	if s := seams.Load(); s != nil && s.DialTimeout != nil {
		return s.DialTimeout(network, addr, d)
	}
	return net.DialTimeout(network, addr, d)
}

func ResolveIPAddr(network, addr string) (*net.IPAddr, error) {
	if s := seams.Load(); s != nil && s.ResolveIPAddr != nil {
		return s.ResolveIPAddr(network, addr)
	}
	return net.ResolveIPAddr(network, addr)
}

func HTTPPost(url, contentType string, body io.Reader) (*http.Response, error) {
	if s := seams.Load(); s != nil && s.HTTPPost != nil {
		return s.HTTPPost(url, contentType, body)
	}
	return http.Post(url, contentType, body)
}

// TCPLike is what code that type-asserts a connection to *net.TCPConn goes on to use. *net.TCPConn
// implements it, and so do simulated connections (seamgen rule tcpconn).
type TCPLike interface {
	net.Conn
	SetLinger(sec int) error
	File() (*os.File, error)
	// the other TCP-specific calls of *net.TCPConn (socket options, half-close): code under test
	// that starts using one of them still compiles against the seam, and simulated connections can
	// fail them like a socket does
	SetKeepAlive(keepalive bool) error
	SetKeepAlivePeriod(d time.Duration) error
	SetNoDelay(noDelay bool) error
	SetReadBuffer(bytes int) error
	SetWriteBuffer(bytes int) error
	CloseRead() error
	CloseWrite() error
}

// AsTCPConn replaces `c.(*net.TCPConn)` in rewritten sources.
func AsTCPConn(c net.Conn) (TCPLike, bool) {
	t, ok := c.(TCPLike)
	return t, ok
}

// Touch does nothing; rewritten call sites that need no other hook call it so that the hook
// import of the rewritten file is used.
func Touch() {}
