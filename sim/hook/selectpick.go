package hook

// Deterministic select.
//
// When more than one case of a select statement is ready the Go runtime picks
// one with its own per-thread random state, which no seed controls. seamgen
// therefore rewrites
//
//	select { case <-a: A; case v := <-b: B }
//
// into
//
//	switch verifhook.SelectPick(site, verifhook.R(a), verifhook.R(b)) {
//	case 0: select { case <-a: A }
//	case 1: select { case v := <-b: B }
//	default: select { case <-a: A; case v := <-b: B }
//	}
//
// SelectPick looks at the channels WITHOUT consuming anything and, when two or
// more cases are ready, lets the choice tape decide; with fewer ready cases it
// returns -1 and the original statement runs (zero or one ready case: the
// runtime has nothing to choose). Readiness is read from the runtime's channel
// header (hchan); the layout is the one of the pinned toolchain and is verified
// by selfTestChanPeek before first use — if the self-test fails SelectPick
// always answers -1 and counts it in SelectPeekBroken, it never guesses.
//
// Channels fed by timers (time.After, Timer.C, Ticker.C) are not peeked: their
// buffered state is maintained lazily by the runtime. A select with such a case
// is left to the runtime whenever the timer case could matter (see pick).

import (
	"fmt"
	"reflect"
	"sort"
	"sync"
	"sync/atomic"
	"unsafe"
)

// SelCase is one communication clause of a rewritten select.
type SelCase struct {
	ch   unsafe.Pointer
	send bool
	ok   bool // a channel value was supplied
}

func chanPtr(ch any) (unsafe.Pointer, bool) {
	if ch == nil {
		return nil, false
	}
	v := reflect.ValueOf(ch)
	if v.Kind() != reflect.Chan {
		return nil, false
	}
	return v.UnsafePointer(), true
}

// R describes a receive clause on ch.
func R(ch any) SelCase { p, ok := chanPtr(ch); return SelCase{ch: p, ok: ok} }

// S describes a send clause on ch.
func S(ch any) SelCase { p, ok := chanPtr(ch); return SelCase{ch: p, send: true, ok: ok} }

// hchanHdr mirrors the head of runtime.hchan of go1.26 (runtime/chan.go).
type hchanHdr struct {
	qcount   uint
	dataqsiz uint
	buf      unsafe.Pointer
	elemsize uint16
	closed   uint32
	timer    unsafe.Pointer
	elemtype unsafe.Pointer
	sendx    uint
	recvx    uint
	recvq    struct{ first, last unsafe.Pointer }
	sendq    struct{ first, last unsafe.Pointer }
}

const (
	selNotReady = iota
	selReady
	selUnknown // timer channel
)

func (c SelCase) state() int {
	if !c.ok || c.ch == nil {
		return selNotReady // nil channel: never ready
	}
	h := (*hchanHdr)(c.ch)
	if h.timer != nil {
		return selUnknown
	}
	if atomic.LoadUint32(&h.closed) != 0 {
		return selReady // receive yields the zero value, send panics: either way the case is chosen
	}
	if c.send {
		if h.qcount < h.dataqsiz || h.recvq.first != nil {
			return selReady
		}
		return selNotReady
	}
	if h.qcount > 0 || h.sendq.first != nil {
		return selReady
	}
	return selNotReady
}

var (
	peekOnce sync.Once
	peekOK   bool
	// SelectPeekBroken counts SelectPick calls answered -1 because the channel-header self-test failed.
	SelectPeekBroken atomic.Int64
	// SelectTies counts decisions taken by the tape (two or more ready cases).
	SelectTies atomic.Int64
)

// selfTestChanPeek checks the assumed header layout against channels in known states.
func selfTestChanPeek() bool {
	st := func(c SelCase) int { return c.state() }
	// unbuffered, idle
	u := make(chan int)
	if st(R(u)) != selNotReady || st(S(u)) != selNotReady {
		return false
	}
	// buffered: empty, partly filled, full
	b := make(chan int, 2)
	if st(R(b)) != selNotReady || st(S(b)) != selReady {
		return false
	}
	b <- 1
	if st(R(b)) != selReady || st(S(b)) != selReady {
		return false
	}
	b <- 2
	if st(R(b)) != selReady || st(S(b)) != selNotReady {
		return false
	}
	<-b
	<-b
	if st(R(b)) != selNotReady {
		return false
	}
	// closed
	c := make(chan struct{})
	close(c)
	if st(R(c)) != selReady {
		return false
	}
	// nil
	var n chan int
	if st(R(n)) != selNotReady || st(S(n)) != selNotReady {
		return false
	}
	// directional views share the header
	var ro <-chan int = b
	b <- 7
	if st(R(ro)) != selReady {
		return false
	}
	<-b
	// struct-typed element (different elemsize) and the header fields around it
	type big struct{ a, b, c [5]uint64 }
	g := make(chan big, 1)
	if (*hchanHdr)(R(g).ch).elemsize != uint16(unsafe.Sizeof(big{})) || (*hchanHdr)(R(g).ch).dataqsiz != 1 {
		return false
	}
	return true
}

// SelfTestBlockedPeers checks the two header fields that need a blocked peer
// goroutine (recvq / sendq). It must be called outside a synctest bubble or
// from a bubble that may block; the unit test of this package calls it.
func SelfTestBlockedPeers(waitBlocked func()) bool {
	u := make(chan int)
	done := make(chan struct{})
	go func() { u <- 1; close(done) }()
	waitBlocked()
	if R(u).state() != selReady || S(u).state() != selNotReady {
		return false
	}
	<-u
	<-done
	done = make(chan struct{})
	go func() { <-u; close(done) }()
	waitBlocked()
	if S(u).state() != selReady || R(u).state() != selNotReady {
		return false
	}
	u <- 1
	<-done
	return true
}

// SelectPick returns the index of the clause the rewritten select must take, or
// -1 to run the original statement.
func SelectPick(site string, cases ...SelCase) int {
	s, g := active()
	if s == nil {
		return -1
	}
	s.mu.Lock()
	t := s.tasks[g]
	s.mu.Unlock()
	if t == nil || t.anon {
		return -1 // not a goroutine whose interleaving the simulator decides
	}
	peekOnce.Do(func() { peekOK = selfTestChanPeek() })
	if !peekOK {
		SelectPeekBroken.Add(1)
		return -1
	}
	var ready []int
	for i, c := range cases {
		switch c.state() {
		case selReady:
			ready = append(ready, i)
		case selUnknown:
			// a timer-fed channel: its readiness cannot be read without running the timer; the
			// runtime decides this select
			return -1
		}
	}
	if len(ready) < 2 {
		return -1
	}
	SelectTies.Add(1)
	return ready[s.ch.Choose("select@"+site, len(ready))]
}

// MapKeys returns the keys of m in the order a rewritten `for k, v := range m`
// visits them. Go starts a map iteration at a position chosen by the runtime's
// own random state, which no seed controls; with a scheduler installed the
// order is the sorted order, rotated by a draw from the choice tape when the
// caller is a task whose interleaving the simulator decides (the order can then
// matter to another task). Without a scheduler: the native order.
func MapKeys[K comparable, V any](site string, m map[K]V) []K {
	keys := make([]K, 0, len(m))
	for k := range m {
		keys = append(keys, k)
	}
	s := cur.Load()
	if len(keys) < 2 {
		return keys
	}
	if s == nil {
		// a world without a scheduler may still put map order under the tape
		if mo := mapOrder.Load(); mo != nil {
			sort.Slice(keys, func(i, j int) bool { return fmt.Sprint(keys[i]) < fmt.Sprint(keys[j]) })
			r := (*mo).Choose("maporder@"+site, len(keys))
			return append(keys[r:], keys[:r]...)
		}
		return keys
	}
	sort.Slice(keys, func(i, j int) bool { return fmt.Sprint(keys[i]) < fmt.Sprint(keys[j]) })
	if s.aborting.Load() {
		return keys
	}
	g := curGID()
	if g == s.rootGID {
		return keys
	}
	s.mu.Lock()
	t := s.tasks[g]
	s.mu.Unlock()
	if t == nil || t.anon {
		return keys
	}
	r := s.ch.Choose("maporder@"+site, len(keys))
	return append(keys[r:], keys[:r]...)
}

var mapOrder atomic.Pointer[Chooser]

// SetMapOrder lets a world that runs without a scheduler (single goroutine) decide the iteration
// order of the rewritten map loops from its tape; nil restores the native order.
func SetMapOrder(ch Chooser) {
	if ch == nil {
		mapOrder.Store(nil)
		return
	}
	mapOrder.Store(&ch)
}

// Pair is one entry of a map snapshot (see MapPairs).
type Pair[K comparable, V any] struct {
	K K
	V V
}

// MapPairs is MapKeys for loops whose range operand is a call (evaluated once): the entries of the
// returned map in MapKeys order.
func MapPairs[K comparable, V any](site string, m map[K]V) []Pair[K, V] {
	keys := MapKeys(site, m)
	out := make([]Pair[K, V], 0, len(keys))
	for _, k := range keys {
		out = append(out, Pair[K, V]{k, m[k]})
	}
	return out
}
