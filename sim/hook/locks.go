package hook

import (
	"fmt"
	"reflect"
	"runtime"
	"sort"
	"strings"
	"sync"
	"unsafe"
)

// Emulated sync.Mutex / sync.RWMutex.
//
// The scheduler decides who gets a lock; a task that cannot get it is parked
// (durably blocked for synctest) instead of blocking inside the runtime, so the
// root always knows the wait-for graph and tasks can be descheduled while
// holding locks. sync.RWMutex's writer preference is reproduced: once a Lock()
// call is pending, later RLock() calls wait (this is what makes a recursive
// read lock deadlock), and when a writer unlocks, the readers that were
// waiting at that moment are admitted before any other writer.
//
// The native mutex is taken as well (with TryLock, which must succeed), so code
// that is not instrumented and pass-through hooks during teardown stay
// consistent with the emulation.

type lockState struct {
	id      uintptr
	site    string
	rw      bool
	mu      *sync.Mutex
	rwmu    *sync.RWMutex
	writer  *Task
	wheld   bool
	readers map[*Task]int
	nread   int
	pendW   map[*Task]bool
	waitR   map[*Task]bool
	granted map[*Task]bool
}

func (l *lockState) holders() string {
	var hs []string
	if l.wheld {
		n := "?"
		if l.writer != nil {
			n = l.writer.Name
		}
		hs = append(hs, "W:"+n)
	}
	for t, c := range l.readers {
		if c > 0 {
			hs = append(hs, fmt.Sprintf("R%d:%s", c, t.Name))
		}
	}
	for t := range l.pendW {
		hs = append(hs, "pendingW:"+t.Name)
	}
	sort.Strings(hs)
	return strings.Join(hs, ",")
}

// acquirable is called by the root for a task parked in a *wait* op.
func (l *lockState) acquirable(t *Task, kind string) bool {
	switch kind {
	case "lock-wait":
		return !l.wheld && l.nread == 0
	case "rlock-wait":
		return l.granted[t]
	}
	return true // pre-lock yield points are always enabled
}

// acquire is called by the root when it releases a task from a wait op.
func (l *lockState) acquire(t *Task, kind string) {
	switch kind {
	case "lock-wait":
		delete(l.pendW, t)
		l.wheld = true
		l.writer = t
		l.nativeLock()
	case "rlock-wait":
		// the read lock was granted (and counted) when the writer unlocked
		delete(l.granted, t)
	}
}

func (l *lockState) nativeLock() {
	ok := false
	if l.rw {
		ok = l.rwmu.TryLock()
	} else {
		ok = l.mu.TryLock()
	}
	if !ok {
		panic("verifhook: native lock " + l.site + " is held outside the emulation")
	}
}

func (l *lockState) nativeRLock() {
	if !l.rwmu.TryRLock() {
		panic("verifhook: native rlock " + l.site + " is held outside the emulation")
	}
}

type resolved struct {
	id   uintptr
	mu   *sync.Mutex
	rwmu *sync.RWMutex
}

var (
	mutexType   = reflect.TypeOf(sync.Mutex{})
	rwmutexType = reflect.TypeOf(sync.RWMutex{})
	pathCache   sync.Map // reflect.Type -> []int (field index path) or nil
)

// findPath returns the field path from struct type t to an embedded
// sync.Mutex / sync.RWMutex (value or pointer), breadth first.
func findPath(t reflect.Type) ([]int, bool) {
	if v, ok := pathCache.Load(t); ok {
		p := v.([]int)
		return p, p != nil
	}
	type item struct {
		t    reflect.Type
		path []int
	}
	queue := []item{{t, nil}}
	for len(queue) > 0 {
		it := queue[0]
		queue = queue[1:]
		tt := it.t
		for tt.Kind() == reflect.Ptr {
			tt = tt.Elem()
		}
		if tt == mutexType || tt == rwmutexType {
			pathCache.Store(t, it.path)
			return it.path, true
		}
		if tt.Kind() != reflect.Struct || len(it.path) > 6 {
			continue
		}
		for i := 0; i < tt.NumField(); i++ {
			f := tt.Field(i)
			if !f.Anonymous {
				continue
			}
			queue = append(queue, item{f.Type, append(append([]int(nil), it.path...), i)})
		}
	}
	pathCache.Store(t, []int(nil))
	return nil, false
}

// resolve finds the innermost sync.Mutex/RWMutex behind x (a pointer to a
// mutex, to a pointer to a mutex, or to a struct that embeds one).
func resolve(x any) resolved {
	switch m := x.(type) {
	case *sync.Mutex:
		return resolved{id: uintptr(unsafe.Pointer(m)), mu: m}
	case *sync.RWMutex:
		return resolved{id: uintptr(unsafe.Pointer(m)), rwmu: m}
	case **sync.Mutex:
		return resolved{id: uintptr(unsafe.Pointer(*m)), mu: *m}
	case **sync.RWMutex:
		return resolved{id: uintptr(unsafe.Pointer(*m)), rwmu: *m}
	}
	v := reflect.ValueOf(x)
	for v.Kind() == reflect.Ptr || v.Kind() == reflect.Interface {
		if v.IsNil() {
			panic("verifhook: nil lock reference")
		}
		if v.Kind() == reflect.Ptr && (v.Type().Elem() == mutexType || v.Type().Elem() == rwmutexType) {
			break
		}
		if v.Kind() == reflect.Ptr && v.Type().Elem().Kind() == reflect.Struct {
			break
		}
		v = v.Elem()
	}
	if v.Kind() != reflect.Ptr {
		panic(fmt.Sprintf("verifhook: cannot resolve lock in %T", x))
	}
	if v.Type().Elem() == mutexType {
		p := (*sync.Mutex)(v.UnsafePointer())
		return resolved{id: uintptr(unsafe.Pointer(p)), mu: p}
	}
	if v.Type().Elem() == rwmutexType {
		p := (*sync.RWMutex)(v.UnsafePointer())
		return resolved{id: uintptr(unsafe.Pointer(p)), rwmu: p}
	}
	path, ok := findPath(v.Type().Elem())
	if !ok {
		panic(fmt.Sprintf("verifhook: no embedded mutex in %T", x))
	}
	cur := v.Elem()
	for _, i := range path {
		for cur.Kind() == reflect.Ptr {
			cur = cur.Elem()
		}
		cur = cur.Field(i)
	}
	for cur.Kind() == reflect.Ptr {
		cur = cur.Elem()
	}
	if !cur.CanAddr() {
		panic(fmt.Sprintf("verifhook: embedded mutex of %T not addressable", x))
	}
	ptr := cur.Addr().UnsafePointer()
	if cur.Type() == mutexType {
		return resolved{id: uintptr(ptr), mu: (*sync.Mutex)(ptr)}
	}
	return resolved{id: uintptr(ptr), rwmu: (*sync.RWMutex)(ptr)}
}

func (s *Sched) lockFor(r resolved, site string) *lockState {
	s.mu.Lock()
	defer s.mu.Unlock()
	l := s.locks[r.id]
	if l == nil {
		// stable per-run name: site of first use + ordinal
		k := s.lockSites[site]
		s.lockSites[site] = k + 1
		l = &lockState{id: r.id, site: fmt.Sprintf("%s#%d", site, k), rw: r.rwmu != nil, mu: r.mu, rwmu: r.rwmu,
			readers: map[*Task]int{}, pendW: map[*Task]bool{}, waitR: map[*Task]bool{}, granted: map[*Task]bool{}}
		s.locks[r.id] = l
	}
	return l
}

// Lock replaces X.Lock() in instrumented code (x = &X).
func Lock(site string, x any) {
	r := resolve(x)
	s, g := active()
	if s == nil {
		if s2 := cur.Load(); s2 != nil && s2.aborting.Load() && curGID() != s2.rootGID {
			// teardown: a lock that some task left held (natively too) will never be released; a
			// goroutine that blocks on it natively is not "durably blocked" and would keep the
			// bubble from ever becoming quiescent. It cannot go on anyway: it leaves.
			ok := false
			if r.mu != nil {
				ok = r.mu.TryLock()
			} else {
				ok = r.rwmu.TryLock()
			}
			if !ok {
				runtime.Goexit()
			}
			return
		}
		if r.mu != nil {
			r.mu.Lock()
		} else {
			r.rwmu.Lock()
		}
		if s2 := cur.Load(); s2 != nil {
			// teardown / root / suppressed: keep the emulated state roughly right
			l := s2.lockFor(r, site)
			s2.mu.Lock()
			l.wheld = true
			l.writer = nil
			s2.mu.Unlock()
		}
		return
	}
	l := s.lockFor(r, site)
	t := s.taskFor(g, "lock:"+site)
	if s.LockYield {
		s.park(g, &Op{Kind: "lock", Site: l.site, lock: l})
	}
	s.mu.Lock()
	if !l.wheld && l.nread == 0 {
		l.wheld = true
		l.writer = t
		s.mu.Unlock()
		l.nativeLock()
		if s.HeldYield {
			// a scheduling point INSIDE the critical section: other tasks run while this one holds
			// the lock (TryLock fails for them, Lock makes them wait)
			s.park(g, &Op{Kind: "held", Site: l.site})
		}
		return
	}
	l.pendW[t] = true
	s.mu.Unlock()
	s.park(g, &Op{Kind: "lock-wait", Site: l.site, lock: l})
	// acquire() was performed by the root on release
}

// Unlock replaces X.Unlock().
func Unlock(site string, x any) {
	r := resolve(x)
	s := cur.Load()
	if s == nil {
		if r.mu != nil {
			r.mu.Unlock()
		} else {
			r.rwmu.Unlock()
		}
		return
	}
	l := s.lockFor(r, site)
	s.mu.Lock()
	l.wheld = false
	l.writer = nil
	// admit the readers that were waiting for this writer
	for t := range l.waitR {
		delete(l.waitR, t)
		l.granted[t] = true
		l.readers[t]++
		l.nread++
	}
	ngr := len(l.granted)
	s.mu.Unlock()
	if r.mu != nil {
		r.mu.Unlock()
	} else {
		r.rwmu.Unlock()
		// take the native read locks of the admitted readers now, so the
		// native state mirrors the emulated one
		_ = ngr
	}
	select {
	case s.wakeRoot <- struct{}{}:
	default:
	}
	unlockYield(s, l)
}

// unlockYield: an optional scheduling point right after a release. Code that goes on using shared
// state after it has dropped the lock (a lock scope that ends too early) is otherwise one atomic
// step with the critical section for this scheduler.
func unlockYield(s *Sched, l *lockState) {
	if !s.UnlockYield || s.aborting.Load() {
		return
	}
	g := curGID()
	if g == s.rootGID {
		return
	}
	if s.Suppress != nil && s.Suppress() {
		return
	}
	s.mu.Lock()
	t := s.tasks[g]
	s.mu.Unlock()
	if t == nil || t.anon {
		return
	}
	s.park(g, &Op{Kind: "unlocked", Site: l.site})
}

// RLock replaces X.RLock().
func RLock(site string, x any) {
	r := resolve(x)
	if r.rwmu == nil {
		panic("verifhook: RLock on a non-RW mutex at " + site)
	}
	s, g := active()
	if s == nil {
		if s2 := cur.Load(); s2 != nil && s2.aborting.Load() && curGID() != s2.rootGID {
			if !r.rwmu.TryRLock() {
				runtime.Goexit() // see Lock
			}
			return
		}
		r.rwmu.RLock()
		if s2 := cur.Load(); s2 != nil {
			l := s2.lockFor(r, site)
			s2.mu.Lock()
			l.nread++
			s2.mu.Unlock()
		}
		return
	}
	l := s.lockFor(r, site)
	t := s.taskFor(g, "rlock:"+site)
	if s.LockYield {
		s.park(g, &Op{Kind: "rlock", Site: l.site, lock: l})
	}
	s.mu.Lock()
	if !l.wheld && len(l.pendW) == 0 {
		l.readers[t]++
		l.nread++
		s.mu.Unlock()
		l.nativeRLock()
		if s.HeldYield {
			s.park(g, &Op{Kind: "rheld", Site: l.site})
		}
		return
	}
	l.waitR[t] = true
	s.mu.Unlock()
	s.park(g, &Op{Kind: "rlock-wait", Site: l.site, lock: l})
	// granted and counted at the writer's Unlock; take the native read lock now
	l.nativeRLock()
}

// RUnlock replaces X.RUnlock().
func RUnlock(site string, x any) {
	r := resolve(x)
	s := cur.Load()
	if s == nil {
		r.rwmu.RUnlock()
		return
	}
	l := s.lockFor(r, site)
	g := curGID()
	s.mu.Lock()
	t := s.tasks[g]
	if t != nil && l.readers[t] > 0 {
		l.readers[t]--
		if l.readers[t] == 0 {
			delete(l.readers, t)
		}
	} else {
		// unlocked by another goroutine than the locker: drop any one
		for k := range l.readers {
			l.readers[k]--
			if l.readers[k] == 0 {
				delete(l.readers, k)
			}
			break
		}
	}
	if l.nread > 0 {
		l.nread--
	}
	s.mu.Unlock()
	r.rwmu.RUnlock()
	select {
	case s.wakeRoot <- struct{}{}:
	default:
	}
	unlockYield(s, l)
}

// Held reports whether the emulated lock behind x is held by anyone (root helper).
func (s *Sched) Held(x any) bool {
	r := resolve(x)
	s.mu.Lock()
	defer s.mu.Unlock()
	l := s.locks[r.id]
	return l != nil && (l.wheld || l.nread > 0)
}

// TryLock replaces X.TryLock(): it never parks and succeeds exactly when the emulated lock is free.
func TryLock(site string, x any) bool {
	r := resolve(x)
	s, g := active()
	if s == nil {
		ok := false
		if r.mu != nil {
			ok = r.mu.TryLock()
		} else {
			ok = r.rwmu.TryLock()
		}
		if s2 := cur.Load(); ok && s2 != nil {
			l := s2.lockFor(r, site)
			s2.mu.Lock()
			l.wheld = true
			l.writer = nil
			s2.mu.Unlock()
		}
		return ok
	}
	l := s.lockFor(r, site)
	t := s.taskFor(g, "trylock:"+site)
	s.mu.Lock()
	if !l.wheld && l.nread == 0 {
		l.wheld = true
		l.writer = t
		s.mu.Unlock()
		l.nativeLock()
		return true
	}
	s.mu.Unlock()
	return false
}

// TryRLock replaces X.TryRLock().
func TryRLock(site string, x any) bool {
	r := resolve(x)
	if r.rwmu == nil {
		panic("verifhook: TryRLock on a non-RW mutex at " + site)
	}
	s, g := active()
	if s == nil {
		ok := r.rwmu.TryRLock()
		if s2 := cur.Load(); ok && s2 != nil {
			l := s2.lockFor(r, site)
			s2.mu.Lock()
			l.nread++
			s2.mu.Unlock()
		}
		return ok
	}
	l := s.lockFor(r, site)
	t := s.taskFor(g, "tryrlock:"+site)
	s.mu.Lock()
	if !l.wheld && len(l.pendW) == 0 {
		l.readers[t]++
		l.nread++
		s.mu.Unlock()
		l.nativeRLock()
		return true
	}
	s.mu.Unlock()
	return false
}
