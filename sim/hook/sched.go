// Package hook is the cooperative scheduler of the conjure simulator and, at the
// same time, the set of seam functions that instrumented conjure code calls
// (verifhook.Lock, verifhook.Go, verifhook.Dial, ...).
//
// With no scheduler installed every function degrades to the plain operation it
// replaced, so instrumented code behaves exactly like the original.
//
// With a scheduler installed (inside a testing/synctest bubble) every hook is a
// parking point: the calling goroutine ("task") records what it is about to do
// and blocks on its own channel, which synctest counts as durably blocked. The
// root goroutine waits for quiescence (synctest.Wait), computes the set of
// parked operations that are enabled, lets the choice tape pick one and
// releases exactly that task. All choices are therefore a function of the tape
// and of the history, never of the Go runtime's own scheduling.
package hook

import (
	"fmt"
	"runtime"
	"sort"
	"strings"
	"sync"
	"sync/atomic"
	"testing/synctest"
	"time"
)

// Chooser is the part of the choice tape the scheduler needs.
type Chooser interface {
	Choose(label string, n int) int
}

// Op describes what a parked task is about to do.
type Op struct {
	Kind string // "start", "lock", "rlock", "yield", "read", "write", ...
	Site string // stable description (object name / source position)
	// Enabled reports whether the operation can complete now. nil = always.
	// It is only called by the root goroutine at quiescence.
	Enabled func() bool
	// Deadline, if non-nil, returns the instant at which the operation becomes
	// enabled by the passage of time alone (zero = never).
	Deadline func() time.Time
	// Idle marks an operation that is enabled only while no non-idle operation
	// of any task is enabled ("wait until the system has nothing left to do").
	Idle bool
	// lock bookkeeping
	lock *lockState
}

// Task is one goroutine known to the scheduler.
type Task struct {
	Name     string
	gid      uint64
	wake     chan struct{}
	op       *Op // non-nil while parked
	exited   bool
	children map[string]int
	steps    int
	// anon: a goroutine that was not started through Go/Spawn (third-party code that entered an
	// instrumented lock); its exit cannot be observed, so it counts as live only while parked
	anon bool
}

// Sched is one run's scheduler.
type Sched struct {
	mu        sync.Mutex
	tasks     map[uint64]*Task // by goroutine id
	order     []*Task          // all tasks ever created (deterministic order of creation is NOT assumed; sorted by name on use)
	rootGID   uint64
	wakeRoot  chan struct{}
	aborting  atomic.Bool
	locks     map[uintptr]*lockState
	anon      map[string]int
	ch        Chooser
	Steps     int
	last      *Task
	Trace     func(string) // optional: receives one line per scheduling decision
	SigHash   uint64       // running hash of (task, kind, site) decisions
	LockYield bool         // park at every lock acquisition (true) or only when contended (false)
	// OnTaskPanic, if set, receives panics that escape a task's function (nil: the process crashes)
	OnTaskPanic func(task string, v any)
	UnlockYield bool // park right after every release (exposes lock scopes that end too early)
	HeldYield   bool // park right after every uncontended acquisition too, i.e. inside the critical section
	StayNum     int  // stay-bias: with probability StayNum/StayDen keep running the last task if enabled
	StayDen     int
	// PCT-like priorities (optional): if non-nil, the enabled task with highest priority runs.
	Prio     map[string]int
	Suppress func() bool // optional: true = caller is in a context where parking is forbidden
	// MaxPreempt >= 0 bounds preemptions (switching away from a task that could continue); -1 = unbounded.
	MaxPreempt int
	Preempts   int
	lockSites  map[string]int
}

var cur atomic.Pointer[Sched]

// Current returns the installed scheduler or nil.
func Current() *Sched { return cur.Load() }

// Install creates a scheduler whose root is the calling goroutine.
func Install(ch Chooser) *Sched {
	s := &Sched{
		tasks:      map[uint64]*Task{},
		wakeRoot:   make(chan struct{}, 1),
		locks:      map[uintptr]*lockState{},
		anon:       map[string]int{},
		ch:         ch,
		rootGID:    curGID(),
		StayNum:    0,
		StayDen:    1,
		MaxPreempt: -1,
		lockSites:  map[string]int{},
	}
	cur.Store(s)
	return s
}

// Uninstall removes the scheduler (hooks become pass-through again).
func (s *Sched) Uninstall() { cur.CompareAndSwap(s, nil) }

func curGID() uint64 {
	var buf [64]byte
	n := runtime.Stack(buf[:], false)
	// "goroutine 123 ["
	var id uint64
	for i := len("goroutine "); i < n; i++ {
		c := buf[i]
		if c < '0' || c > '9' {
			break
		}
		id = id*10 + uint64(c-'0')
	}
	return id
}

// active returns the scheduler if the calling goroutine should park.
func active() (*Sched, uint64) {
	s := cur.Load()
	if s == nil {
		return nil, 0
	}
	if s.aborting.Load() {
		return nil, 0
	}
	g := curGID()
	if g == s.rootGID {
		return nil, 0
	}
	if s.Suppress != nil && s.Suppress() {
		return nil, 0
	}
	return s, g
}

func (s *Sched) taskFor(g uint64, firstSite string) *Task {
	s.mu.Lock()
	defer s.mu.Unlock()
	t := s.tasks[g]
	if t == nil {
		k := s.anon[firstSite]
		s.anon[firstSite] = k + 1
		t = &Task{Name: fmt.Sprintf("anon[%s]#%d", firstSite, k), gid: g, wake: make(chan struct{}, 1), children: map[string]int{}, anon: true}
		s.tasks[g] = t
		s.order = append(s.order, t)
	}
	return t
}

// park blocks the calling task until the root releases it.
func (s *Sched) park(g uint64, op *Op) {
	t := s.taskFor(g, op.Kind+":"+op.Site)
	s.mu.Lock()
	t.op = op
	s.mu.Unlock()
	select {
	case s.wakeRoot <- struct{}{}:
	default:
	}
	<-t.wake
	if s.aborting.Load() {
		s.mu.Lock()
		t.op = nil
		s.mu.Unlock()
		if op.Kind == "start" {
			// A goroutine that was created but not yet scheduled when the run is torn down
			// still runs its function (with pass-through hooks): `go f()` guarantees that f
			// runs, and f may owe its creator something (a deferred WaitGroup.Done, a close).
			// The world has cancelled contexts and closed connections by now, so f winds down.
			return
		}
		// leave through Goexit so deferred unlocks / closes of the system run
		runtime.Goexit()
	}
}

// Park is the generic parking point used by simulated objects (simnet, ...).
// It returns immediately when no scheduler is active.
func Park(op *Op) {
	s, g := active()
	if s == nil {
		return
	}
	s.park(g, op)
}

// Yield is an explicit scheduling point.
func Yield(site string) {
	s, g := active()
	if s == nil {
		return
	}
	s.park(g, &Op{Kind: "yield", Site: site})
}

// Go starts f as a named task. Pass-through: plain goroutine.
func Go(site string, f func()) {
	s := cur.Load()
	if s == nil || s.aborting.Load() {
		go f()
		return
	}
	g := curGID()
	var name string
	s.mu.Lock()
	if g == s.rootGID {
		k := s.anon["root/"+site]
		s.anon["root/"+site] = k + 1
		name = fmt.Sprintf("%s#%d", site, k)
	} else {
		p := s.tasks[g]
		if p == nil {
			k := s.anon["go:"+site]
			s.anon["go:"+site] = k + 1
			name = fmt.Sprintf("anon/%s#%d", site, k)
		} else {
			k := p.children[site]
			p.children[site] = k + 1
			name = fmt.Sprintf("%s/%s#%d", p.Name, site, k)
		}
	}
	t := &Task{Name: name, wake: make(chan struct{}, 1), children: map[string]int{}}
	s.order = append(s.order, t)
	s.mu.Unlock()
	go func() {
		gid := curGID()
		s.mu.Lock()
		t.gid = gid
		s.tasks[gid] = t
		s.mu.Unlock()
		defer func() {
			s.mu.Lock()
			t.exited = true
			t.op = nil
			delete(s.tasks, gid)
			s.mu.Unlock()
			select {
			case s.wakeRoot <- struct{}{}:
			default:
			}
		}()
		if !s.aborting.Load() {
			s.park(gid, &Op{Kind: "start", Site: site})
		}
		s.runTask(t.Name, f)
	}()
}

// Spawn is Go for harness code: the name is given explicitly.
func (s *Sched) Spawn(name string, f func()) {
	t := &Task{Name: name, wake: make(chan struct{}, 1), children: map[string]int{}}
	s.mu.Lock()
	s.order = append(s.order, t)
	s.mu.Unlock()
	go func() {
		gid := curGID()
		s.mu.Lock()
		t.gid = gid
		s.tasks[gid] = t
		s.mu.Unlock()
		defer func() {
			s.mu.Lock()
			t.exited = true
			t.op = nil
			delete(s.tasks, gid)
			s.mu.Unlock()
			select {
			case s.wakeRoot <- struct{}{}:
			default:
			}
		}()
		if !s.aborting.Load() {
			s.park(gid, &Op{Kind: "start", Site: name})
		}
		s.runTask(name, f)
	}()
}

// runTask runs a task's function. A panic that escapes it would take the process down (as it
// takes the real program down); with OnTaskPanic set it is handed to the world instead, which
// turns it into a verdict.
func (s *Sched) runTask(name string, f func()) {
	if s.OnTaskPanic == nil {
		f()
		return
	}
	defer func() {
		if p := recover(); p != nil {
			s.OnTaskPanic(name, p)
		}
	}()
	f()
}

// TaskName returns the name of the calling task ("" if unknown / root).
func TaskName() string {
	s := cur.Load()
	if s == nil {
		return ""
	}
	g := curGID()
	s.mu.Lock()
	defer s.mu.Unlock()
	if t := s.tasks[g]; t != nil {
		return t.Name
	}
	return ""
}

// Parked describes one parked task for the root.
type Parked struct {
	Task    *Task
	Op      *Op
	Enabled bool
}

// Snapshot returns all parked tasks sorted by task name. Root only, at quiescence.
func (s *Sched) Snapshot() []Parked {
	s.mu.Lock()
	var ps []Parked
	for _, t := range s.order {
		if t.op != nil && !t.exited {
			ps = append(ps, Parked{Task: t, Op: t.op})
		}
	}
	s.mu.Unlock()
	sort.Slice(ps, func(i, j int) bool { return ps[i].Task.Name < ps[j].Task.Name })
	busy := false
	for i := range ps {
		if ps[i].Op.Idle {
			continue
		}
		ps[i].Enabled = s.enabled(ps[i].Task, ps[i].Op)
		if ps[i].Enabled {
			busy = true
		}
	}
	for i := range ps {
		if ps[i].Op.Idle {
			ps[i].Enabled = !busy && s.enabled(ps[i].Task, ps[i].Op)
		}
	}
	return ps
}

// ParkIdle parks the calling task until no other (non-idle) operation is enabled.
func ParkIdle(site string) {
	s, g := active()
	if s == nil {
		return
	}
	s.park(g, &Op{Kind: "idle", Site: site, Idle: true})
}

func (s *Sched) enabled(t *Task, op *Op) bool {
	if op.lock != nil {
		return op.lock.acquirable(t, op.Kind)
	}
	if op.Enabled != nil {
		return op.Enabled()
	}
	return true
}

// Live returns the number of registered tasks that have not exited.
func (s *Sched) Live() int {
	s.mu.Lock()
	defer s.mu.Unlock()
	n := 0
	for _, t := range s.order {
		if !t.exited && (!t.anon || t.op != nil) {
			n++
		}
	}
	return n
}

// LiveNames returns the names of the tasks that have not exited, sorted.
func (s *Sched) LiveNames() []string {
	s.mu.Lock()
	defer s.mu.Unlock()
	var ns []string
	for _, t := range s.order {
		if !t.exited {
			st := "running/blocked"
			if t.op != nil {
				st = "parked@" + t.op.Kind + ":" + t.op.Site
			}
			ns = append(ns, t.Name+" ["+st+"]")
		}
	}
	sort.Strings(ns)
	return ns
}

// Release lets one parked task continue. Root only.
func (s *Sched) Release(p Parked) {
	s.mu.Lock()
	t := p.Task
	op := t.op
	t.op = nil
	t.steps++
	s.Steps++
	s.last = t
	s.mu.Unlock()
	if op != nil && op.lock != nil {
		op.lock.acquire(t, op.Kind)
	}
	h := s.SigHash
	for _, str := range []string{t.Name, op.Kind, op.Site} {
		for i := 0; i < len(str); i++ {
			h = (h ^ uint64(str[i])) * 1099511628211
		}
		h = (h ^ 0xff) * 1099511628211
	}
	s.SigHash = h
	if s.Trace != nil {
		s.Trace(t.Name + " " + op.Kind + ":" + op.Site)
	}
	t.wake <- struct{}{}
}

// Pick chooses among the enabled parked tasks using the tape (with stay bias).
// It returns false when none is enabled.
func (s *Sched) Pick(ps []Parked) (Parked, bool) {
	var en []Parked
	for _, p := range ps {
		if p.Enabled {
			en = append(en, p)
		}
	}
	if len(en) == 0 {
		return Parked{}, false
	}
	if len(en) == 1 {
		return en[0], true
	}
	if s.Prio != nil {
		best := 0
		for i := range en {
			if s.Prio[en[i].Task.Name] > s.Prio[en[best].Task.Name] {
				best = i
			}
		}
		// a priority change point: the tape may demote the current best
		if s.ch.Choose("pct-demote", 8) == 1 {
			s.Prio[en[best].Task.Name] = -s.Steps
			return s.Pick(ps)
		}
		return en[best], true
	}
	if s.MaxPreempt >= 0 && s.last != nil {
		for i := range en {
			if en[i].Task == s.last {
				if s.Preempts >= s.MaxPreempt {
					return en[i], true
				}
				// choice 0 = continue the running task; others = preempt
				k := s.ch.Choose("sched", len(en))
				if k == 0 {
					return en[i], true
				}
				s.Preempts++
				j := k - 1
				if j >= i {
					j++
				}
				return en[j], true
			}
		}
		return en[s.ch.Choose("sched", len(en))], true
	}
	if s.StayNum > 0 && s.last != nil {
		for i := range en {
			if en[i].Task == s.last {
				// value 0 (the shrink target) = stay
				if s.ch.Choose("stay", s.StayDen) < s.StayNum {
					return en[i], true
				}
				break
			}
		}
	}
	return en[s.ch.Choose("sched", len(en))], true
}

// WaitWake blocks the root until some task parks/exits or d elapses (bubble
// time). It reports whether it was woken by a task.
func (s *Sched) WaitWake(d time.Duration) bool {
	if d <= 0 {
		select {
		case <-s.wakeRoot:
			return true
		default:
			return false
		}
	}
	tm := time.NewTimer(d)
	defer tm.Stop()
	select {
	case <-s.wakeRoot:
		return true
	case <-tm.C:
		return false
	}
}

// DrainWake clears a pending wake-up token.
func (s *Sched) DrainWake() {
	select {
	case <-s.wakeRoot:
	default:
	}
}

// Abort releases every parked task with the abort flag; they leave through
// runtime.Goexit. Hooks called afterwards are pass-through.
func (s *Sched) Abort() {
	s.aborting.Store(true)
	s.mu.Lock()
	ts := append([]*Task(nil), s.order...)
	s.mu.Unlock()
	for _, t := range ts {
		select {
		case t.wake <- struct{}{}:
		default:
		}
	}
}

// Finish aborts the run and then lets simulated time pass until every task
// has exited (a bubble's clock stops once its root goroutine returns, so tasks
// that are sleeping during teardown would otherwise count as leaked).
func (s *Sched) Finish() {
	s.Abort()
	for i := 0; i < 240; i++ {
		// Let every woken task run until it has exited or is durably blocked before looking: without
		// this the answer of Live() depends on how far the woken goroutines got on other threads,
		// and a run could take one simulated minute more in one process than in another.
		synctest.Wait()
		if s.Live() == 0 {
			return
		}
		time.Sleep(time.Minute)
	}
}

// AbortedTask reports whether the caller is a goroutine other than the root while the run is being
// torn down. What such a goroutine still does (closing connections, returning from handlers) runs
// truly concurrently with the root, so it must not leave traces in the event log.
func AbortedTask() bool {
	s := cur.Load()
	return s != nil && s.aborting.Load() && curGID() != s.rootGID
}

// Aborting reports whether the run is being torn down.
func Aborting() bool {
	s := cur.Load()
	return s != nil && s.aborting.Load()
}

// WaitForGraph renders, for deadlock reports, who waits for which lock held by whom.
func (s *Sched) WaitForGraph() string {
	ps := s.Snapshot()
	var b strings.Builder
	for _, p := range ps {
		if p.Op.lock != nil && !p.Enabled {
			fmt.Fprintf(&b, "%s waits %s(%s) held by %s; ", p.Task.Name, p.Op.Kind, p.Op.Site, p.Op.lock.holders())
		}
	}
	return b.String()
}

// LockWaiters returns the number of parked tasks that wait for an emulated lock they cannot get.
func (s *Sched) LockWaiters() int {
	n := 0
	for _, p := range s.Snapshot() {
		if p.Op.lock != nil && !p.Enabled {
			n++
		}
	}
	return n
}
