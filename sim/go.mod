module verif/sim

go 1.22.0
