module verif/sim

go 1.22.0

require github.com/anishathalye/porcupine v1.3.0
